#!/usr/bin/env python3
"""Rewrite the generated region of DESIGN.md (between the AUTO-BEGIN/AUTO-END markers) from
known_findings.json and seeded/*/meta.json."""
import json, re
from pathlib import Path
V = Path(__file__).resolve().parents[1]
kf = json.loads((V / "known_findings.json").read_text())["findings"]
out = []
out.append("### 10.4 Fix commits and known findings (generated from known_findings.json)\n")
out.append("`fix:` commits in /repo (each minimal; the unedited suite passes: 3654 passed):\n")
out.append("| commit | properties | signature | what failed |\n|---|---|---|---|")
for e in kf:
    if e["kind"] == "fixed":
        props = e.get("property") or ",".join(e.get("properties", []))
        what = re.sub(r"^fixed: property=\S+ (\S+ )?", "", e["what"])
        out.append(f"| {e.get('commit','')} | {props} | `{e['signature']}` | {what} |")
out.append("\nKnown findings (genuine defects recorded, not repaired; each has a dedicated probe that prints `KNOWN-FINDING` while it reproduces):\n")
out.append("| properties | signature | what fails |\n|---|---|---|")
for e in kf:
    if e["kind"] == "known":
        props = e.get("property") or ",".join(e.get("properties", []))
        out.append(f"| {props} | `{e['signature']}` | {e['what']} |")
out.append("\n### 10.5 Seeded changes and which checks catch them (generated from seeded/*/meta.json)\n")
out.append("Each change was produced by an independent sub-agent that saw only the property text and its own worktree; "
           "I confirmed for each (tools/try_seed.py, private copy of /repo): demo passes without / fails with the patch, "
           "the full suite passes with the patch, then ran the listed checks with `VERIF_REPO=<patched copy>`.\n")
out.append("| seed | property | summary | needs | caught by | note |\n|---|---|---|---|---|---|")
for d in sorted((V / "seeded").iterdir()):
    m = json.loads((d / "meta.json").read_text())
    cb = ", ".join(m.get("caught_by", [])) or "**not caught**"
    out.append(f"| {d.name} | {m.get('property')} | {m.get('summary','')[:220]} | {m.get('needs','')[:220]} | {cb} | {m.get('note','')} |")
text = "\n".join(out) + "\n"
p = V / "DESIGN.md"
s = p.read_text()
b, e = "<!-- AUTO-BEGIN -->", "<!-- AUTO-END -->"
if b not in s:
    s += f"\n{b}\n{e}\n"
s = s[: s.index(b) + len(b)] + "\n" + text + s[s.index(e):]
p.write_text(s)
print("DESIGN.md tables regenerated:", sum(1 for x in kf if x['kind']=='fixed'), "fixed,", sum(1 for x in kf if x['kind']=='known'), "known,", len(list((V/'seeded').iterdir())), "seeds")
