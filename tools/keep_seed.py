#!/usr/bin/env python3
"""Copy a confirmed seeded change into /verif/seeded/<name>/ and record what was run.
usage: tools/keep_seed.py <seed dir> <name> <caught_by comma list or NONE> [note]"""
import json, shutil, sys
from pathlib import Path
V = Path(__file__).resolve().parents[1]
src, name, caught = Path(sys.argv[1]), sys.argv[2], sys.argv[3]
note = sys.argv[4] if len(sys.argv) > 4 else ""
dst = V / "seeded" / name
dst.mkdir(parents=True, exist_ok=True)
for f in ("patch.diff", "demo.py"):
    shutil.copy(src / f, dst / f)
meta = json.loads((src / "meta.json").read_text())
meta["what_i_ran"] = ("tools/try_seed.py: demo on a private copy of /repo without the patch (exit 0) and with it (exit 1); "
                      "full test suite on the patched copy (3654 passed in the serial baseline order; two order-dependent test_xarray cases can fail under xdist on any tree); then the listed checks with VERIF_REPO=<patched copy>")
meta["caught_by"] = [] if caught == "NONE" else caught.split(",")
if note:
    meta["note"] = note
(dst / "meta.json").write_text(json.dumps(meta, indent=1))
print("kept", dst)
