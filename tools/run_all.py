#!/usr/bin/env python3
"""Run every claimed check (MANIFEST.json) for several seeds; print a table of exit codes.
usage: tools/run_all.py [--seeds 0,1,2] [--tier quick] [--jobs 4] [ids…]"""
import json, os, subprocess, sys, time
from concurrent.futures import ThreadPoolExecutor
from pathlib import Path

V = Path(__file__).resolve().parents[1]
args = sys.argv[1:]
def opt(name, default):
    if name in args:
        i = args.index(name); v = args[i + 1]; del args[i:i + 2]; return v
    return default
seeds = [int(s) for s in opt("--seeds", "0,1,2").split(",")]
tier = opt("--tier", "quick")
jobs = int(opt("--jobs", "4"))
ids = args or [c["property_id"] for c in json.loads((V / "MANIFEST.json").read_text())["checks"]]

def run(job):
    pid, seed = job
    t = time.time()
    p = subprocess.run([str(V / "check"), pid, "--tier", tier], cwd=V, env=dict(os.environ, VERIF_SEED=str(seed)), capture_output=True, text=True)
    last = [l for l in p.stdout.splitlines() if l.startswith("[")][-1:] or [p.stdout[-200:] + p.stderr[-300:]]
    viol = [l for l in p.stdout.splitlines() if l.startswith("VIOLATION")]
    return pid, seed, p.returncode, round(time.time() - t), last[0], viol

with ThreadPoolExecutor(jobs) as ex:
    res = list(ex.map(run, [(p, s) for s in seeds for p in ids]))
bad = 0
for pid, seed, rc, wall, last, viol in sorted(res):
    flag = "" if rc == 0 else "   <<<<<<"
    if rc: bad += 1
    print(f"{pid} seed={seed} exit={rc} {wall}s {last[:150]}{flag}")
    for v in viol[:3]:
        print("     ", v)
print("non-zero exits:", bad)
