#!/usr/bin/env python3
"""Regenerate every Generated/*.lean table from /repo (run after trials with VERIF_REPO, which
rewrite the shared tables from the private copy)."""
import importlib, os, sys
from pathlib import Path
V = Path(__file__).resolve().parents[1]
sys.path.insert(0, str(V))
os.environ.pop("VERIF_REPO", None)
from harness import core
for f in sorted((V / "harness" / "props").glob("C*.py")):
    pid = f.stem
    mod = importlib.import_module(f"harness.props.{pid}")
    if hasattr(mod, "translate"):
        mod.translate(core.Ctx(pid, "quick", 0))
        print("regenerated tables of", pid)
