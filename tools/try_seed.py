#!/usr/bin/env python3
"""Apply a seeded change to a private copy of /repo and run checks against it.

usage: tools/try_seed.py <seed dir containing patch.diff, demo.py, meta.json> [check ids…] [--tests] [--tier quick]
Prints, per check, exit code and the VIOLATION lines.  Nothing touches /repo.
"""
import json
import os
import shutil
import subprocess
import sys
import tempfile
from pathlib import Path

VERIF = Path(__file__).resolve().parents[1]


def main():
    args = [a for a in sys.argv[1:] if not a.startswith("--")]
    flags = [a for a in sys.argv[1:] if a.startswith("--")]
    seed = Path(args[0]).resolve()
    meta = json.loads((seed / "meta.json").read_text()) if (seed / "meta.json").exists() else {}
    checks = args[1:] or [meta.get("property")]
    tmp = Path(tempfile.mkdtemp(prefix="repo-seed-"))
    repo = tmp / "repo"
    try:
        shutil.copytree("/repo", repo, ignore=shutil.ignore_patterns(".git", "target", "__pycache__"))
        env = dict(os.environ, PYTHONPATH=str(repo), PYTHONDONTWRITEBYTECODE="1")
        demo = seed / "demo.py"
        r0 = subprocess.run(["/venv/bin/python", str(demo)], cwd=repo, env=env, capture_output=True, text=True, timeout=600) if demo.exists() else None
        p = subprocess.run(["git", "apply", "--unsafe-paths", "--directory", str(repo), str(seed / "patch.diff")], cwd="/", capture_output=True, text=True)
        if p.returncode != 0:
            p = subprocess.run(["patch", "-p1", "-i", str(seed / "patch.diff")], cwd=repo, capture_output=True, text=True)
            if p.returncode != 0:
                print("PATCH DOES NOT APPLY:", p.stdout[-300:], p.stderr[-300:])
                return 2
        r1 = subprocess.run(["/venv/bin/python", str(demo)], cwd=repo, env=env, capture_output=True, text=True, timeout=600) if demo.exists() else None
        print(f"demo: without patch exit={r0.returncode if r0 else None}  with patch exit={r1.returncode if r1 else None}")
        if r1 is not None:
            print("   ", (r1.stdout + r1.stderr).strip().splitlines()[-1:] )
        if "--tests" in flags:
            t = subprocess.run(["/venv/bin/python", "-m", "pytest", "-q", "-ra", "-p", "no:cacheprovider", "-n", "6", "dask_array/tests"], cwd=repo, env=env, capture_output=True, text=True, timeout=3600)
            print("tests:", t.stdout.strip().splitlines()[-1] if t.stdout.strip() else t.stderr[-200:])
            for l in t.stdout.splitlines():
                if l.startswith("FAILED"):
                    print("   ", l[:160])
        tier = "thorough" if "--thorough" in flags else "quick"
        for c in checks:
            e = dict(os.environ, VERIF_REPO=str(repo))
            q = subprocess.run([str(VERIF / "check"), c, "--tier", tier], cwd=VERIF, env=e, capture_output=True, text=True, timeout=7200)
            lines = [l for l in q.stdout.splitlines() if l.startswith("VIOLATION") or l.startswith("[")]
            print(f"check {c}: exit={q.returncode}")
            for l in lines[:6]:
                print("   ", l[:220])
            if q.returncode == 2:
                print(q.stdout[-600:], q.stderr[-600:])
    finally:
        shutil.rmtree(tmp, ignore_errors=True)
        # the run above rewrote the shared Generated/*.lean tables from the patched copy
        subprocess.run(["/venv/bin/python", str(VERIF / "tools" / "regen.py")], cwd=VERIF, capture_output=True, env={k: v for k, v in os.environ.items() if k != "VERIF_REPO"})


if __name__ == "__main__":
    sys.exit(main())
