"""Translator for C06 / C07: naming tables generated from /repo's CURRENT working tree.

For every `ArrayExpr` subclass (runtime walk of `__subclasses__()` after importing every
non-test dask_array module) it computes, by AST analysis of the members resolved along the
class's MRO (the same resolution Python performs, so an overriding property shadows an
operand of the same name exactly as `Expr.__getattr__` does):

  tokenized(cls)  operands read by the class's NAME: `_name` and whatever it reaches
                  (`deterministic_token` -> `__dask_tokenize__`, `_info`, derived properties)
  semantic(cls)   operands read by the members that decide what the node IS:
                  chunks / _meta / dtype / shape / _layer / _task / _lower / _simplify_down /
                  _accept_* / lower_once / dependencies ...      (an over-approximation)

`self.X` is an operand read when X is in `_parameters` and no class in the MRO defines X;
`self.operand("X")` reads X; `self.operands` (any use) reads everything (all parameters and
the variadic tail, written "*").

It also lists every site in naming code (functions named `_name`, `__dask_tokenize__`,
`deterministic_token`, `_info`, `_tokenize*`, plus functions that hand-build a name:
those passing `_determ_token=` / `_name_override=` / `_name_is_exact=`) that can read state
which is not a function of the operands: `id(`, `uuid`, `hash(`, `random`, `time`,
`os.getpid`, `object.__repr__`, and the non-strict `tokenize(` (which silently falls back to
a random token for an untokenizable object).  Site strings are `file::qualname::what`
(stable under line shifts; the line numbers are emitted as comments).
"""
from __future__ import annotations

import ast
import functools
import importlib
import inspect
import pkgutil
import sys
import textwrap
from pathlib import Path

ALL = "*ALL*"

NAMING_FUNCS = ("_name", "__dask_tokenize__", "deterministic_token", "_info")
HANDBUILT_KW = ("_determ_token", "_name_override", "_name_is_exact")

# members whose reads make up the semantic set (plus every `_accept_*`)
SEMANTIC_ROOTS = (
    "chunks", "_meta", "dtype", "shape", "_layer", "_task", "_lower", "lower_once", "_simplify_down",
    "dependencies", "_input_block_id", "_all_input_block_ids", "_frisky_layer",
)
# attributes that are names / bookkeeping, never operand reads
STOP_ATTRS = {
    "_name", "name", "deterministic_token", "__dask_tokenize__", "_determ_token", "_parameters", "_defaults",
    "_funcname", "__class__", "_instances", "_cached_keys", "__dask_keys__", "__dask_graph__",
}
# while following the NAME, only pure bookkeeping is skipped (deterministic_token -> __dask_tokenize__ is followed)
NAMING_STOP = frozenset({"_determ_token", "_parameters", "_defaults", "_funcname", "__class__", "_instances"})
# generic rewrite drivers of dask._expr: they thread `self.operands` through `type(self)(...)`
# and never interpret them; following them would mark every operand semantic for every class
GENERIC_DRIVERS = {
    "simplify", "rewrite", "lower_completely", "optimize", "fuse", "walk", "find_operations", "substitute",
    "substitute_parameters", "_depth", "tree_repr", "_tree_repr_lines", "pprint", "__str__", "__repr__",
    "_operands_for_repr", "_table", "__reduce__", "visualize", "_to_graphviz",
}


def import_all():
    import dask_array

    bad = []
    for m in pkgutil.walk_packages(dask_array.__path__, "dask_array."):
        if ".tests" in m.name or m.name.endswith("_test_utils") or "._rust" in m.name:
            continue
        try:
            importlib.import_module(m.name)
        except Exception as e:  # optional native / third-party pieces
            bad.append((m.name, type(e).__name__))
    return bad


def all_classes():
    from dask_array._expr import ArrayExpr

    import_all()
    seen = []

    def walk(c):
        for s in c.__subclasses__():
            if s not in seen:
                seen.append(s)
                walk(s)

    walk(ArrayExpr)
    out = []
    for c in seen:
        mod = c.__module__
        if not mod.startswith("dask_array") or ".tests" in mod or mod.endswith("_test_utils") or "<locals>" in c.__qualname__:
            continue
        out.append(c)
    out.sort(key=lambda c: (c.__module__, c.__qualname__))
    return out


def _unwrap(obj):
    """function object behind a descriptor, or None for plain data."""
    if isinstance(obj, property):
        return obj.fget
    if isinstance(obj, functools.cached_property):
        return obj.func
    if isinstance(obj, (classmethod, staticmethod)):
        return obj.__func__
    if inspect.isfunction(obj):
        return obj
    return None


@functools.lru_cache(maxsize=None)
def _func_ast(fn):
    try:
        src = textwrap.dedent(inspect.getsource(fn))
        tree = ast.parse(src)
    except (OSError, TypeError, SyntaxError, IndentationError):
        return None, None, 0
    node = tree.body[0]
    try:
        file = inspect.getsourcefile(fn)
        line = fn.__code__.co_firstlineno
    except Exception:
        file, line = None, 0
    return node, file, line


def _owner(cls, attr, after=None):
    mro = cls.__mro__
    if after is not None:
        mro = mro[mro.index(after) + 1:]
    for k in mro:
        if attr in k.__dict__:
            return k
    return None


class Reader:
    """Transitive operand reads of a member of a concrete class."""

    def __init__(self, cls, stop=frozenset()):
        self.cls = cls
        self.stop = stop
        self.params = list(cls._parameters)
        self.memo = {}
        self.funcs_seen = []  # (owner, fn) visited
        self.variadic = False  # some reached member slices `self.operands[a:b]` (operands beyond _parameters)

    def reads(self, attr, after=None, stack=()):
        key = (attr, after)
        if key in self.memo:
            return self.memo[key]
        if key in stack:
            return set()
        owner = _owner(self.cls, attr, after)
        if owner is None:
            out = {attr} if attr in self.params else set()
            self.memo[key] = out
            return out
        fn = _unwrap(owner.__dict__[attr])
        if fn is None:
            self.memo[key] = set()
            return set()
        out = self.reads_fn(fn, owner, stack + (key,))
        self.memo[key] = out
        return out

    def reads_fn(self, fn, owner, stack):
        node, _file, _line = _func_ast(fn)
        if node is None or not isinstance(node, (ast.FunctionDef, ast.AsyncFunctionDef)):
            return set()
        self.funcs_seen.append((owner, fn))
        args = node.args.posonlyargs + node.args.args
        selfname = args[0].arg if args else "self"
        out = set()
        for n in ast.walk(node):
            if (
                isinstance(n, ast.Subscript)
                and isinstance(n.slice, ast.Slice)
                and n.slice.lower is not None  # a tail `[len(self._parameters):]`, not the prefix copy
                and isinstance(n.value, ast.Attribute)
                and n.value.attr == "operands"
                and isinstance(n.value.value, ast.Name)
                and n.value.value.id == selfname
            ):
                self.variadic = True
        for n in ast.walk(node):
            if not isinstance(n, ast.Attribute):
                continue
            v = n.value
            a = n.attr
            is_self = isinstance(v, ast.Name) and v.id == selfname
            is_super = (
                isinstance(v, ast.Call) and isinstance(v.func, ast.Name) and v.func.id == "super"
            )
            if not (is_self or is_super):
                continue
            if a == "operands":
                out.add(ALL)
                continue
            if a == "operand":
                continue  # handled on the Call below
            if a in self.stop or a in GENERIC_DRIVERS:
                continue
            out |= self.reads(a, after=owner if is_super else None, stack=stack)
        for n in ast.walk(node):
            if (
                isinstance(n, ast.Call)
                and isinstance(n.func, ast.Attribute)
                and n.func.attr == "operand"
                and isinstance(n.func.value, ast.Name)
                and n.func.value.id == selfname
            ):
                if n.args and isinstance(n.args[0], ast.Constant) and isinstance(n.args[0].value, str):
                    out.add(n.args[0].value)
                else:
                    out.add(ALL)
        return out

    def expand(self, s, variadic):
        if ALL in s:
            return list(self.params) + (["*"] if variadic else [])
        return [p for p in self.params if p in s] + (["*"] if ("*" in s and variadic) else [])


class MustReader(Reader):
    """Operands the member DEFINITELY reads on every normal path (an under-approximation, used
    for the NAME: the coverage obligation `semantic ⊆ tokenized` is sound when `tokenized` is
    under- and `semantic` over-approximated).

    statements are followed in order; `if t: A else: B` contributes reads(t) ∪ (must(A) ∩ must(B))
    (when A ends in return/raise, B is the rest of the function); the token-cache guard
    `if not self._determ_token:` is transparent; `a or b` / `a and b` / `x if t else y` contribute
    only their first-evaluated operand (plus the intersection of the alternatives); the normal
    path of `try` is its body; loop bodies and comprehension elements count (an empty iterable
    carries no data to depend on); nested function/lambda bodies do not."""

    def _norm(self, s):
        if ALL in s:
            return set(s) | set(self.params) | {"*"}
        return set(s)

    def _inter(self, a, b):
        return self._norm(a) & self._norm(b)

    def reads_fn(self, fn, owner, stack):
        node, _file, _line = _func_ast(fn)
        if node is None or not isinstance(node, (ast.FunctionDef, ast.AsyncFunctionDef)):
            return set()
        self.funcs_seen.append((owner, fn))
        args = node.args.posonlyargs + node.args.args
        self._selfname = args[0].arg if args else "self"
        for n in ast.walk(node):
            if (
                isinstance(n, ast.Subscript)
                and isinstance(n.slice, ast.Slice)
                and n.slice.lower is not None
                and isinstance(n.value, ast.Attribute)
                and n.value.attr == "operands"
                and isinstance(n.value.value, ast.Name)
                and n.value.value.id == self._selfname
            ):
                self.variadic = True
        ctx = (owner, stack, self._selfname)
        out, _term = self._block(node.body, ctx)
        return out

    # ---- statements
    def _block(self, stmts, ctx):
        out = set()
        for i, st in enumerate(stmts):
            if isinstance(st, (ast.FunctionDef, ast.AsyncFunctionDef, ast.ClassDef, ast.Import, ast.ImportFrom, ast.Pass, ast.Global, ast.Nonlocal)):
                continue
            if isinstance(st, ast.Raise):
                return out, "raise"  # a path that raises mints no name: neutral in intersections
            if isinstance(st, ast.Return):
                if st.value is not None:
                    out |= self._expr(st.value, ctx)
                return out, True
            if isinstance(st, ast.If):
                out |= self._expr(st.test, ctx)
                body, bterm = self._block(st.body, ctx)
                if self._is_cache_guard(st.test, ctx):
                    out |= body
                    continue
                if bterm:
                    rest, rterm = self._block(list(st.orelse) + list(stmts[i + 1:]), ctx)
                    if bterm == "raise":
                        out |= rest
                    elif rterm == "raise":
                        out |= body
                    else:
                        out |= self._inter(body, rest)
                    return out, (rterm if bterm == "raise" else (True if rterm == "raise" else rterm))
                orelse, oterm = self._block(st.orelse, ctx)
                if oterm:
                    # the else branch leaves: what follows runs only after `body`
                    rest, rterm = self._block(list(stmts[i + 1:]), ctx)
                    if oterm == "raise":
                        out |= body | rest
                    else:
                        out |= self._inter(body | rest, orelse)
                    return out, rterm
                out |= self._inter(body, orelse)
                continue
            if isinstance(st, ast.Try):
                body, bterm = self._block(st.body + st.orelse, ctx)
                out |= body
                fin, fterm = self._block(st.finalbody, ctx)
                out |= fin
                if bterm and all(self._block(h.body, ctx)[1] for h in st.handlers):
                    return out, True
                continue
            if isinstance(st, (ast.For, ast.AsyncFor)):
                out |= self._expr(st.iter, ctx, self._is_self_read(st.iter, ctx[2]))
                out |= self._block(st.body, ctx)[0]
                continue
            if isinstance(st, ast.While):
                out |= self._expr(st.test, ctx)
                continue
            if isinstance(st, (ast.With, ast.AsyncWith)):
                for it in st.items:
                    out |= self._expr(it.context_expr, ctx)
                b, t = self._block(st.body, ctx)
                out |= b
                if t:
                    return out, True
                continue
            # simple statements: every expression field
            for f in ast.iter_child_nodes(st):
                if isinstance(f, ast.expr):
                    out |= self._expr(f, ctx)
        return out, False

    def _is_cache_guard(self, test, ctx):
        return (
            isinstance(test, ast.UnaryOp)
            and isinstance(test.op, ast.Not)
            and isinstance(test.operand, ast.Attribute)
            and test.operand.attr == "_determ_token"
        )

    # ---- expressions
    # A read only counts when the operand's VALUE can reach the name intact.  It does not when the operand is
    #   * anywhere under a call that keeps only a summary:            len(x), type(x), bool(x), isinstance(x, T), hash/id, any/all/min/max/sum
    #   * the direct argument of a call that drops part of a mapping/sequence: sorted(d), list(d), tuple(d), set(d), frozenset(d), iter(d), enumerate(d)
    #     (a dict operand would contribute its KEYS only), or is iterated directly (`for k in self.d`)
    #   * accessed through an attribute other than its name/token/.items(), or subscripted (`self.d.keys()`, `self.t[0]`)
    ALWAYS_LOSSY = {"len", "type", "bool", "isinstance", "hash", "id", "any", "all", "min", "max", "sum", "callable", "repr_type"}
    DIRECT_LOSSY = {"sorted", "list", "tuple", "set", "frozenset", "iter", "enumerate", "reversed"}
    OK_ATTRS = {"_name", "name", "deterministic_token", "_determ_token", "items", "__dask_tokenize__"}

    def _is_self_read(self, e, selfname):
        """`self.X` with X an OPERAND (a parameter no class shadows), `self.operands`, `self.operand("X")`: an expression
        whose value is an operand itself.  Derived members (properties) are followed instead: a projection of a derived
        value (`self._info[1]`, `self._meta.dtype`) is how names are normally assembled."""
        if isinstance(e, ast.Attribute):
            v = e.value
            if isinstance(v, ast.Name) and v.id == selfname:
                if e.attr == "operands":
                    return True
                return e.attr in self.params and _owner(self.cls, e.attr) is None
        if isinstance(e, ast.Call):
            f = e.func
            return isinstance(f, ast.Attribute) and f.attr == "operand" and isinstance(f.value, ast.Name) and f.value.id == selfname
        return False

    def _expr(self, e, ctx, lossy=False):
        owner, stack, selfname = ctx
        if e is None:
            return set()
        if isinstance(e, ast.Lambda):
            return set()
        if isinstance(e, ast.IfExp):
            return self._expr(e.test, ctx, lossy) | self._inter(self._expr(e.body, ctx, lossy), self._expr(e.orelse, ctx, lossy))
        if isinstance(e, ast.BoolOp):
            out = self._expr(e.values[0], ctx, lossy)
            return out
        if isinstance(e, ast.Call):
            f = e.func
            if (
                isinstance(f, ast.Attribute)
                and f.attr == "operand"
                and isinstance(f.value, ast.Name)
                and f.value.id == selfname
            ):
                if lossy:
                    return set()
                if e.args and isinstance(e.args[0], ast.Constant) and isinstance(e.args[0].value, str):
                    return {e.args[0].value}
                return {ALL}
            if isinstance(f, ast.Name) and f.id in self.ALWAYS_LOSSY:
                out = set()
                for a in e.args:
                    out |= self._expr(a, ctx, True)
                return out
            if isinstance(f, ast.Name) and f.id in self.DIRECT_LOSSY:
                out = set()
                for a in e.args:
                    out |= self._expr(a, ctx, lossy or self._is_self_read(a, selfname))
                for k in e.keywords:
                    out |= self._expr(k.value, ctx, lossy)
                return out
        if isinstance(e, ast.Subscript) and self._is_self_read(e.value, selfname):
            v = e.value
            tail = (
                isinstance(v, ast.Attribute) and v.attr == "operands" and isinstance(e.slice, ast.Slice)
                and e.slice.lower is not None and e.slice.upper is None
            )
            out = {"*"} if (tail and not lossy) else set()
            return out | self._expr(e.slice, ctx, lossy)
        if isinstance(e, ast.Attribute):
            v = e.value
            if self._is_self_read(v, selfname) and e.attr not in self.OK_ATTRS:
                # `self.X.attr`: only a projection of X reaches the name
                return self._expr(v, ctx, True)
            is_self = isinstance(v, ast.Name) and v.id == selfname
            is_super = isinstance(v, ast.Call) and isinstance(v.func, ast.Name) and v.func.id == "super"
            if is_self or is_super:
                a = e.attr
                if a == "operand" or a in self.stop or a in GENERIC_DRIVERS:
                    return set()
                if lossy:
                    return set()
                if a == "operands":
                    return {ALL}
                return set(self.reads(a, after=owner if is_super else None, stack=stack))
        out = set()
        for ch in ast.iter_child_nodes(e):
            if isinstance(ch, ast.expr):
                out |= self._expr(ch, ctx, lossy)
            elif isinstance(ch, ast.comprehension):
                out |= self._expr(ch.iter, ctx, lossy or self._is_self_read(ch.iter, selfname))
                for c in ch.ifs:
                    out |= self._expr(c, ctx, lossy)
            elif isinstance(ch, ast.keyword):
                out |= self._expr(ch.value, ctx, lossy)
        return out


def class_row(cls):
    r = MustReader(cls, stop=NAMING_STOP)
    tok = set(r.reads("_name"))
    r3 = Reader(cls, stop=NAMING_STOP)  # everything the name MAY reach (for the unstable-site scan)
    r3.reads("_name")
    naming_funcs = list(r3.funcs_seen)
    r2 = Reader(cls, stop=STOP_ATTRS)
    sem = set()
    roots = list(SEMANTIC_ROOTS) + sorted(
        {a for k in cls.__mro__ for a in k.__dict__ if a.startswith("_accept_")}
    )
    for root in roots:
        sem |= r2.reads(root)
    own = lambda a: (_owner(cls, a).__name__ if _owner(cls, a) else None)
    return {
        "cls": cls,
        "name": cls.__name__,
        "qual": f"{cls.__module__}.{cls.__qualname__}",
        "params": list(cls._parameters),
        "tokenizer_owner": own("__dask_tokenize__"),
        "name_owner": own("_name"),
        "dt_owner": own("deterministic_token"),
        "init_owner": own("__init__"),
        "new_owner": own("__new__"),
        "lower_once_owner": own("lower_once"),
        "variadic": r.variadic or r2.variadic,
        "tokenized": r.expand(tok, r.variadic or r2.variadic),
        "semantic": r2.expand(sem, r.variadic or r2.variadic),
        "naming_funcs": naming_funcs,
    }


# ------------------------------------------------------------------ unstable sites

def _dotted(n):
    parts = []
    while isinstance(n, ast.Attribute):
        parts.append(n.attr)
        n = n.value
    if isinstance(n, ast.Name):
        parts.append(n.id)
        return ".".join(reversed(parts))
    return None


def _classify_call(call):
    d = _dotted(call.func)
    if d is None:
        return None
    last = d.split(".")[-1]
    if d == "id":
        return "id"
    if d == "hash":
        return "hash"
    if d.startswith("uuid.") or last in ("uuid1", "uuid4"):
        return d
    if d in ("os.getpid", "getpid"):
        return "os.getpid"
    if d == "object.__repr__":
        return "object.__repr__"
    if d.startswith("time.") or d in ("time", "perf_counter", "monotonic"):
        return d
    if d.startswith("random.") or ".random." in "." + d + "." or d.startswith("np.random") or d.startswith("numpy.random"):
        return d
    if d in ("tokenize", "dask.base.tokenize", "dask.tokenize.tokenize", "base.tokenize"):
        return "tokenize-nonstrict"
    return None


def scan_sites(repo_pkg: Path):
    """(site string, file:line) for every unstable read in naming code of non-test modules."""
    sites = []
    for f in sorted(repo_pkg.rglob("*.py")):
        rel = f.relative_to(repo_pkg.parent).as_posix()
        if "/tests/" in rel or rel.endswith("_test_utils.py") or rel.endswith("conftest.py"):
            continue
        try:
            tree = ast.parse(f.read_text())
        except SyntaxError:
            continue

        def visit(node, qual):
            for ch in ast.iter_child_nodes(node):
                if isinstance(ch, ast.ClassDef):
                    visit(ch, qual + [ch.name])
                elif isinstance(ch, (ast.FunctionDef, ast.AsyncFunctionDef)):
                    q = qual + [ch.name]
                    naming = ch.name in NAMING_FUNCS or ch.name.startswith("_tokenize")
                    if not naming:
                        for n in ast.walk(ch):
                            if isinstance(n, ast.Call) and any(k.arg in HANDBUILT_KW for k in n.keywords):
                                naming = True
                                break
                    if naming:
                        for n in ast.walk(ch):
                            if isinstance(n, ast.Call):
                                kind = _classify_call(n)
                                if kind:
                                    text = " ".join(ast.unparse(n).split())[:70]
                                    if kind == "tokenize-nonstrict":
                                        text = "nonstrict " + text
                                    sites.append((f"{rel}::{'.'.join(q)}::{text}", f"{rel}:{n.lineno}"))
                    else:
                        visit(ch, q)
                else:
                    visit(ch, qual)

        visit(tree, [])
    # unique site strings, keep first line as representative plus a count
    out = {}
    for s, loc in sites:
        out.setdefault(s, []).append(loc)
    return out


# ------------------------------------------------------------------ pickling facts (C07)

def pickling_facts(rows):
    """AST facts about `__reduce__` / `_reconstruct` / `Array.__getstate__` on the current tree."""
    from dask._expr import Expr
    from dask_array._collection import Array
    from dask_array._expr import ArrayExpr

    drops = []
    owners = []
    seen = set()
    for cls in [ArrayExpr] + [r["cls"] for r in rows]:
        ow = _owner(cls, "__reduce__")
        if ow is None or ow in seen:
            continue
        seen.add(ow)
        owners.append(ow.__name__)
        fn = _unwrap(ow.__dict__["__reduce__"])
        node, _f, _l = _func_ast(fn)
        ok = False
        if node is not None:
            for n in ast.walk(node):
                if isinstance(n, ast.Return) and isinstance(n.value, ast.Tuple) and len(n.value.elts) >= 2:
                    payload = n.value.elts[1]
                    for m in ast.walk(payload):
                        if isinstance(m, ast.Attribute) and m.attr == "deterministic_token" and isinstance(m.value, ast.Name) and m.value.id == "self":
                            ok = True
        if not ok:
            drops.append(ow.__name__)
    # Expr._reconstruct must hand the token to __new__
    node, _f, _l = _func_ast(_unwrap(Expr.__dict__["_reconstruct"]))
    passes = False
    if node is not None:
        for n in ast.walk(node):
            if isinstance(n, ast.Call) and any(k.arg == "_determ_token" for k in n.keywords):
                passes = True
    # Array.__getstate__: which entries of __dict__ are removed
    dropped = []
    if "__getstate__" in Array.__dict__:
        node, _f, _l = _func_ast(Array.__dict__["__getstate__"])
        for n in ast.walk(node):
            if isinstance(n, ast.Call) and isinstance(n.func, ast.Attribute) and n.func.attr == "pop" and n.args:
                a = n.args[0]
                dropped.append(a.value if isinstance(a, ast.Constant) and isinstance(a.value, str) else "<dynamic>")
            if isinstance(n, ast.Delete):
                for t in n.targets:
                    if isinstance(t, ast.Subscript):
                        a = t.slice
                        dropped.append(a.value if isinstance(a, ast.Constant) and isinstance(a.value, str) else "<dynamic>")
            if isinstance(n, ast.Call) and isinstance(n.func, ast.Attribute) and n.func.attr == "clear":
                dropped.append("<all>")
    # in-place updates (C07, Props/C07Inplace.lean): every `cached_property` of Array is derived state; `Array._replace_expr`
    # (setitem, ufunc out=, compute_chunk_sizes, the _chunks setter) must remove each of them from `__dict__`
    import functools as _ft

    cached = sorted(k for k, v in Array.__dict__.items() if isinstance(v, _ft.cached_property) or type(v).__name__ == "cached_property")
    replaced = []
    replace_sets_expr = False
    if "_replace_expr" in Array.__dict__:
        node, _f, _l = _func_ast(Array.__dict__["_replace_expr"])
        if node is not None:
            def _pop_target(call):
                return (isinstance(call, ast.Call) and isinstance(call.func, ast.Attribute) and call.func.attr == "pop" and call.args
                        and isinstance(call.func.value, ast.Attribute) and call.func.value.attr == "__dict__")

            for n in ast.walk(node):
                if isinstance(n, ast.Assign) and any(isinstance(t, ast.Attribute) and t.attr == "_expr" for t in n.targets):
                    replace_sets_expr = True
                if isinstance(n, ast.For) and isinstance(n.target, ast.Name) and isinstance(n.iter, (ast.Tuple, ast.List)):
                    pops_var = any(_pop_target(m) and isinstance(m.args[0], ast.Name) and m.args[0].id == n.target.id for m in ast.walk(n))
                    if pops_var:
                        for e in n.iter.elts:
                            replaced.append(e.value if isinstance(e, ast.Constant) and isinstance(e.value, str) else "<dynamic>")
                if _pop_target(n) and isinstance(n.args[0], ast.Constant) and isinstance(n.args[0].value, str):
                    replaced.append(n.args[0].value)
                if isinstance(n, ast.Call) and isinstance(n.func, ast.Attribute) and n.func.attr == "clear":
                    replaced.append("<all>")
    return {"reduce_owners": owners, "reduce_drops_token": drops, "reconstruct_passes_token": passes, "getstate_dropped": dropped,
            "array_cached": cached, "replace_expr_dropped": replaced, "replace_expr_sets_expr": replace_sets_expr}


# ------------------------------------------------------------------ Lean emission

def _lstr(s):
    return '"' + s.replace("\\", "\\\\").replace('"', '\\"') + '"'


def _llist(xs):
    return "[" + ", ".join(_lstr(x) for x in xs) + "]"


def collect():
    import dask_array

    rows = [class_row(c) for c in all_classes()]
    # class names are unique on this tree; if two modules ever define the same class name,
    # qualify the later ones so the table stays a function of the name
    seen = {}
    for r in rows:
        if r["name"] in seen:
            r["name"] = r["qual"].replace("dask_array.", "")
        seen[r["name"]] = r
    pkg = Path(dask_array.__file__).resolve().parent
    sites = scan_sites(pkg)
    # plus every member the name of some class may reach (derived properties such as `_base_chunks`)
    done = set()
    for r in rows:
        for _owner_cls, fn in r["naming_funcs"]:
            if fn in done:
                continue
            done.add(fn)
            node, file, line0 = _func_ast(fn)
            if node is None or file is None:
                continue
            try:
                rel = Path(file).resolve().relative_to(pkg.parent).as_posix()
            except ValueError:
                continue  # dask/_expr.py base machinery: outside the repository
            for n in ast.walk(node):
                if isinstance(n, ast.Call):
                    kind = _classify_call(n)
                    if kind:
                        text = " ".join(ast.unparse(n).split())[:70]
                        if kind == "tokenize-nonstrict":
                            text = "nonstrict " + text
                        site = f"{rel}::{fn.__qualname__}::{text}"
                        loc = f"{rel}:{line0 + n.lineno - 1}"
                        if loc not in sites.setdefault(site, []):
                            sites[site].append(loc)
    return rows, sites


def lean_source(rows, sites, facts=None):
    L = []
    L.append("/- GENERATED by harness/translate/names.py from /repo's working tree. DO NOT EDIT.")
    L.append("   classes[i] : ArrayExpr subclass; params[i] = _parameters; tokenized[i] = operands its name reads;")
    L.append("   semantic[i] = operands its chunks/_meta/dtype/_layer/_lower/_simplify_down/_accept_*/... read")
    L.append('   ("*" = the variadic operands after _parameters). -/')
    L.append("namespace Dask.Generated.NameTables")
    L.append("")
    L.append("def classes : List String := [")
    L.append(",\n".join(f"  {_lstr(r['name'])}" for r in rows))
    L.append("]")
    for key in ("params", "tokenized", "semantic"):
        L.append("")
        L.append(f"def {key} : List (List String) := [")
        L.append(",\n".join(f"  /- {r['name']} -/ {_llist(r[key])}" for r in rows))
        L.append("]")
    L.append("")
    L.append("/-- classes that define their own tokenizer / name (informative) -/")
    L.append("def customTokenizer : List String := " + _llist([r["name"] for r in rows if r["tokenizer_owner"] not in ("Expr",)]))
    L.append("def customName : List String := " + _llist([r["name"] for r in rows if r["name_owner"] not in ("Expr",)]))
    L.append("/-- classes that opt out of the singleton registry (non-trivial __init__ or own __new__) -/")
    L.append("def nonSingleton : List String := " + _llist([r["name"] for r in rows if r["init_owner"] not in ("object", None) or r["new_owner"] not in ("SingletonExpr",)]))
    L.append("/-- classes whose lower_once is overridden (may bypass the shared lowering cache) -/")
    L.append("def ownLowerOnce : List String := " + _llist([r["name"] for r in rows if r["lower_once_owner"] not in ("Expr",)]))
    L.append("")
    L.append("def unstableSites : List String := [")
    L.append(",\n".join(f"  {_lstr(s)}  /- {', '.join(locs)} -/" for s, locs in sorted(sites.items())))
    L.append("]")
    if facts is not None:
        L.append("")
        L.append("/-- classes that define `__reduce__` (pickling of expression nodes) -/")
        L.append("def reduceOwners : List String := " + _llist(facts["reduce_owners"]))
        L.append("/-- those whose `__reduce__` payload does NOT contain `self.deterministic_token` -/")
        L.append("def reduceDropsToken : List String := " + _llist(facts["reduce_drops_token"]))
        L.append("/-- `Expr._reconstruct` passes `_determ_token=` to the constructor -/")
        L.append("def reconstructPassesToken : Bool := " + ("true" if facts["reconstruct_passes_token"] else "false"))
        L.append("/-- entries of `Array.__dict__` removed by `Array.__getstate__` -/")
        L.append("def getstateDropped : List String := " + _llist(facts["getstate_dropped"]))
        L.append("/-- every `functools.cached_property` defined on class `Array` (derived state living in `__dict__`) -/")
        L.append("def arrayCachedProperties : List String := " + _llist(facts["array_cached"]))
        L.append("/-- entries of `Array.__dict__` removed by `Array._replace_expr` (the in-place swap of the expression) -/")
        L.append("def replaceExprDropped : List String := " + _llist(facts["replace_expr_dropped"]))
        L.append("/-- `Array._replace_expr` assigns `self._expr` -/")
        L.append("def replaceExprSetsExpr : Bool := " + ("true" if facts["replace_expr_sets_expr"] else "false"))
    L.append("")
    L.append("end Dask.Generated.NameTables")
    return "\n".join(L) + "\n"


def generate(write=True):
    from harness import core

    rows, sites = collect()
    src = lean_source(rows, sites, pickling_facts(rows))
    changed = core.write_generated("NameTables", src) if write else False
    return rows, sites, changed


if __name__ == "__main__":
    rows, sites, changed = generate(write="--write" in sys.argv)
    for r in rows:
        miss = [p for p in r["semantic"] if p not in r["tokenized"]]
        print(f"{r['name']:28s} tok={r['tokenizer_owner']}/{r['name_owner']} missing={miss}")
    print(len(rows), "classes;", len(sites), "sites; changed:", changed)
    for s, locs in sorted(sites.items()):
        print("  ", s, locs)
