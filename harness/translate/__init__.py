"""AST → Lean table generators (translators).  Each translator reads /repo's CURRENT working tree
and returns Lean source for `core.write_generated(<Name>, src)`; see AGENT_GUIDE.md "Translators"."""
