"""C09 translator: configuration reads of /repo/dask_array and the phases that can reach them
→ Generated/ConfigReads.lean.

Extracted from the CURRENT working tree with `ast` (nothing is imported or executed):

  sites     every call `config.get(K, …)` / `dask.config.get(K, …)` / `<alias of dask>.config.get(K, …)` in a
            non-test module; K is the literal key (non-literal keys are recorded as "<dynamic>");
            the enclosing function is `Class.method`, `function` (nested defs and lambdas merged into the
            outermost def) or `<module>`.
  call graph  function → function, resolved BY SIMPLE NAME and therefore over-approximate: a call `f(…)` or
            `x.f(…)` gives an edge to EVERY dask_array function / method called `f`; an attribute read `x.p`
            gives an edge to every `p` that is a property / cached_property; calling a dask_array class gives
            edges to its `__init__` / `__new__` / `__post_init__` (own or inherited by name).
  phases    a site is reachable in phase
               lower     from any function named `_lower` or `lower_once`
               simplify  from any `_simplify_down` / `_simplify_up`
               chunks    from any `chunks` (advertised layout, evaluated at construction and during lowering)
               layer     from any `_layer` (graph build)
            and `other` when none of the above reaches it.

Emitted table: `configReads : List (String × String × String)` = (file:function, key, phase), one row per
(site, phase); `loweringKeys` = the distinct keys of phase `lower`.  Props/C09.lean checks with `decide` that
`loweringKeys` ⊆ the documented list: a NEW configuration read reachable from lowering breaks the obligation
(lake build fails) and harness/props/C09.py then varies exactly that key in its search.

Limits (stated in evidence): name-based resolution (over-approximation: unrelated functions sharing a simple
name are conflated; under-approximation: `getattr` strings, callbacks stored in containers, reads inside
dask itself — e.g. `dask.config.get` inside `dask.array`-independent helpers of dask — are invisible).
"""
from __future__ import annotations

import ast
from pathlib import Path

PKG = "dask_array"
PHASE_ROOTS = {
    "lower": ("_lower", "lower_once"),
    "simplify": ("_simplify_down", "_simplify_up"),
    "chunks": ("chunks",),
    "layer": ("_layer",),
}
CTOR = ("__init__", "__new__", "__post_init__")
PROPERTY_DECOS = {"property", "cached_property"}


def is_test_path(rel: Path) -> bool:
    return "tests" in rel.parts[:-1] or rel.name.startswith("test_") or rel.name == "conftest.py"


class Fn:
    __slots__ = ("qual", "simple", "file", "calls", "attrs", "sites", "is_prop", "cls")

    def __init__(self, qual, simple, file, cls):
        self.qual, self.simple, self.file, self.cls = qual, simple, file, cls
        self.calls = set()   # simple names called
        self.attrs = set()   # attribute names read
        self.sites = []      # config keys read here
        self.is_prop = False


def _deco_names(node):
    out = set()
    for d in getattr(node, "decorator_list", []):
        if isinstance(d, ast.Call):
            d = d.func
        if isinstance(d, ast.Attribute):
            out.add(d.attr)
        elif isinstance(d, ast.Name):
            out.add(d.id)
    return out


def _is_config_get(call: ast.Call, dask_aliases, config_aliases):
    f = call.func
    if not (isinstance(f, ast.Attribute) and f.attr == "get"):
        return False
    v = f.value
    if isinstance(v, ast.Name) and v.id in config_aliases:
        return True
    if isinstance(v, ast.Attribute) and v.attr == "config" and isinstance(v.value, ast.Name) and v.value.id in dask_aliases:
        return True
    return False


def _scan_body(fn: Fn, nodes, dask_aliases, config_aliases):
    for top in nodes:
        for n in ast.walk(top):
            if isinstance(n, ast.Call):
                if _is_config_get(n, dask_aliases, config_aliases):
                    key = "<dynamic>"
                    if n.args and isinstance(n.args[0], ast.Constant) and isinstance(n.args[0].value, str):
                        key = n.args[0].value
                    fn.sites.append(key)
                f = n.func
                if isinstance(f, ast.Name):
                    fn.calls.add(f.id)
                elif isinstance(f, ast.Attribute):
                    fn.calls.add(f.attr)
            elif isinstance(n, ast.Attribute) and isinstance(n.ctx, ast.Load):
                fn.attrs.add(n.attr)


def analyse(repo) -> dict:
    repo = Path(repo)
    root = repo / PKG
    fns = []
    classes = {}  # simple class name -> set of method simple names
    for path in sorted(root.rglob("*.py")):
        rel = path.relative_to(repo)
        if is_test_path(rel):
            continue
        try:
            tree = ast.parse(path.read_text())
        except SyntaxError:
            continue
        # names under which `dask` / `dask.config` are visible anywhere in the module (function-level imports
        # included: over-approximate)
        dask_aliases, config_aliases = {"dask"}, set()
        for n in ast.walk(tree):
            if isinstance(n, ast.Import):
                for a in n.names:
                    if a.name == "dask":
                        dask_aliases.add(a.asname or "dask")
                    elif a.name == "dask.config" and a.asname:
                        config_aliases.add(a.asname)
            elif isinstance(n, ast.ImportFrom) and n.module == "dask":
                for a in n.names:
                    if a.name == "config":
                        config_aliases.add(a.asname or "config")
        file = str(rel)
        mod = Fn("<module>", "<module>", file, None)
        mod_nodes = []

        def visit(body, cls):
            for st in body:
                if isinstance(st, (ast.FunctionDef, ast.AsyncFunctionDef)):
                    qual = f"{cls}.{st.name}" if cls else st.name
                    fn = Fn(qual, st.name, file, cls)
                    fn.is_prop = bool(_deco_names(st) & PROPERTY_DECOS)
                    _scan_body(fn, st.body + st.decorator_list + st.args.defaults + [d for d in st.args.kw_defaults if d is not None],
                               dask_aliases, config_aliases)
                    fns.append(fn)
                    if cls:
                        classes.setdefault(cls, set()).add(st.name)
                elif isinstance(st, ast.ClassDef):
                    classes.setdefault(st.name, set())
                    visit(st.body, st.name)
                    # class-level statements run at import
                    mod_nodes.extend(s for s in st.body if not isinstance(s, (ast.FunctionDef, ast.AsyncFunctionDef, ast.ClassDef)))
                else:
                    mod_nodes.append(st)

        visit(tree.body, None)
        _scan_body(mod, mod_nodes, dask_aliases, config_aliases)
        fns.append(mod)

    by_simple = {}
    for i, fn in enumerate(fns):
        if fn.simple != "<module>":
            by_simple.setdefault(fn.simple, []).append(i)
    prop_names = {fn.simple for fn in fns if fn.is_prop}
    ctor_of = {c: [i for i, fn in enumerate(fns) if fn.cls == c and fn.simple in CTOR] for c in classes}

    def succ(i):
        fn = fns[i]
        out = set()
        for name in fn.calls:
            out.update(by_simple.get(name, ()))
            if name in classes:
                out.update(ctor_of.get(name, ()))
                # inherited constructors, by name
                for c in CTOR:
                    out.update(j for j in by_simple.get(c, ()) if fns[j].cls == name)
        for name in fn.attrs & prop_names:
            out.update(j for j in by_simple.get(name, ()) if fns[j].is_prop)
        return out

    reach = {}
    for phase, roots in PHASE_ROOTS.items():
        seen = set()
        stack = [i for r in roots for i in by_simple.get(r, ())]
        while stack:
            i = stack.pop()
            if i in seen:
                continue
            seen.add(i)
            stack.extend(succ(i) - seen)
        reach[phase] = seen

    rows = []
    for i, fn in enumerate(fns):
        for key in sorted(set(fn.sites)):
            phases = [p for p in PHASE_ROOTS if i in reach[p]] or ["other"]
            for p in phases:
                rows.append((f"{fn.file}:{fn.qual}", key, p))
    rows = sorted(set(rows))
    lowering = sorted({k for _, k, p in rows if p == "lower"})
    return {"rows": rows, "lowering": lowering, "nfunctions": len(fns),
            "reach": {p: len(s) for p, s in reach.items()}}


def _lstr(s):
    return '"' + s.replace("\\", "\\\\").replace('"', '\\"') + '"'


def to_lean(info) -> str:
    lines = [
        "/-",
        "GENERATED by harness/translate/configreads.py from /repo's working tree — do not edit.",
        "configReads: (file:function, configuration key, phase) for every `config.get` / `dask.config.get` site of the",
        "non-test modules of dask_array; phase ∈ lower | simplify | chunks | layer | other (reachability in the",
        "name-resolved, over-approximate call graph from `_lower`/`lower_once`, `_simplify_down`/`_simplify_up`,",
        "`chunks`, `_layer`).  loweringKeys: distinct keys of phase `lower`.",
        "-/",
        "",
        "namespace Dask.Generated.ConfigReads",
        "",
        "def configReads : List (String × String × String) := [",
    ]
    cells = [f"  ({_lstr(a)}, {_lstr(b)}, {_lstr(c)})" for a, b, c in info["rows"]]
    lines.append(",\n".join(cells))
    lines.append("]")
    lines.append("")
    lines.append("def loweringKeys : List String := [" + ", ".join(_lstr(k) for k in info["lowering"]) + "]")
    lines.append("")
    lines.append("end Dask.Generated.ConfigReads")
    return "\n".join(lines) + "\n"


def generate(repo=None):
    from harness import core

    info = analyse(repo or core.REPO)
    changed = core.write_generated("ConfigReads", to_lean(info))
    info["changed"] = changed
    return info


if __name__ == "__main__":  # pragma: no cover
    import json
    import sys

    info = analyse(sys.argv[1] if len(sys.argv) > 1 else "/repo")
    print(json.dumps({k: v for k, v in info.items()}, indent=1))
