"""C26 translator: import graph + name-resolved call graph of /repo/dask_array → Generated/ImportGraph.lean.

What is extracted (from the CURRENT working tree, with `ast`; nothing is imported or executed):

  nodes      0..M-1   one per non-test module (its module-scope code: top-level statements, incl. the
                      bodies of top-level if/try/with/for/while and class bodies, decorators and default
                      arguments of defs — everything that runs when the module is imported)
             M..M+F-1 one per function / method (its body, nested defs and lambdas merged into it)
  importEdges         module → module, for import statements executed at module scope (relative imports
                      resolved; `from p import x` gives p and p.x when p.x is a module; every ancestor
                      package of a target; every module → its own ancestor packages).  Imports under
                      `if TYPE_CHECKING:` are included (over-approximation).
  callEdges           module → function  : function referenced or called at module scope
                      function → function: function referenced or called in the body
                      function → module  : import statement inside the body (runs the module's code)
                      A reference counts only when its base resolves, through the import tables / module
                      namespaces (star imports, re-exports, simple aliases, module `__getattr__`,
                      `self`/`cls`, base classes), to a dask_array function or class.  Calling a class
                      gives edges to its `__init__/__new__/__post_init__`; defining a subclass gives edges
                      to the bases' `__init_subclass__` and the metaclass' `__new__/__init__`.
                      `Dispatch.register(...)`, `atexit.register`, … do not resolve and produce no edge.
  registrySeeds       nodes whose own code installs a chunk manager: subscript/attribute assignment or
                      a mutating method on `list_chunkmanagers()` (or on a local bound to it),
                      `list_chunkmanagers.cache_clear()`, assignment/`setattr`/`patch("xarray…")` on a
                      xarray module; plus `dask_array._xarray._ensure_registered` by name.
  canReachSeed(Mask)  backward closure of registrySeeds in importEdges ∪ callEdges (computed here, but
                      CHECKED in Lean: closed under reversed edges ⇒ complete, Lemmas/Closure.lean);
                      emitted as a list (readable) and as a bitmask literal (what Lean evaluates)
  moduleScopeCallsIntoRegistering   modules that are seeds or have a callEdge into canReachSeed
  importsXarrayAtModuleScope, entryPointGroups (pyproject.toml [project.entry-points.*], setup.cfg)

Limits (stated in evidence): name-based — calls through instances of unknown type, getattr strings,
callbacks stored in containers are invisible; the fresh-interpreter experiment in props/C26.py is the tie.
"""
from __future__ import annotations

import ast
import configparser
import re
from pathlib import Path

try:
    import tomllib
except ImportError:  # pragma: no cover
    tomllib = None

PKG = "dask_array"
MUTATORS = {"update", "setdefault", "pop", "popitem", "clear", "__setitem__", "__delitem__"}
CTOR = ("__init__", "__new__", "__post_init__")


def is_test_path(rel: Path) -> bool:
    return "tests" in rel.parts[:-1] or rel.name.startswith("test_") or rel.name == "conftest.py"


# ----------------------------------------------------------------------------- data

class Func:
    def __init__(self, qual, mod, cls, node):
        self.qual, self.mod, self.cls, self.node = qual, mod, cls, node
        self.id = None


class Cls:
    def __init__(self, qual, mod, node, outer):
        self.qual, self.mod, self.node, self.outer = qual, mod, node, outer
        self.ns = {}  # name -> Func | Cls


class Mod:
    def __init__(self, name, path, is_pkg, tree):
        self.name, self.path, self.is_pkg, self.tree = name, path, is_pkg, tree
        self.idx = None
        self.imports = {}  # local name -> absolute dotted
        self.star = []  # absolute dotted modules
        self.ns = {}  # defs: name -> Func | Cls
        self.aliases = {}  # name -> ast expr
        self.scope_imports = set()  # dask_array modules imported at module scope
        self.imports_xarray = False


def exec_nodes(stmts):
    """AST nodes evaluated when `stmts` run, NOT descending into function bodies (class bodies are
    executed in place; of a def only decorators and argument defaults run)."""
    stack = list(reversed(list(stmts)))
    while stack:
        n = stack.pop()
        if isinstance(n, (ast.FunctionDef, ast.AsyncFunctionDef)):
            yield n
            sub = list(n.decorator_list) + list(n.args.defaults) + [d for d in n.args.kw_defaults if d is not None]
            stack.extend(reversed(sub))
            continue
        yield n
        stack.extend(reversed(list(ast.iter_child_nodes(n))))


def body_nodes(fn):
    for s in fn.body:
        yield from ast.walk(s)


# ----------------------------------------------------------------------------- analysis

class Analysis:
    def __init__(self, repo: Path):
        self.repo = Path(repo)
        self.mods: dict[str, Mod] = {}
        self.funcs: list[Func] = []
        self.errors = []
        self._load()
        self._index()
        self._edges()
        self._closure()

    # -- loading
    def _load(self):
        root = self.repo / PKG
        for p in sorted(root.rglob("*.py")):
            rel = p.relative_to(self.repo)
            if is_test_path(rel):
                continue
            parts = list(rel.with_suffix("").parts)
            is_pkg = parts[-1] == "__init__"
            if is_pkg:
                parts = parts[:-1]
            name = ".".join(parts)
            try:
                tree = ast.parse(p.read_text(), filename=str(p))
            except SyntaxError as e:
                self.errors.append(f"{rel}: {e}")
                tree = ast.parse("")
            self.mods[name] = Mod(name, rel, is_pkg, tree)
        for i, m in enumerate(self.mods.values()):
            m.idx = i

    def ancestors(self, name):
        parts = name.split(".")
        return [".".join(parts[:k]) for k in range(1, len(parts))]

    def import_targets(self, mod: Mod, node):
        """→ (bindings [(local, dotted)], stars [dotted], imported module names [dotted])"""
        binds, stars, imported = [], [], []
        if isinstance(node, ast.Import):
            for a in node.names:
                imported.append(a.name)
                if a.asname:
                    binds.append((a.asname, a.name))
                else:
                    top = a.name.split(".")[0]
                    binds.append((top, top))
        else:
            if node.level:
                base = mod.name.split(".") if mod.is_pkg else mod.name.split(".")[:-1]
                up = node.level - 1
                base = base[: len(base) - up] if up else base
                if node.module:
                    base = base + node.module.split(".")
                base = ".".join(base)
            else:
                base = node.module or ""
            imported.append(base)
            for a in node.names:
                if a.name == "*":
                    stars.append(base)
                    continue
                full = f"{base}.{a.name}"
                binds.append((a.asname or a.name, full))
                if full in self.mods:
                    imported.append(full)
        out = []
        for name in imported:
            for x in self.ancestors(name) + [name]:
                if x not in out:
                    out.append(x)
        return binds, stars, out

    def _collect_defs(self, mod, stmts, ns, cls, prefix):
        # definitions anywhere in the executed scope (top-level if/try bodies included)
        stack = list(stmts)
        while stack:
            n = stack.pop(0)
            if isinstance(n, (ast.FunctionDef, ast.AsyncFunctionDef)):
                f = Func(f"{prefix}.{n.name}", mod, cls, n)
                self.funcs.append(f)
                ns[n.name] = f
            elif isinstance(n, ast.ClassDef):
                c = Cls(f"{prefix}.{n.name}", mod, n, cls)
                ns[n.name] = c
                self._collect_defs(mod, n.body, c.ns, c, c.qual)
            elif isinstance(n, (ast.If, ast.Try, ast.With, ast.For, ast.While, ast.AsyncWith, ast.AsyncFor)) or n.__class__.__name__ == "TryStar":
                for fld in ("body", "orelse", "finalbody"):
                    stack.extend(getattr(n, fld, []) or [])
                for h in getattr(n, "handlers", []) or []:
                    stack.extend(h.body)

    def _index(self):
        for mod in self.mods.values():
            self._collect_defs(mod, mod.tree.body, mod.ns, None, mod.name)
            for n in exec_nodes(mod.tree.body):
                if isinstance(n, (ast.Import, ast.ImportFrom)):
                    binds, stars, imported = self.import_targets(mod, n)
                    for k, v in binds:
                        mod.imports[k] = v
                    mod.star.extend(stars)
                    for x in imported:
                        if x in self.mods:
                            mod.scope_imports.add(x)
                        if x.split(".")[0] == "xarray":
                            mod.imports_xarray = True
                elif isinstance(n, ast.Assign) and len(n.targets) == 1 and isinstance(n.targets[0], ast.Name):
                    if isinstance(n.value, (ast.Name, ast.Attribute)):
                        mod.aliases[n.targets[0].id] = n.value
                elif isinstance(n, ast.Call):
                    # importlib.import_module("dask_array.x") / __import__("…") with a constant
                    f = n.func
                    fname = f.id if isinstance(f, ast.Name) else (f.attr if isinstance(f, ast.Attribute) else "")
                    if fname in ("import_module", "__import__") and n.args and isinstance(n.args[0], ast.Constant) and isinstance(n.args[0].value, str):
                        t = n.args[0].value
                        for x in self.ancestors(t) + [t]:
                            if x in self.mods:
                                mod.scope_imports.add(x)
                        if t.split(".")[0] == "xarray":
                            mod.imports_xarray = True
            for a in self.ancestors(mod.name):
                if a in self.mods:
                    mod.scope_imports.add(a)
            mod.scope_imports.discard(mod.name)
        self.modlist = list(self.mods.values())
        M = len(self.modlist)
        for k, f in enumerate(self.funcs):
            f.id = M + k

    # -- resolution: refs are ("mod", Mod) | ("func", Func) | ("class", Cls) | ("ext", dotted) | None
    def mod_lookup(self, mod: Mod, name, depth=0):
        if depth > 12:
            return None
        if name in mod.ns:
            d = mod.ns[name]
            return ("func", d) if isinstance(d, Func) else ("class", d)
        if name in mod.imports:
            return self.resolve_abs(mod.imports[name], depth + 1)
        if name in mod.aliases:
            return self.resolve_expr(mod.aliases[name], Env(self, mod, None, {}, {}), depth + 1)
        for s in mod.star:
            if s in self.mods and not name.startswith("_"):
                r = self.mod_lookup(self.mods[s], name, depth + 1)
                if r:
                    return r
        sub = f"{mod.name}.{name}"
        if sub in self.mods:
            return ("mod", self.mods[sub])
        return None

    def resolve_abs(self, dotted, depth=0):
        parts = dotted.split(".")
        if parts[0] != PKG:
            return ("ext", dotted)
        k = len(parts)
        while k and ".".join(parts[:k]) not in self.mods:
            k -= 1
        if not k:
            return None
        ref = ("mod", self.mods[".".join(parts[:k])])
        for a in parts[k:]:
            ref = self.attr_of(ref, a, depth + 1)
            if ref is None:
                return None
        return ref

    def class_lookup(self, c: Cls, name, depth=0, seen=None):
        seen = seen or set()
        if c.qual in seen or depth > 12:
            return None
        seen.add(c.qual)
        if name in c.ns:
            d = c.ns[name]
            return ("func", d) if isinstance(d, Func) else ("class", d)
        env = Env(self, c.mod, c.outer, {}, {})
        for b in c.node.bases:
            r = self.resolve_expr(b, env, depth + 1)
            if r and r[0] == "class":
                x = self.class_lookup(r[1], name, depth + 1, seen)
                if x:
                    return x
        return None

    def attr_of(self, ref, attr, depth=0):
        if ref is None or depth > 12:
            return None
        kind, v = ref
        if kind == "mod":
            r = self.mod_lookup(v, attr, depth + 1)
            if r is None and "__getattr__" in v.ns and isinstance(v.ns["__getattr__"], Func):
                return ("func", v.ns["__getattr__"])
            return r
        if kind == "class":
            return self.class_lookup(v, attr, depth + 1)
        if kind == "ext":
            return ("ext", f"{v}.{attr}")
        return None

    def resolve_expr(self, e, env, depth=0):
        if depth > 12:
            return None
        if isinstance(e, ast.Name):
            return env.lookup(e.id, depth + 1)
        if isinstance(e, ast.Attribute):
            return self.attr_of(self.resolve_expr(e.value, env, depth + 1), e.attr, depth + 1)
        if isinstance(e, ast.Call):
            r = self.resolve_expr(e.func, env, depth + 1)
            if r and r[0] == "class":
                return r  # an instance: attribute lookups go through the class
            return None
        return None

    # -- edges
    def _scope(self, src_id, nodes, env, is_module):
        """Analyse the code of one node (module scope or function body): edges + registry touches."""
        nodes = list(nodes)
        call_edges = self.call_edges
        # function-body imports
        if not is_module:
            for n in nodes:
                if isinstance(n, (ast.Import, ast.ImportFrom)):
                    binds, stars, imported = self.import_targets(env.mod, n)
                    for k, v in binds:
                        env.local_imports[k] = v
                    for s in stars:
                        env.local_star.append(s)
                    for x in imported:
                        if x in self.mods:
                            call_edges.add((src_id, self.mods[x].idx))
                elif isinstance(n, ast.Call):
                    f = n.func
                    fname = f.id if isinstance(f, ast.Name) else (f.attr if isinstance(f, ast.Attribute) else "")
                    if fname in ("import_module", "__import__") and n.args and isinstance(n.args[0], ast.Constant) and isinstance(n.args[0].value, str):
                        t = n.args[0].value
                        for x in self.ancestors(t) + [t]:
                            if x in self.mods:
                                call_edges.add((src_id, self.mods[x].idx))
            for n in nodes:
                if isinstance(n, ast.Assign) and len(n.targets) == 1 and isinstance(n.targets[0], ast.Name) and isinstance(n.value, (ast.Name, ast.Attribute)):
                    env.local_aliases.setdefault(n.targets[0].id, n.value)
        # registry-derived local names (two passes for chains)
        reg = set()

        def ext_of(e):
            r = self.resolve_expr(e, env)
            return r[1] if r and r[0] == "ext" else None

        def is_xr(d):
            return d is not None and (d == "xarray" or d.startswith("xarray."))

        def is_registry(e):
            if isinstance(e, ast.Name) and e.id in reg:
                return True
            if isinstance(e, ast.Call):
                d = ext_of(e.func)
                if is_xr(d) and d.endswith(".list_chunkmanagers"):
                    return True
            return False

        for _ in range(2):
            for n in nodes:
                if isinstance(n, (ast.Assign, ast.AnnAssign)) and n.value is not None and is_registry(n.value):
                    tg = n.targets if isinstance(n, ast.Assign) else [n.target]
                    for t in tg:
                        if isinstance(t, ast.Name):
                            reg.add(t.id)
                if isinstance(n, ast.NamedExpr) and is_registry(n.value):
                    reg.add(n.target.id)
        touch = None
        for n in nodes:
            tg = []
            if isinstance(n, ast.Assign):
                tg = n.targets
            elif isinstance(n, (ast.AugAssign, ast.AnnAssign)):
                tg = [n.target]
            elif isinstance(n, ast.Delete):
                tg = n.targets
            for t in tg:
                for t1 in (t.elts if isinstance(t, (ast.Tuple, ast.List)) else [t]):
                    if isinstance(t1, ast.Subscript) and is_registry(t1.value):
                        touch = touch or f"line {n.lineno}: item assignment into list_chunkmanagers()"
                    if isinstance(t1, ast.Attribute) and is_xr(ext_of(t1.value)):
                        touch = touch or f"line {n.lineno}: attribute assignment on {ext_of(t1.value)}"
            if isinstance(n, ast.Call):
                f = n.func
                if isinstance(f, ast.Attribute):
                    if f.attr in MUTATORS and is_registry(f.value):
                        touch = touch or f"line {n.lineno}: .{f.attr}() on list_chunkmanagers()"
                    if f.attr == "cache_clear":
                        d = ext_of(f.value)
                        if is_xr(d) and d.endswith(".list_chunkmanagers"):
                            touch = touch or f"line {n.lineno}: list_chunkmanagers.cache_clear()"
                fname = f.id if isinstance(f, ast.Name) else (f.attr if isinstance(f, ast.Attribute) else "")
                if fname in ("setattr", "delattr") and n.args and is_xr(ext_of(n.args[0])):
                    touch = touch or f"line {n.lineno}: {fname} on {ext_of(n.args[0])}"
                if fname in ("patch", "object", "setattr") and n.args and isinstance(n.args[0], ast.Constant) and isinstance(n.args[0].value, str) and n.args[0].value.startswith("xarray.namedarray.parallelcompat"):
                    touch = touch or f"line {n.lineno}: patches {n.args[0].value}"
        if touch:
            self.seeds[src_id] = touch
        # references / calls
        for n in nodes:
            if isinstance(n, (ast.Name, ast.Attribute)) and isinstance(n.ctx, ast.Load):
                r = self.resolve_expr(n, env)
                if r and r[0] == "func":
                    call_edges.add((src_id, r[1].id))
            if isinstance(n, ast.Call):
                r = self.resolve_expr(n.func, env)
                if r and r[0] == "class":
                    for m in CTOR:
                        x = self.class_lookup(r[1], m)
                        if x and x[0] == "func":
                            call_edges.add((src_id, x[1].id))
            if isinstance(n, ast.ClassDef):
                for b in n.bases:
                    r = self.resolve_expr(b, env)
                    if r and r[0] == "class":
                        x = self.class_lookup(r[1], "__init_subclass__")
                        if x and x[0] == "func":
                            call_edges.add((src_id, x[1].id))
                for kw in n.keywords:
                    if kw.arg == "metaclass":
                        r = self.resolve_expr(kw.value, env)
                        if r and r[0] == "class":
                            for m in ("__new__", "__init__", "__prepare__"):
                                x = self.class_lookup(r[1], m)
                                if x and x[0] == "func":
                                    call_edges.add((src_id, x[1].id))

    def _edges(self):
        self.call_edges = set()
        self.seeds = {}
        self.import_edges = set()
        for mod in self.modlist:
            for x in mod.scope_imports:
                self.import_edges.add((mod.idx, self.mods[x].idx))
            self._scope(mod.idx, exec_nodes(mod.tree.body), Env(self, mod, None, {}, {}), True)
        for f in self.funcs:
            env = Env(self, f.mod, f.cls, {}, {})
            self._scope(f.id, body_nodes(f.node), env, False)
        er = self.resolve_abs(f"{PKG}._xarray._ensure_registered")
        if er and er[0] == "func":
            self.seeds.setdefault(er[1].id, "dask_array._xarray._ensure_registered (by name)")

    def _closure(self):
        rev = {}
        for a, b in self.import_edges | self.call_edges:
            rev.setdefault(b, set()).add(a)
        B = set(self.seeds)
        work = list(B)
        while work:
            x = work.pop()
            for a in rev.get(x, ()):
                if a not in B:
                    B.add(a)
                    work.append(a)
        self.can_reach = B
        M = len(self.modlist)
        flagged = set(i for i in self.seeds if i < M)
        for a, b in self.call_edges:
            if a < M and b in B:
                flagged.add(a)
        self.flagged = sorted(flagged)

    def node_name(self, i):
        M = len(self.modlist)
        return self.modlist[i].name if i < M else self.funcs[i - M].qual

    def why(self, i):
        """A shortest path (names) from node i to a seed in the unified graph, for reports."""
        adj = {}
        for a, b in self.import_edges | self.call_edges:
            adj.setdefault(a, []).append(b)
        prev = {i: None}
        q = [i]
        while q:
            x = q.pop(0)
            if x in self.seeds:
                path = []
                while x is not None:
                    path.append(self.node_name(x))
                    x = prev[x]
                return path[::-1]
            for y in sorted(adj.get(x, ())):
                if y not in prev:
                    prev[y] = x
                    q.append(y)
        return []


class Env:
    def __init__(self, an, mod, cls, local_imports, local_aliases):
        self.an, self.mod, self.cls = an, mod, cls
        self.local_imports, self.local_aliases = local_imports, local_aliases
        self.local_star = []

    def lookup(self, name, depth=0):
        an = self.an
        if depth > 12:
            return None
        if name in self.local_imports:
            return an.resolve_abs(self.local_imports[name], depth + 1)
        if name in self.local_aliases:
            e = self.local_aliases[name]
            if not (isinstance(e, ast.Name) and e.id == name):
                r = an.resolve_expr(e, Env(an, self.mod, self.cls, self.local_imports, {}), depth + 1)
                if r:
                    return r
        if name in ("self", "cls") and self.cls is not None:
            return ("class", self.cls)
        for s in self.local_star:
            if s in an.mods:
                r = an.mod_lookup(an.mods[s], name, depth + 1)
                if r:
                    return r
        return an.mod_lookup(self.mod, name, depth + 1)


# ----------------------------------------------------------------------------- entry points

def entry_point_groups(repo: Path):
    groups = []
    pp = Path(repo) / "pyproject.toml"
    if pp.exists():
        txt = pp.read_text()
        data = None
        if tomllib is not None:
            try:
                data = tomllib.loads(txt)
            except Exception:
                data = None
        if data is not None:
            proj = data.get("project", {})
            for g in (proj.get("entry-points") or {}):
                groups.append(str(g))
            if proj.get("scripts"):
                groups.append("console_scripts")
            if proj.get("gui-scripts"):
                groups.append("gui_scripts")
            # other build back-ends
            for g in (data.get("tool", {}).get("poetry", {}).get("plugins") or {}):
                groups.append(str(g))
        else:  # unparsable toml: fall back to a textual scan (never silently empty)
            for m in re.finditer(r"^\s*\[\s*project\.entry-points\.(.+?)\s*\]", txt, re.M):
                groups.append(m.group(1).strip().strip('"').strip("'"))
    sc = Path(repo) / "setup.cfg"
    if sc.exists():
        cp = configparser.ConfigParser()
        try:
            cp.read(sc)
            if cp.has_section("options.entry_points"):
                groups.extend(cp.options("options.entry_points"))
        except configparser.Error:
            pass
    sp = Path(repo) / "setup.py"
    if sp.exists() and "entry_points" in sp.read_text():
        for m in re.finditer(r"[\"'](xarray\.chunkmanagers)[\"']", sp.read_text()):
            groups.append(m.group(1))
    return sorted(dict.fromkeys(groups))


def entry_points_table(repo: Path):
    """{group: {name: target}} from pyproject (used to simulate an install in the search)."""
    pp = Path(repo) / "pyproject.toml"
    if tomllib is None or not pp.exists():
        return {}
    try:
        data = tomllib.loads(pp.read_text())
    except Exception:
        return {}
    return {str(g): dict(v) for g, v in (data.get("project", {}).get("entry-points") or {}).items()}


# ----------------------------------------------------------------------------- lean emission

def _lean_str(s):
    return '"' + s.replace("\\", "\\\\").replace('"', '\\"') + '"'


def _chunks(items, per):
    items = list(items)
    return [items[i : i + per] for i in range(0, len(items), per)] or [[]]


PART = 200  # list literals are split into parts: long literals exceed Lean's elaborator recursion depth


def _list_def(name, ty, cells, per):
    cells = list(cells)
    if len(cells) <= PART:
        if not cells:
            return f"def {name} : List {ty} := []\n"
        rows = [", ".join(row) for row in _chunks(cells, per)]
        return f"def {name} : List {ty} := [\n  " + ",\n  ".join(rows) + "]\n"
    out = []
    parts = _chunks(cells, PART)
    for k, part in enumerate(parts):
        rows = [", ".join(row) for row in _chunks(part, per)]
        out.append(f"def {name}_{k} : List {ty} := [\n  " + ",\n  ".join(rows) + "]\n")
    # right-nested appends keep the kernel's evaluation linear
    expr = f"{name}_{len(parts) - 1}"
    for k in range(len(parts) - 2, -1, -1):
        expr = f"{name}_{k} ++ ({expr})" if k < len(parts) - 2 else f"{name}_{k} ++ {expr}"
    out.append(f"def {name} : List {ty} :=\n  {expr}\n")
    return "\n".join(out)


def _nat_list(name, xs, per=24):
    return _list_def(name, "Nat", [str(x) for x in xs], per)


def _pair_list(name, ps, per=10):
    return _list_def(name, "(Nat × Nat)", [f"({a},{b})" for a, b in ps], per)


def _str_list(name, xs, per=4):
    return _list_def(name, "String", [_lean_str(x) for x in xs], per)


def analyse(repo) -> dict:
    an = Analysis(Path(repo))
    M = len(an.modlist)
    info = {
        "modules": [m.name for m in an.modlist],
        "functions": [f.qual for f in an.funcs],
        "importEdges": sorted(an.import_edges),
        "callEdges": sorted(an.call_edges),
        "registrySeeds": sorted(an.seeds),
        "seedReasons": {an.node_name(i): r for i, r in sorted(an.seeds.items())},
        "canReachSeed": sorted(an.can_reach),
        "canReachSeedNames": [an.node_name(i) for i in sorted(an.can_reach)],
        "moduleScopeCallsIntoRegistering": an.flagged,
        "flaggedWhy": {an.node_name(i): an.why(i) for i in an.flagged},
        "importsXarrayAtModuleScope": [m.idx for m in an.modlist if m.imports_xarray],
        "seedModules": sorted({(an.funcs[i - M].mod.idx if i >= M else i) for i in an.seeds}),
        "entryPointGroups": entry_point_groups(repo),
        "entryPoints": entry_points_table(repo),
        "parseErrors": an.errors,
        "modulesReachingSeed": [an.node_name(i) for i in sorted(an.can_reach) if i < M],
    }
    info["_analysis"] = an
    return info


def to_lean(info) -> str:
    M = len(info["modules"])
    out = []
    out.append(
        "/-\nGENERATED by harness/translate/imports.py from /repo's working tree — do not edit.\n"
        "Import graph and name-resolved call graph of the non-test modules of dask_array (C26).\n"
        f"nodes 0..{M - 1} = modules (their module-scope code), {M}..{M + len(info['functions']) - 1} = functions/methods.\n"
        "See the translator's docstring for what each table means.\n-/\n"
    )
    out.append("namespace Dask.Generated.ImportGraph\n")
    out.append(_str_list("modules", info["modules"]))
    out.append(_str_list("functions", info["functions"]))
    out.append(_pair_list("importEdges", info["importEdges"]))
    out.append(_pair_list("callEdges", info["callEdges"]))
    out.append(_nat_list("registrySeeds", info["registrySeeds"]))
    out.append(_nat_list("canReachSeed", info["canReachSeed"]))
    mask = 0
    for i in info["canReachSeed"]:
        mask |= 1 << i
    out.append("/-- `canReachSeed` as a bitmask (bit i set ⇔ node i is in the set): what the Lean checks evaluate -/")
    out.append(f"def canReachSeedMask : Nat := {mask}\n")
    out.append(_nat_list("moduleScopeCallsIntoRegistering", info["moduleScopeCallsIntoRegistering"]))
    out.append(_nat_list("importsXarrayAtModuleScope", info["importsXarrayAtModuleScope"]))
    out.append(_nat_list("seedModules", info["seedModules"]))
    out.append(_str_list("entryPointGroups", info["entryPointGroups"]))
    out.append("end Dask.Generated.ImportGraph\n")
    return "\n".join(out)


def generate(repo):
    info = analyse(repo)
    return info, to_lean(info)


if __name__ == "__main__":  # python -m harness.translate.imports [repo]
    import json
    import sys

    info, src = generate(sys.argv[1] if len(sys.argv) > 1 else "/repo")
    info.pop("_analysis")
    brief = {k: (v if not isinstance(v, list) or len(v) < 30 else f"<{len(v)} items>") for k, v in info.items()}
    print(json.dumps(brief, indent=1))
