"""C29 translator: every syntactic data-touching site on a SOURCE object or a USER FUNCTION in the constructor /
metadata / rewrite code of the source nodes → Generated/DataReads.lean.

Scanned (REPO's current working tree, `ast` only):
  dask_array/io/_from_array.py   every function / method (constructor, `chunks`, `_meta`, `_name`, `__dask_tokenize__`,
                                 `_simplify_up`, `_accept_slice`, `_accept_rechunk`, `_with_chunks`, `_layer`, …)
  dask_array/_utils.py           meta_from_array, compute_meta
  dask_array/_map_blocks.py      every function
  dask_array/_core_utils.py      apply_infer_dtype
  dask_array/core/_conversion.py from_array
A *source expression* is `self.array`, a local bound to one (`source = self.array`), or the array parameter of
`meta_from_array` / `from_array` / `_source_storage_chunks` (`x`, `array`).  Sites and their classes:
  0 empty-selection   subscript of a source with `tuple(slice(0, 0, None) for …)` / literal `:0` slices only
  1 guarded           inside `if is_ndarray …` / `isinstance(x, np.ndarray | list | tuple …)` / `np.isscalar(x)`: NumPy or Python-literal
                      inputs only (exempt by the property statement)
  2 meta-call         user `func` called on metas (`compute_meta`: arguments are `_meta`s / `meta_from_array`)
  3 unit-probe-call   user `func` called by `apply_infer_dtype` on `np.zeros_like(meta, shape=(1,)*ndim)` (dtype inference
                      when neither dtype nor meta is given; synthetic zeros, no source data)
  4 duck-copy         `x = x.copy()` of an in-memory duck array in `from_array` (guarded by `is_arraylike(x)`)
  5 lazy-task         the source / func is only PLACED into a task tuple or dict (graph construction), not called
  9 other             anything else: subscript with a possibly non-empty selection, `np.asarray(source)`,
                      `source.<method>()`, user `func` called on anything else
The Lean obligation is: no site of class 9.  Syntactic and local: the recording monitor in props/C29.py is the tie.
"""
from __future__ import annotations

import ast
from pathlib import Path

FILES = {
    "dask_array/io/_from_array.py": None,  # None = all functions
    "dask_array/_utils.py": {"meta_from_array", "compute_meta"},
    "dask_array/_map_blocks.py": None,
    "dask_array/_core_utils.py": {"apply_infer_dtype"},
    "dask_array/core/_conversion.py": {"from_array"},
}
SRC_PARAMS = {"meta_from_array": {"x"}, "from_array": {"x"}, "_source_storage_chunks": {"array"}}
META_ATTRS = {"shape", "dtype", "ndim", "chunks", "shards", "array", "_array", "_meta", "size", "nbytes", "itemsize"}
ARRAY_FUNCS = {"asarray", "array", "asanyarray", "ascontiguousarray", "copy", "asfortranarray", "stack", "concatenate", "sum"}
CLASS_NAMES = {0: "empty-selection", 1: "guarded", 2: "meta-call", 3: "unit-probe-call", 4: "duck-copy", 5: "lazy-task", 9: "other"}


def _src(node):
    try:
        return ast.unparse(node)
    except Exception:
        return "?"


def _is_empty_slice(s):
    """slice(0, 0[, None]) call or literal `:0` / `0:0`"""
    if isinstance(s, ast.Call) and isinstance(s.func, ast.Name) and s.func.id == "slice":
        a = s.args
        if len(a) >= 2 and all(isinstance(v, ast.Constant) for v in a[:2]) and a[0].value == 0 and a[1].value == 0:
            return True
        if len(a) == 1 and isinstance(a[0], ast.Constant) and a[0].value == 0:
            return True
        return False
    if isinstance(s, ast.Slice):
        lo_ok = s.lower is None or (isinstance(s.lower, ast.Constant) and s.lower.value == 0)
        up_ok = isinstance(s.upper, ast.Constant) and s.upper.value == 0
        return lo_ok and up_ok and (s.step is None or (isinstance(s.step, ast.Constant) and s.step.value in (None, 1)))
    return False


def _is_empty_selection(idx):
    if _is_empty_slice(idx):
        return True
    if isinstance(idx, ast.Tuple) and idx.elts:
        return all(_is_empty_slice(e) for e in idx.elts)
    # tuple(slice(0, 0, None) for _ in range(...))
    if isinstance(idx, ast.Call) and isinstance(idx.func, ast.Name) and idx.func.id == "tuple" and len(idx.args) == 1:
        g = idx.args[0]
        if isinstance(g, (ast.GeneratorExp, ast.ListComp)) and _is_empty_slice(g.elt):
            return True
    return False


class FnScan(ast.NodeVisitor):
    def __init__(self, fname, qual, fn, sites):
        self.fname, self.qual, self.fn, self.sites = fname, qual, fn, sites
        self.srcnames = set(SRC_PARAMS.get(fn.name, ()))
        self.guards = []  # stack of (test_source, positive)
        self.funcparams = {a.arg for a in fn.args.args + fn.args.kwonlyargs if a.arg in ("func", "chunk", "aggregate", "combine", "op")}
        self.in_task = 0
        # locals bound to a source expression
        for n in ast.walk(fn):
            if isinstance(n, ast.Assign) and len(n.targets) == 1 and isinstance(n.targets[0], ast.Name) and self.is_source(n.value, shallow=True):
                self.srcnames.add(n.targets[0].id)

    def is_source(self, e, shallow=False):
        if isinstance(e, ast.Attribute) and e.attr == "array" and isinstance(e.value, ast.Name) and e.value.id == "self":
            return True
        if isinstance(e, ast.Name) and e.id in self.srcnames:
            return True
        return False

    def guarded(self):
        for test, pos in self.guards:
            if not pos:
                continue
            if "is_ndarray" in test or "np.ndarray" in test or "isinstance(x, (list, tuple" in test or "np.ScalarType" in test or test.startswith("np.isscalar("):
                return True
        return False

    def duck_guard(self):
        return any(pos and "is_arraylike" in test and "copy" in test for test, pos in self.guards)

    def add(self, node, kind, cls):
        if cls == 9 and self.guarded():
            cls = 1
        self.sites.append({"file": self.fname, "function": self.qual, "line": node.lineno, "kind": kind, "class": cls, "code": _src(node)[:90]})

    # guards
    def visit_If(self, node):
        t = _src(node.test)
        self.visit(node.test)
        self.guards.append((t, True))
        for s in node.body:
            self.visit(s)
        self.guards.pop()
        self.guards.append((t, False))
        for s in node.orelse:
            self.visit(s)
        self.guards.pop()

    def visit_IfExp(self, node):
        t = _src(node.test)
        self.visit(node.test)
        self.guards.append((t, True))
        self.visit(node.body)
        self.guards.pop()
        self.guards.append((t, False))
        self.visit(node.orelse)
        self.guards.pop()

    def visit_FunctionDef(self, node):
        if node is self.fn:
            for s in node.body:
                self.visit(s)
        else:  # nested def: same scope rules
            for s in node.body:
                self.visit(s)

    visit_AsyncFunctionDef = visit_FunctionDef

    def visit_Subscript(self, node):
        if self.is_source(node.value) and isinstance(node.ctx, ast.Load):
            self.add(node, "subscript", 0 if _is_empty_selection(node.slice) else 9)
        self.generic_visit(node)

    def visit_Tuple(self, node):
        # a task tuple `(getitem, self.array, slc, …)` / `(func, …)`: the callable and the source are only placed
        if node.elts and isinstance(node.ctx, ast.Load) and isinstance(node.elts[0], ast.Name) and node.elts[0].id in ("getitem", "getter", "func", "getter_nofancy"):
            for e in node.elts[1:]:
                if self.is_source(e):
                    self.add(node, "task-tuple", 5)
                    break
        self.generic_visit(node)

    def visit_Call(self, node):
        f = node.func
        # np.asarray(source) & friends
        if isinstance(f, ast.Attribute) and isinstance(f.value, ast.Name) and f.value.id in ("np", "numpy") and f.attr in ARRAY_FUNCS:
            if any(self.is_source(a) for a in node.args):
                self.add(node, f"np.{f.attr}(source)", 9)
        # source.method(...)
        if isinstance(f, ast.Attribute) and self.is_source(f.value) and f.attr not in META_ATTRS:
            if f.attr == "copy" and self.duck_guard():
                self.add(node, "source.copy()", 4)
            else:
                self.add(node, f"source.{f.attr}()", 9)
        # user function calls
        if isinstance(f, ast.Name) and f.id in self.funcparams:
            if self.fn.name == "compute_meta":
                ok = all((isinstance(a, ast.Starred) and _src(a.value) in ("args_meta",)) or _src(a) in ("args_meta",) for a in node.args) and \
                     all((k.arg is None and _src(k.value) == "kwargs_meta") for k in node.keywords)
                self.add(node, "func(*metas)", 2 if ok else 9)
            elif self.fn.name == "apply_infer_dtype":
                # args were rebuilt as np.zeros_like(meta_from_array(x), shape=(1,)*x.ndim) just above
                src = _src(self.fn)
                ok = "np.zeros_like(meta_from_array(x), shape=(1,) * x.ndim" in src and _src(node).startswith("func(*args")
                self.add(node, "func(*unit probes)", 3 if ok else 9)
            else:
                self.add(node, "func(...)", 9)
        self.generic_visit(node)


def analyse(repo):
    repo = Path(repo)
    sites = []
    scanned = []
    missing = []
    for rel, only in FILES.items():
        p = repo / rel
        if not p.exists():
            missing.append(rel)
            continue
        tree = ast.parse(p.read_text())

        def walk(body, prefix):
            for n in body:
                if isinstance(n, (ast.FunctionDef, ast.AsyncFunctionDef)):
                    if only is None or n.name in only:
                        q = f"{prefix}{n.name}"
                        scanned.append(f"{rel}:{q}")
                        FnScan(rel, q, n, sites).visit(n)
                elif isinstance(n, ast.ClassDef):
                    walk(n.body, f"{prefix}{n.name}.")

        walk(tree.body, "")
    sites.sort(key=lambda s: (s["file"], s["line"], s["kind"]))
    hist = {}
    for s in sites:
        hist[CLASS_NAMES[s["class"]]] = hist.get(CLASS_NAMES[s["class"]], 0) + 1
    return {"sites": sites, "scanned_functions": len(scanned), "missing_files": missing, "class_histogram": hist,
            "other_sites": [s for s in sites if s["class"] == 9]}


def _lstr(s):
    return '"' + s.replace("\\", "\\\\").replace('"', '\\"').replace("\n", " ") + '"'


def to_lean(info):
    rows = []
    for s in info["sites"]:
        rows.append(f"  ({_lstr(s['file'] + ':' + s['function'])}, {_lstr(s['kind'] + ' | ' + s['code'])}, {s['class']})")
    body = ",\n".join(rows)
    return (
        "/-\nGENERATED by harness/translate/datareads.py from /repo's working tree — do not edit.\n"
        "Every syntactic data-touching site on a source object / user function in the constructor, metadata and rewrite\n"
        "code of the source nodes (C29).  (function, what, class); classes: 0 empty-selection, 1 guarded (NumPy / Python\n"
        "literal only), 2 meta-call, 3 unit-probe-call (dtype inference), 4 duck-copy, 5 lazy-task, 9 other.\n-/\n"
        "namespace Dask.Generated.DataReads\n\n"
        f"def sites : List (String × String × Nat) := [\n{body}]\n\n"
        f"def scannedFunctions : Nat := {info['scanned_functions']}\n\n"
        f"def missingFiles : List String := [{', '.join(_lstr(m) for m in info['missing_files'])}]\n\n"
        "end Dask.Generated.DataReads\n"
    )


def generate(repo):
    info = analyse(repo)
    return info, to_lean(info)


if __name__ == "__main__":
    import json
    import sys

    info, src = generate(sys.argv[1] if len(sys.argv) > 1 else "/repo")
    for s in info["sites"]:
        print(s["class"], s["file"].split("/")[-1], s["function"], s["line"], s["kind"], "|", s["code"])
    print(json.dumps({k: v for k, v in info.items() if k not in ("sites", "other_sites")}, indent=1))
