"""C11 — in-place operations only change the array they are applied to.

Theorems (Props/C11.lean): the collection store (expressions are immutable values,
`_replace_expr` swaps x's expression and drops x's lowered cache: frame + cache soundness for all
histories) and the slice/int-key arithmetic of `parse_assignment_indices` / `setitem_array_expr`
(chunked assignment = NumPy assignment, all sizes / chunkings / slices).

Correspondence (model vs implementation, family `hs.*`):
  * `parse_assignment_indices` vs `hs.parse_assign`: exhaustive 1-d slices (sizes <= N), seeded random
    n-d index tuples (per axis);
  * the real per-block plan of `setitem_array_expr` (block indices from the emitted `setitem` tasks,
    value indices recorded from the value's `__getitem__`) vs `hs.setitem_plan`: exhaustive 1-d
    chunkings x slices x value kinds, seeded random n-d with slice / int keys;
  * the spec `npSource` vs NumPy itself (`hs.np_source`).
  List / boolean / dask-array keys are NOT modelled: search only.
Search (oracle independent of the model = NumPy on mirrored copies): seeded random HISTORIES over a
pool of collections built from retained NumPy sources: derive (slice / elemwise / transpose / rechunk
/ data-dependent selection), `x[key] = value` (ints, slices of all signs and steps, Ellipsis, integer
lists, 1-d NumPy boolean masks per axis, dask boolean masks `x[x > c] = v`, dask integer arrays;
scalar / broadcastable NumPy / dask values incl. values derived from x itself), `np.f(a, b, out=x)` /
`da.f(a, b, out=x)`, `x.compute_chunk_sizes()`, interleaved computes; NumPy MaskedArray values; `x.optimize()` before and
after an update (compute / optimize / dask.compute / persist must agree); `x.__dask_keys__()` / `x.to_delayed()` taken before an
update (new keys belong to the new graph, old delayed blocks keep the old value); optimised and unoptimised;
verification after EVERY step (or only at the end: cold caches): every pool member == its mirror
(so collections derived earlier keep their earlier value) and every retained source is bit-identical
to its initial copy.  Keys NumPy accepts but dask refuses must raise and leave everything unchanged.
Failing histories are shrunk by dropping steps.
In-place ufuncs in histories: binary and unary, with `where=` (NumPy mask, dask mask with its own chunks, a mask computed
from a pool member) and without; `x.persist()` as a derivation (in-place operations on persisted collections); the
verification order after a step varies per history (pool order, reversed, the updated target first, all members in one
`dask.compute`), under the synchronous or the threaded scheduler; besides the user's buffers, the private array every
`from_array` node keeps (its multi-chunk blocks are views of it) and the blocks held by persisted collections are
fingerprinted.
Extension stream (harness/props_ext/c11_ufunc.py): a GRID of in-place ufunc / reduction scenarios walked completely in
every run: how x was built (8 ways) x kind of `where=` (8, incl. none) x order of the computes after the call / scheduler
(6); see that module.
Extension stream (harness/props_ext/c11_setitem.py): a GRID of `x[key] = value` scenarios walked completely in every run:
key kind (8: slice, int, list, NumPy mask, dask mask full-shape / computed from x / along an axis, dask integer array) x value
kind (7: Python scalar, NumPy scalar, NumPy array, 0-d dask, LAZY dask reduction, dask array, derived from x itself) x dtype of
the value relative to x.dtype (same / safe / same-kind / other-kind): x keeps its dtype, the value is cast like NumPy casts it.
Histories also assign lazy 0-d reductions of pool members (`x[mask] = y.mean()`: float64 into int64).
"""
from __future__ import annotations

import hashlib
import itertools
import signal
import time

import numpy as np

from harness import gen
from harness import programs as P
from harness.core import f_list, f_ll, f_opt, f_slice

SYNC = {"scheduler": "sync"}
REFUSALS = (NotImplementedError, IndexError, ValueError, TypeError, AttributeError)


class Hang(BaseException):  # BaseException: must not be swallowed by `except Exception` in library code
    pass


def with_timeout(seconds, fn):
    """Run fn() in the main thread with a watchdog (a hang must become a reported failure, not a stuck check)."""
    def handler(signum, frame):
        raise Hang()

    old = signal.signal(signal.SIGALRM, handler)
    signal.alarm(seconds)
    try:
        return fn()
    finally:
        signal.alarm(0)
        signal.signal(signal.SIGALRM, old)


# --------------------------------------------------------------------------- correspondence

def fmt_key_tok(k):
    return f_slice(k) if isinstance(k, slice) else str(int(k))


def parse_pairs(ctx, NEX, NR):
    from dask_array.slicing._utils import parse_assignment_indices

    rng = ctx.rng
    pairs = []
    steps = (None, 1, 2, 3, -1, -2, -3)

    def impl_1d(s, n):
        try:
            idx, implied, rev, pos = parse_assignment_indices((s,), (n,))
            i = idx[0]
            return f"ok {f_slice(i)} {implied[0]} {1 if rev else 0} {1 if pos else 0}"
        except REFUSALS as e:
            return "err " + type(e).__name__

    for n in range(0, NEX + 1):
        vals = gen.slice_values(n)
        for a, b, c in itertools.product(vals, vals, steps):
            s = slice(a, b, c)
            pairs.append((f"hs.parse_assign {f_slice(s)} {n}", impl_1d(s, n)))
    for _ in range(NR):
        n = rng.choice([1, 2, 3, 7, 10, 100, 10**6])
        s = gen.rand_slice(rng, n)
        pairs.append((f"hs.parse_assign {f_slice(s)} {n}", impl_1d(s, n)))
    # n-d tuples: every sliced axis must be parsed like the 1-d case
    for _ in range(NR // 4):
        shape = tuple(rng.randint(1, 9) for _ in range(rng.randint(2, 4)))
        key = tuple(rng.randint(-d, d - 1) if rng.random() < 0.25 else gen.rand_slice(rng, d, steps=steps) for d in shape)
        try:
            idx, implied, rev, pos = parse_assignment_indices(key, shape)
        except REFUSALS:
            continue
        it = iter(implied)
        for ax, (k, d) in enumerate(zip(key, shape)):
            if isinstance(k, slice):
                imp = next(it)
                pairs.append((f"hs.parse_assign {f_slice(k)} {d}",
                              f"ok {f_slice(idx[ax])} {imp} {1 if ax in rev else 0} {1 if ax in pos else 0}"))
    return pairs


class RecValue:
    """A value that records the indices `setitem_array_expr` reads it with."""

    def __init__(self, arr):
        self.arr = arr
        self.shape = arr.shape
        self.log = []

    def __getitem__(self, idx):
        self.log.append(idx)
        return self.arr[idx]


def real_plan(chunks, key, vshape):
    """Canonical per-block plan of the real `setitem_array_expr` (blocks in C order)."""
    import dask_array as da
    from dask._task_spec import Alias
    from dask_array.slicing._setitem import setitem_array_expr

    shape = tuple(sum(c) for c in chunks)
    a = da.from_array(np.zeros(shape, dtype=np.int64), chunks=chunks)
    v = RecValue(da.from_array(np.zeros(vshape, dtype=np.int64), chunks=tuple((s,) for s in vshape) if vshape else ()))
    dsk = setitem_array_expr("out", a, key, v)
    out = []
    log = iter(v.log)
    for bid in itertools.product(*[range(len(c)) for c in chunks]):
        t = dsk[("out",) + bid]
        if isinstance(t, Alias):
            out.append("A")
            continue
        bi = t.args[2].args
        vi = next(log)
        vi = tuple(i for i in vi if i is not Ellipsis)
        out.append("/".join(fmt_key_tok(i) for i in bi) + "|" + "/".join(f_slice(i) for i in vi))
    return "ok " + " ".join(out)


def plan_pairs(ctx, NEX, NR):
    rng = ctx.rng
    pairs = []
    steps = (None, 1, 2, 3, -1, -2, -3)

    def impl(chunks, key, vshape):
        try:
            return real_plan(chunks, key, vshape)
        except REFUSALS as e:
            return "err " + type(e).__name__

    # exhaustive 1-d: chunkings of n x slices x value kinds (0-d, length 1, full length)
    specs = []
    for n in range(1, NEX + 1):
        xs = list(range(n))
        for cks in gen.compositions(n):
            for a, b, c in itertools.product(gen.slice_values(n), gen.slice_values(n), steps):
                s = slice(a, b, c)
                ln = len(xs[s])
                kinds = [("s", ())]
                if ln >= 1:
                    kinds.append(("f1", (1,)))
                if ln >= 2:
                    kinds.append(("f0", (ln,)))
                for vk, vshape in kinds:
                    specs.append((cks, s, vk, vshape))
    # the exhaustive product is large: a seeded subsample in quick mode
    ctx.notes["setitem_plan_exhaustive_1d_domain"] = len(specs)
    if len(specs) > ctx.scale(2500, 10**7):
        specs = rng.sample(specs, ctx.scale(2500, 10**7))
    for cks, s, vk, vshape in specs:
        pairs.append((f"hs.setitem_plan {f_list(cks)} {f_slice(s)} {vk}", impl((cks,), (s,), vshape)))
    # zero-length chunks
    for _ in range(NR // 3):
        n = rng.randint(1, 8)
        cks = gen.rand_chunks(rng, n, zeros=0.6)
        s = gen.rand_slice(rng, n, steps=steps)
        ln = len(range(n)[s])
        vk, vshape = rng.choice([("s", ())] + ([("f1", (1,))] if ln >= 1 else []) + ([("f0", (ln,))] if ln >= 2 else []))
        pairs.append((f"hs.setitem_plan {f_list(cks)} {f_slice(s)} {vk}", impl((tuple(cks),), (s,), vshape)))
    # n-d, slice / int keys, value 0-d or of the full implied rank with size-1 dims
    for _ in range(NR):
        shape = tuple(rng.randint(1, 7) for _ in range(rng.randint(2, 3)))
        chunks = P.rand_chunks_nd(rng, shape)
        key = []
        for d in shape:
            key.append(rng.randint(-d, d - 1) if rng.random() < 0.25 else gen.rand_slice(rng, d, steps=steps))
        key = tuple(key)
        lens = [len(range(d)[k]) for k, d in zip(key, shape) if isinstance(k, slice)]
        if not lens or 0 in lens or rng.random() < 0.3:
            vk, vshape = "s", ()
        else:
            flags = [rng.random() < 0.3 for _ in lens]
            vshape = tuple(1 if f else ln for f, ln in zip(flags, lens))
            # a dimension of implied size 1 is always a broadcast dimension (`b == 1` is tested first)
            flags = [f or ln == 1 for f, ln in zip(flags, lens)]
            vk = "f" + "".join("1" if f else "0" for f in flags)
        ktok = "/".join(fmt_key_tok(k) for k in key)
        pairs.append((f"hs.setitem_plan {f_ll(chunks)} {ktok} {vk}", impl(chunks, key, vshape)))
    return pairs


def np_source_pairs(ctx, NEX, NR):
    """The spec `npSource` against NumPy itself."""
    rng = ctx.rng
    pairs = []
    cases = []
    for n in range(0, NEX + 1):
        for a, b, c in itertools.product(gen.slice_values(n), gen.slice_values(n), (None, 1, 2, -1, -2, 3, -3)):
            cases.append((n, slice(a, b, c)))
    if len(cases) > ctx.scale(500, 10**6):
        cases = rng.sample(cases, ctx.scale(500, 10**6))
    for _ in range(NR // 4):
        n = rng.choice([3, 10, 31])
        cases.append((n, gen.rand_slice(rng, n)))
    for n, s in cases:
        x = np.full(n, -1, dtype=np.int64)
        k = len(range(n)[s])
        x[s] = np.arange(k)
        for p in range(n):
            pairs.append((f"hs.np_source {f_slice(s)} {n} {p}", "ok N" if x[p] < 0 else f"ok {x[p]}"))
    return pairs


# --------------------------------------------------------------------------- keys and values

def enc_key(key):
    out = []
    for k in key:
        if k is None:
            out.append("None")
        elif k is Ellipsis:
            out.append("...")
        elif isinstance(k, slice):
            out.append(["s", k.start, k.stop, k.step])
        elif isinstance(k, dict):
            out.append(k)
        elif isinstance(k, (list, np.ndarray)):
            arr = np.asarray(k)
            if arr.dtype == bool:
                out.append({"k": "b", "v": arr.tolist()})
            else:
                out.append({"k": "l", "v": [int(v) for v in arr]})
        else:
            out.append(int(k))
    return out


def dec_key(enc, env, da_mode):
    """env maps names to dask collections (da_mode) or NumPy mirrors."""
    import dask_array as da

    out = []
    for k in enc:
        if k == "None":
            out.append(None)
        elif k == "...":
            out.append(Ellipsis)
        elif isinstance(k, list):
            out.append(slice(k[1], k[2], k[3]))
        elif isinstance(k, dict):
            kind = k["k"]
            if kind == "l":
                out.append(list(k["v"]))
            elif kind == "b":
                out.append(np.array(k["v"], dtype=bool))
            elif kind == "dint":
                arr = np.array(k["v"], dtype=np.int64)
                out.append(da.from_array(arr, chunks=k["chunk"]) if da_mode else arr)
            elif kind == "dbool":
                arr = np.array(k["v"], dtype=bool)
                out.append(da.from_array(arr, chunks=k["chunk"]) if da_mode else arr)
            else:
                raise KeyError(kind)
        else:
            out.append(int(k))
    return tuple(out)


def key_kinds(enc):
    ks = []
    for k in enc:
        if k == "None":
            ks.append("none")
        elif k == "...":
            ks.append("ellipsis")
        elif isinstance(k, list):
            ks.append("slice-" if (k[3] or 1) < 0 else "slice")
        elif isinstance(k, dict):
            ks.append(k["k"])
        else:
            ks.append("int-" if k < 0 else "int")
    return ks


def rand_key(rng, shape):
    """A NumPy-valid assignment key for an array of this shape (tuple form, encoded)."""
    nd = len(shape)
    r = rng.random()
    key = []
    fancy_axis = None
    if nd >= 1 and r < 0.3 and all(d > 0 for d in shape):
        fancy_axis = rng.randrange(nd)
    for ax, d in enumerate(shape):
        if ax == fancy_axis:
            # dask-array keys (integer or 1-d boolean) are explored by the setitem-scenario grid (harness/props_ext/c11_setitem.py), which
            # keeps the registered failing sub-classes out (c11_setitem.avoid_known); histories use lists and NumPy masks
            kind = rng.choice(["l", "b"])
            if kind in ("l", "dint"):
                m = rng.randint(1, d)
                vals = rng.sample(range(d), m)  # no duplicates: NumPy's order of repeated writes is not a contract
                vals = [v - d if rng.random() < 0.3 else v for v in vals]
                if kind == "l":
                    key.append({"k": "l", "v": vals})
                else:
                    key.append({"k": "dint", "v": vals, "chunk": rng.randint(1, max(1, m))})
            else:
                mask = [rng.random() < 0.5 for _ in range(d)]
                if kind == "b":
                    key.append({"k": "b", "v": mask})
                else:
                    key.append({"k": "dbool", "v": mask, "chunk": rng.randint(1, d)})
            continue
        q = rng.random()
        if q < 0.22 and d > 0 and fancy_axis is None:
            key.append(rng.randint(-d, d - 1))
        elif q < 0.35:
            key.append(slice(None))
        else:
            key.append(gen.rand_slice(rng, d, steps=(None, 1, 1, 2, 3, -1, -1, -2, -3)))
    # trailing full slices may be dropped; a run of full slices may become an Ellipsis
    if rng.random() < 0.25:
        while key and isinstance(key[-1], slice) and key[-1] == slice(None):
            key.pop()
    if rng.random() < 0.15 and key:
        i = rng.randint(0, len(key))
        j = rng.randint(i, len(key))
        if all(isinstance(k, slice) and k == slice(None) for k in key[i:j]):
            key[i:j] = [Ellipsis]
    if not key:
        key = [Ellipsis]
    return enc_key(key)


# --------------------------------------------------------------------------- histories

DERIVE_OPS = ("unary", "binary", "transpose", "getitem", "getitem", "rechunk", "flip", "boolmask")


class Sim:
    """NumPy-side simulation used both to GENERATE valid histories and as the oracle."""

    def __init__(self):
        self.np = {}      # name -> mirror (own copy)
        self.order = []
        self.unknown = set()  # names whose dask chunks are unknown
        self.masked = set()   # names whose value is a numpy.ma.MaskedArray (after a MaskedArray was assigned)

    def apply(self, st):
        """Apply a step to the mirrors; returns nothing, raises if NumPy refuses."""
        op = st["op"]
        if op == "src":
            self.np[st["out"]] = P.source_data(st).copy()
            self.order.append(st["out"])
        elif op == "derive":
            with np.errstate(all="ignore"):
                r = P.apply_step(st["step"], self.np, np, False)
            self.np[st["out"]] = r.copy() if isinstance(r, np.ma.MaskedArray) else np.array(r, copy=True)
            self.order.append(st["out"])
            if any(a in self.masked for a in st["step"].get("args", [])):
                self.masked.add(st["out"])
            if st["step"]["op"] == "boolmask_1d" or any(a in self.unknown for a in st["step"].get("args", [])):
                self.unknown.add(st["out"])
        elif op == "setitem":
            m = self.np[st["x"]]
            key = dec_key(st["key"], self.np, False) if "key" in st else None
            val = self.value(st)
            if isinstance(val, np.ma.MaskedArray) and not isinstance(m, np.ma.MaskedArray):
                # dask: "if x is not masked but v is, then turn x into a masked array"  (numpy.ma semantics)
                mm = np.ma.array(m)
                for n in list(self.np):
                    if self.np[n] is m:  # names of the same collection share one mirror
                        self.np[n] = mm
                        self.masked.add(n)
                m = mm
            if "mask" in st:
                mk = self.mask(st["mask"])
                m[mk] = val
            else:
                m[key] = val
        elif op == "out":
            f = getattr(np, st["ufunc"])
            args = [self.np[st["a"]]] + ([self.np[st["b"]]] if st.get("b") is not None else [])
            kw = {}
            if st.get("where") is not None:
                kw["where"] = self.where(st["where"])
            f(*args, out=self.np[st["x"]], **kw)
        elif op == "persist":
            m = self.np[st["x"]]
            self.np[st["out"]] = m.copy()
            self.order.append(st["out"])
            if st["x"] in self.masked:
                self.masked.add(st["out"])
            if st["x"] in self.unknown:
                self.unknown.add(st["out"])
        elif op == "ccs":
            self.unknown.discard(st["x"])
        elif op in ("compute", "optimize", "keys"):
            pass
        else:
            raise KeyError(op)

    def value(self, st):
        v = st["value"]
        if isinstance(v, dict):
            if "np" in v:
                return np.array(v["np"], dtype=np.int64)
            if "ma" in v:
                return np.ma.array(np.array(v["ma"], dtype=np.int64), mask=np.array(v["mask"], dtype=bool))
            if "red" in v:
                # a LAZY 0-d reduction of a pool member (mean: float64 into the int64 x; NumPy casts the value to x.dtype)
                return np.asarray(getattr(self.np[v["red"]], v["fn"])())
            ref = self.np[v["ref"]]
            return np.array(ref[P._dec_index(v["index"])], copy=True)
        return v

    def mask(self, mk):
        ref = self.np[mk["ref"]]
        return ref > mk["c"] if mk["cmp"] == ">" else ref % mk["c"] == 0

    def where(self, w):
        """The NumPy value of a `where=` description (a fresh array: never aliases a mirror)."""
        if "ref" in w:
            return np.array(self.mask(w), dtype=bool)
        return np.array(w["mask"], dtype=bool)


def gen_history(rng, length):
    sim = Sim()
    steps = []
    k = [0]
    # formerly: collections whose expression contains an `out=` Elemwise were never sliced / flipped / rechunked (slicing them raised,
    # fixed in repo bc2ace0): the set stays empty now, so slices, integer indices, flips and rechunks of x AFTER np.f(..., out=x) are generated
    tainted = frozenset()
    maybe_alias = {}  # rechunk results may be the very same object as their source

    def taint(n):
        group = {n}
        changed = True
        while changed:
            changed = False
            for a, b in maybe_alias.items():
                if (a in group) != (b in group):
                    group |= {a, b}
                    changed = True
        return group  # (no longer recorded: see `tainted` above)

    def fresh():
        k[0] += 1
        return f"c{k[0]}"

    def add(st):
        trial_ok = True
        if st["op"] in ("setitem", "out"):
            # NumPy must accept it (on a scratch copy)
            saved = {n: a.copy() for n, a in sim.np.items()}
            try:
                sim.apply(st)
            except Exception:
                sim.np = saved
                trial_ok = False
        else:
            try:
                sim.apply(st)
            except Exception:
                trial_ok = False
        if trial_ok:
            steps.append(st)
        return trial_ok

    def new_src():
        r = rng.choice([1, 1, 2, 2, 3])
        shape = tuple(rng.randint(1, 6) for _ in range(r))
        st = {"op": "src", "out": fresh(), "shape": list(shape), "chunks": [list(c) for c in P.rand_chunks_nd(rng, shape)],
              "mul": rng.choice([1, 3, 7]), "off": rng.randint(-5, 5), "mod": rng.choice([1 << 40, 11, 7])}
        add(st)

    def in_place(st, x):
        """Add an in-place update of x, sometimes bracketed by the entry-point / key-touching steps:
        x.optimize() before and after (every entry point must agree afterwards), x.__dask_keys__() / x.to_delayed()
        before (keys handed out earlier are cached on the collection)."""
        r = rng.random()
        before = []
        if r < 0.2:
            before.append({"op": "optimize", "x": x})
        if 0.1 < r < 0.35:
            before.append({"op": "keys", "x": x})
        for b in before:
            add(b)
        ok = add(st)
        if ok and before:
            add({"op": "optimize", "x": x})
        return ok

    new_src()
    if rng.random() < 0.5:
        new_src()
    tries = 0
    while len([s for s in steps if s["op"] != "src"]) < length and tries < length * 12:
        tries += 1
        names = list(sim.np)
        q = rng.random()
        if q < 0.06:
            new_src()
        elif q < 0.36:
            # derive
            a = rng.choice(names)
            x = sim.np[a]
            kind = rng.choice(DERIVE_OPS)
            if a in tainted and kind in ("getitem", "flip", "boolmask", "rechunk"):
                continue
            if a in sim.masked and kind in ("binary", "boolmask"):
                continue  # masked collections: only views and unary ops are derived (numpy.ma mixes masks in binary ops)
            st = None
            if kind == "unary":
                st = {"op": rng.choice(["neg", "affine", "mod7", "sq"]), "args": [a]}
            elif kind == "binary":
                cands = [b for b in names if P._bcast_ok(x.shape, sim.np[b].shape) and b not in sim.unknown and b not in sim.masked]
                if cands and a not in sim.unknown:
                    st = {"op": rng.choice(["add", "sub", "mul", "maximum"]), "args": [a, rng.choice(cands)]}
            elif kind == "transpose" and x.ndim >= 2 and a not in sim.unknown:
                axes = list(range(x.ndim))
                rng.shuffle(axes)
                if axes != sorted(axes):  # the identity transpose returns the same object: not a derivation
                    st = {"op": "transpose", "args": [a], "axes": axes}
            elif kind == "getitem" and x.ndim >= 1 and a not in sim.unknown:
                idx = P.rand_basic_index(rng, x.shape, allow_none=False)
                r = x[idx]
                identity = r.shape == x.shape and r.strides == x.strides and r.__array_interface__["data"][0] == x.__array_interface__["data"][0]
                if not identity:  # x[:] returns x itself: not a derivation
                    st = {"op": "getitem", "args": [a], "index": P._enc_index(idx)}
            elif kind == "rechunk" and x.ndim >= 1 and a not in sim.unknown:
                st = {"op": "rechunk", "args": [a], "chunks": [list(c) for c in P.rand_chunks_nd(rng, x.shape)]}
            elif kind == "flip" and x.ndim >= 1 and a not in sim.unknown:
                st = {"op": "flip", "args": [a], "axis": rng.randrange(x.ndim)}
            elif kind == "boolmask" and x.ndim == 1 and a not in sim.unknown:
                st = {"op": "boolmask_1d", "args": [a], "mod": rng.choice([2, 3])}
            if st is not None:
                if add({"op": "derive", "out": fresh(), "step": dict(st, out="_")}):
                    if st["op"] == "rechunk":
                        maybe_alias[steps[-1]["out"]] = a
                    if any(b in tainted for b in st["args"]):
                        taint(steps[-1]["out"])
        elif q < 0.80:
            # setitem
            xs = [n for n in names if n not in sim.unknown or rng.random() < 0.2]
            x = rng.choice(xs)
            m = sim.np[x]
            st = {"op": "setitem", "x": x}
            # a dask boolean-mask key goes through where(key, value, x), and np.where drops x's mask: known class (probe_known (6))
            if rng.random() < 0.2 and x not in sim.masked:
                # dask boolean mask of x's shape: x itself or another same-shape member, scalar value
                # unknown chunk sizes: only a mask derived from x itself is aligned with x (anything else is refused at compute: C28)
                cands = [x] if x in sim.unknown else [n for n in names if sim.np[n].shape == m.shape and n not in sim.unknown]
                cands = [n for n in cands if n not in sim.masked]
                if not cands:
                    continue
                st["mask"] = {"ref": rng.choice(cands), "cmp": rng.choice([">", "%"]), "c": rng.randint(1, 6)}
                st["value"] = rng.randint(-99, 99)
                reds = [n for n in names if n not in sim.unknown and n not in sim.masked and sim.np[n].size]
                if reds and rng.random() < 0.4:
                    st["value"] = {"red": rng.choice(reds), "fn": rng.choice(["mean", "mean", "max", "sum"])}
                if st["mask"]["ref"] in tainted:
                    taint(x)
            else:
                if m.ndim == 0:
                    continue
                enc = rand_key(rng, m.shape)
                st["key"] = enc
                try:
                    target = m[dec_key(enc, sim.np, False)]
                except Exception:
                    continue
                fancy = any(isinstance(kk, dict) for kk in enc)
                vq = rng.random()
                if vq < 0.35 or target.ndim == 0:
                    st["value"] = rng.randint(-99, 99)
                    reds = [n for n in names if n not in sim.unknown and n not in sim.masked and sim.np[n].size]
                    if reds and rng.random() < 0.25:
                        st["value"] = {"red": rng.choice(reds), "fn": rng.choice(["mean", "mean", "max", "sum"])}
                elif vq < 0.7:
                    # broadcastable NumPy value: trailing dims, some of size 1
                    shp = list(target.shape)[rng.randint(0, target.ndim - 1):] if not fancy else list(target.shape)
                    shp = [1 if rng.random() < 0.3 else d for d in shp]
                    # extra leading 1-dims: with an integer in the key (value rank > implied rank but <= array rank) this
                    # is a known failing class (probe_known), so only without integers
                    if rng.random() < 0.15 and not fancy and len(shp) == target.ndim and not any(isinstance(kk, int) for kk in enc):
                        shp = [1] + shp
                    n = int(np.prod(shp)) if shp else 1
                    data = np.arange(n, dtype=np.int64).reshape(shp) * 2 - 1000
                    if rng.random() < 0.25 and x not in sim.unknown and x not in tainted:
                        # a NumPy MaskedArray value: x becomes a masked array (numpy.ma semantics)
                        st["value"] = {"ma": data.tolist(), "mask": (np.array([rng.random() < 0.4 for _ in range(n)]).reshape(shp)).tolist()}
                    else:
                        st["value"] = {"np": data.tolist()}
                else:
                    # dask value derived from a pool member (possibly x itself), same shape as the target
                    found = None
                    for _ in range(12):
                        r = rng.choice(names)
                        if r in sim.unknown or sim.np[r].ndim == 0 or r in tainted or r in sim.masked:
                            continue
                        idx = P.rand_basic_index(rng, sim.np[r].shape, allow_none=False)
                        try:
                            got = sim.np[r][idx]
                        except Exception:
                            continue
                        if got.shape == target.shape and got.size:
                            found = {"ref": r, "index": P._enc_index(idx)}
                            break
                    if found is None:
                        continue
                    st["value"] = found
            in_place(st, x)
        elif q < 0.88:
            # out=
            x = rng.choice(names)
            if x in sim.unknown:
                continue
            shp = sim.np[x].shape
            pairs = [(a, b) for a in names for b in names if a not in sim.unknown and b not in sim.unknown
                     and P._bcast_ok(sim.np[a].shape, sim.np[b].shape) and np.broadcast_shapes(sim.np[a].shape, sim.np[b].shape) == shp]
            if not pairs:
                continue
            a, b = rng.choice(pairs)
            if any(n in sim.masked for n in (x, a, b)):
                continue
            st = {"op": "out", "x": x, "a": a, "b": b, "ufunc": rng.choice(["add", "subtract", "multiply", "maximum"]),
                  "style": rng.choice(["np", "da"])}
            if rng.random() < 0.25:
                # a unary ufunc (often x itself is the input)
                same = [n for n in names if sim.np[n].shape == shp and n not in sim.unknown and n not in sim.masked]
                st.update(a=x if rng.random() < 0.5 else rng.choice(same), b=None, ufunc=rng.choice(["negative", "absolute", "square"]))
            if rng.random() < 0.5:
                # where=: the chunk function receives the block of x as its `out` and must not write into it
                # (also on 0-d x, whose block may be a NumPy scalar: fixed in repo ee894a6)
                wq = rng.random()
                if wq < 0.4 or not shp:
                    st["where"] = {"kind": "np", "mask": np.array([rng.random() < 0.5 for _ in range(int(np.prod(shp)))]).reshape(shp).tolist()}
                elif wq < 0.7:
                    st["where"] = {"kind": "dask", "mask": np.array([rng.random() < 0.5 for _ in range(int(np.prod(shp)))]).reshape(shp).tolist(),
                                   "chunks": [list(c) for c in P.rand_chunks_nd(rng, shp)]}
                else:
                    same = [n for n in names if sim.np[n].shape == shp and n not in sim.unknown and n not in sim.masked]
                    st["where"] = {"kind": "of", "ref": rng.choice(same), "cmp": rng.choice([">", "%"]), "c": rng.randint(1, 6)}
            if in_place(st, x):
                taint(x)
        elif q < 0.905:
            # a persisted collection: its blocks are held by the graph (in-place operations must not write into them)
            cands = [n for n in names if n not in sim.unknown]
            if cands:
                a = rng.choice(cands)
                add({"op": "persist", "x": a, "out": fresh()})  # (a persisted collection is materialised: slicing it is fine)
        elif q < 0.93:
            unk = [n for n in names if n in sim.unknown]
            if unk:
                add({"op": "ccs", "x": rng.choice(unk)})
        elif q < 0.96:
            add({"op": "compute", "x": rng.choice(names)})
        elif q < 0.98:
            add({"op": "optimize", "x": rng.choice(names)})
        else:
            add({"op": "keys", "x": rng.choice(names)})
    return steps


def numpy_accepts(sim, st):
    """Would NumPy accept this step on the current mirrors? (tried on scratch copies)"""
    trial = Sim()
    trial.np = {n: a.copy() for n, a in sim.np.items()}
    trial.unknown = set(sim.unknown)
    try:
        trial.apply(st)
        return True
    except Exception:
        return False


def same_arr(got, want):
    """Equality incl. masks: same shape and dtype, same mask, same data where not masked."""
    if got.shape != want.shape or got.dtype != want.dtype:
        return False
    gm, wm = np.ma.isMaskedArray(got), np.ma.isMaskedArray(want)
    if gm or wm:
        mg, mw = np.ma.getmaskarray(got), np.ma.getmaskarray(want)
        if not np.array_equal(mg, mw):
            return False
        return bool(np.array_equal(np.ma.getdata(got)[~mg], np.ma.getdata(want)[~mw]))
    return bool(np.array_equal(got, want))


def listed(a):
    return np.ma.filled(a, -999999).tolist() if a.size <= 64 else list(a.shape)


def fingerprint(a):
    return hashlib.sha1(np.ascontiguousarray(a).tobytes() + str(a.shape).encode() + str(a.dtype).encode()).hexdigest()


def held_arrays(coll):
    """What a collection keeps alive and hands to chunk functions: the private array of every `from_array` node (from_array
    copies the user's buffer; multi-chunk blocks are VIEWS of that copy) and the blocks of persisted graphs."""
    out = []
    try:
        for node in coll.expr.walk():
            kind = type(node).__name__
            if kind == "FromArray" and isinstance(getattr(node, "array", None), np.ndarray):
                out.append(("from_array-internal", node.array))
            elif kind == "FromGraph":
                for k, v in dict(node._layer()).items():
                    v = getattr(v, "value", v)
                    if isinstance(v, np.ndarray):
                        out.append((f"persisted-block{list(k[1:])}", v))
    except Exception:
        pass
    return out


def run_history(steps, optimize, eager, stop_at=None, mode=None):
    """Run a history on the real code and on NumPy mirrors. Returns None or a failure dict
    {"step": i, "what": ..., "name": ..., ...}; `refusals` are collected in the returned tuple.
    mode = {"order": "pool" | "reversed" | "target-first" | "together", "scheduler": "sync" | "threads"}: how the pool is
    computed when it is verified."""
    import dask
    import dask_array as da
    from dask.core import flatten

    mode = mode or {}
    vorder = mode.get("order", "pool")
    VKW = {"scheduler": "threads"} if mode.get("scheduler") == "threads" else SYNC
    sim = Sim()
    env = {}
    sources = {}
    prints = {}
    refusals = []

    stash = []    # (name, delayed blocks, block slices, mirror copy) taken by a `keys` step: old graphs keep their old values
    touched = set()  # names whose keys were materialised before later updates

    def hold(n):
        for label, v in held_arrays(env[n]):
            if not any(v is w for w in sources.values()):
                key = f"{n}:{label}"
                sources[key] = v
                prints[key] = fingerprint(v)

    def verify(i, names=None, target=None):
        order = list(names or sim.order)
        if names is None:
            if vorder == "reversed":
                order.reverse()
            elif vorder == "target-first" and target in order:
                order.remove(target)
                order.insert(0, target)
        results = {}
        if names is None and vorder == "together" and len(order) > 1:
            try:
                results = dict(zip(order, dask.compute(*[env[n] for n in order], **VKW)))
            except Exception:
                results = {}  # locate the member that raises one by one
        for n in order:
            try:
                got = np.asanyarray(results[n] if n in results else env[n].compute(**VKW))
            except Exception as e:
                return {"step": i, "what": "compute-raises", "name": n, "error": repr(e)[:300]}
            want = sim.np[n]
            if not same_arr(got, want):
                return {"step": i, "what": "value", "name": n, "got": listed(got), "want": listed(want), "got_dtype": str(got.dtype), "want_dtype": str(want.dtype)}
            if n in touched:
                # keys handed out earlier were cached on the collection: after an update they must be the keys of the NEW graph
                x = env[n]
                keys = list(flatten(x.__dask_keys__()))
                try:
                    graph = set(x.__dask_graph__())
                except Exception as e:
                    return {"step": i, "what": "graph-raises", "name": n, "error": repr(e)[:300]}
                if any(k[0] != x.name for k in keys) or not set(keys) <= graph:
                    return {"step": i, "what": "stale-keys", "name": n, "keys": repr(keys[:3]), "collection": x.name}
        for n, delayed, slices, old in stash:
            try:
                blocks = dask.compute(*delayed, **SYNC)
            except Exception as e:
                return {"step": i, "what": "old-delayed-raises", "name": n, "error": repr(e)[:300]}
            for b, sl in zip(blocks, slices):
                if not same_arr(np.asanyarray(b), old[sl]):
                    return {"step": i, "what": "old-delayed-value", "name": n, "got": listed(np.asanyarray(b)), "want": listed(old[sl])}
        for n, a in sources.items():
            if fingerprint(a) != prints[n]:
                return {"step": i, "what": "source-mutated", "name": n}
        return None

    def entry_points(i, n):
        """x.compute(), x.optimize().compute(), dask.compute(x), x.persist().compute() must all give the mirror."""
        x = env[n]
        want = sim.np[n]
        for label, f in (("compute", lambda: x.compute(**SYNC)), ("optimize", lambda: x.optimize().compute(**SYNC)),
                         ("dask.compute", lambda: dask.compute(x, **SYNC)[0]), ("persist", lambda: x.persist(**SYNC).compute(**SYNC)),
                         ("optimize-twice", lambda: x.optimize().optimize().compute(**SYNC))):
            try:
                got = np.asanyarray(f())
            except Exception as e:
                return {"step": i, "what": "entry-point-raises:" + label, "name": n, "error": repr(e)[:300]}
            if not same_arr(got, want):
                return {"step": i, "what": "entry-point:" + label, "name": n, "got": listed(got), "want": listed(want)}
        return None

    with dask.config.set({"array.optimize-graph": optimize}):
        for i, st in enumerate(steps):
            op = st["op"]
            if op == "src":
                data = P.source_data(st).copy()
                sources[st["out"]] = data
                prints[st["out"]] = fingerprint(data)
                env[st["out"]] = da.from_array(data, chunks=tuple(tuple(c) for c in st["chunks"]))
                hold(st["out"])
                sim.apply(st)
            elif op == "derive":
                if not numpy_accepts(sim, st):
                    return None, refusals
                try:
                    env[st["out"]] = P.apply_step(st["step"], env, da, True)
                except Exception as e:
                    return {"step": i, "what": "derive-raises", "name": st["out"], "error": repr(e)[:300]}, refusals
                sim.apply(st)
                # a derivation may return the very same Python object (x[:], identity transpose, rechunk to the same
                # chunks): that is the SAME collection, so the mirror is shared, not copied
                for n0, c0 in env.items():
                    if n0 != st["out"] and c0 is env[st["out"]]:
                        sim.np[st["out"]] = sim.np[n0]
                        break
            elif op == "setitem":
                x = env[st["x"]]
                before = x.expr._name
                v = st["value"]
                if not numpy_accepts(sim, st):
                    return None, refusals  # an earlier refusal made the rest of the history meaningless
                try:
                    if isinstance(v, dict):
                        if "np" in v:
                            val = np.array(v["np"], dtype=np.int64)
                        elif "ma" in v:
                            val = np.ma.array(np.array(v["ma"], dtype=np.int64), mask=np.array(v["mask"], dtype=bool))
                        elif "red" in v:
                            val = getattr(env[v["red"]], v["fn"])()
                        else:
                            val = env[v["ref"]][P._dec_index(v["index"])]
                    else:
                        val = v
                    if "mask" in st:
                        mk = st["mask"]
                        ref = env[mk["ref"]]
                        key = (ref > mk["c"]) if mk["cmp"] == ">" else (ref % mk["c"] == 0)
                        x[key] = val
                    else:
                        key = dec_key(st["key"], env, True)
                        x[key if len(key) != 1 else key[0]] = val
                    sim.apply(st)
                except REFUSALS as e:
                    # a refusal: nothing may have changed (mirror not updated)
                    refusals.append((type(e).__name__, str(e)[:80], key_kinds(st.get("key", []))))
                    if x.expr._name != before:
                        return {"step": i, "what": "refused-but-changed", "name": st["x"], "error": repr(e)[:200]}, refusals
                    bad = verify(i)
                    if bad:
                        bad["what"] = "refused-but-" + bad["what"]
                        return bad, refusals
                    continue
            elif op == "persist":
                try:
                    env[st["out"]] = env[st["x"]].persist(**SYNC)
                except Exception as e:
                    return {"step": i, "what": "persist-raises", "name": st["out"], "error": repr(e)[:300]}, refusals
                sim.apply(st)
                hold(st["out"])
            elif op == "out":
                f = getattr(np if st["style"] == "np" else da, st["ufunc"])
                if not numpy_accepts(sim, st):
                    return None, refusals
                opnames = [st["a"]] + ([st["b"]] if st.get("b") is not None else [])
                pre = {n: type(env[n])(env[n].expr) for n in opnames}  # the operands as they are before the update
                try:
                    kw = {}
                    w = st.get("where")
                    if w is not None:
                        if "ref" in w:
                            ref = env[w["ref"]]
                            kw["where"] = (ref > w["c"]) if w["cmp"] == ">" else (ref % w["c"] == 0)
                        elif w["kind"] == "dask":
                            kw["where"] = da.from_array(np.array(w["mask"], dtype=bool), chunks=tuple(tuple(c) for c in w["chunks"]))
                        else:
                            kw["where"] = np.array(w["mask"], dtype=bool)
                    f(*[env[n] for n in opnames], out=env[st["x"]], **kw)
                    sim.apply(st)
                except REFUSALS as e:
                    refusals.append((type(e).__name__, str(e)[:80], ["out=" + st["style"]]))
                    bad = verify(i)
                    if bad:
                        bad["what"] = "refused-but-" + bad["what"]
                        return bad, refusals
                    continue
            elif op == "ccs":
                try:
                    env[st["x"]].compute_chunk_sizes()
                except Exception as e:
                    return {"step": i, "what": "compute_chunk_sizes-raises", "name": st["x"], "error": repr(e)[:300]}, refusals
                sim.apply(st)
                if any(np.isnan(c) for cs in env[st["x"]].chunks for c in cs):
                    return {"step": i, "what": "compute_chunk_sizes-left-unknown", "name": st["x"]}, refusals
            elif op == "compute":
                bad = verify(i, [st["x"]])
                if bad:
                    return bad, refusals
            elif op == "optimize":
                bad = entry_points(i, st["x"])
                if bad:
                    return bad, refusals
            elif op == "keys":
                x = env[st["x"]]
                touched.add(st["x"])
                keys = x.__dask_keys__()
                if x.ndim >= 1 and not any(np.isnan(c) for cs in x.chunks for c in cs):
                    delayed = list(x.to_delayed().ravel())
                    starts = [np.cumsum((0,) + tuple(cs)) for cs in x.chunks]
                    slices = [tuple(slice(int(starts[ax][b]), int(starts[ax][b + 1])) for ax, b in enumerate(bid))
                              for bid in itertools.product(*[range(len(cs)) for cs in x.chunks])]
                    stash.append((st["x"], delayed, slices, sim.np[st["x"]].copy()))
                    stash[:] = stash[-3:]
            if eager or i == len(steps) - 1 or (stop_at is not None and i == stop_at):
                bad = verify(i, target=st.get("x") if op in ("setitem", "out", "ccs") else None)
                if bad:
                    if op == "derive" and bad.get("name") == st["out"]:
                        bad["generic"] = derive_fails_on_fresh_arrays(st, env, sim)
                    if op == "out" and bad.get("name") == st["x"]:
                        bad["generic"] = ufunc_fails_out_of_place(st, pre, sim)
                    return bad, refusals
    return None, refusals


def derive_fails_on_fresh_arrays(st, env, sim):
    """Does the same derivation also fail on fresh from_array collections holding the mirrors' values with the
    same chunks?  Then the failure is a defect of the derivation itself (not of any in-place operation)."""
    import dask_array as da

    try:
        fresh = {}
        for a in st["step"].get("args", []):
            chunks = env[a].chunks
            if any(np.isnan(c) for cs in chunks for c in cs):
                return False
            fresh[a] = da.from_array(sim.np[a].copy(), chunks=chunks)
        got = np.asarray(P.apply_step(st["step"], fresh, da, True).compute(**SYNC))
        want = sim.np[st["out"]]
        return not (got.shape == want.shape and np.array_equal(got, want))
    except Exception:
        return True


def ufunc_fails_out_of_place(st, pre, sim):
    """Does `f(a, b)` WITHOUT out= (same operand expressions) fail as well?  Then the failure is a defect of the elementwise
    expression itself (broadcasting / chunk unification / optimisation), not of the in-place update."""
    import dask_array as da

    if st.get("where") is not None:
        return False  # with where= the result depends on the old x: there is no out-of-place twin to compare with
    try:
        args = [pre[st["a"]]] + ([pre[st["b"]]] if st.get("b") is not None else [])
        got = np.asarray(getattr(da, st["ufunc"])(*args).compute(**SYNC))
        want = sim.np[st["x"]]
        return not (got.shape == want.shape and np.array_equal(got, want))
    except Exception:
        return True


def classify(steps, bad):
    st = steps[bad["step"]]
    op = st["op"]
    if op == "derive":
        op = "derive:" + st["step"]["op"]
    target = st.get("out") if op == "persist" else st.get("x", st.get("out"))
    if op == "out" and st.get("where") is not None:
        op = "out+where"
    who = "target" if bad.get("name") == target else "other"
    if bad["what"] == "source-mutated":
        who = "source"
    from harness.classify import _zero_width_on_broadcast_axis

    if bad["what"].startswith(("entry-point-raises", "raises")) and _zero_width_on_broadcast_axis(str(bad.get("error", ""))):
        # a stepped slice left a (1, 0) chunk on a length-1 axis and a later broadcast against it raises in chunk unification:
        # the listed defect of the elementwise expression itself, not of the in-place update
        return "broadcast-axis-zero-width-chunk"
    return f"history:{op}:{bad['what']}:{who}"


def shrink_history(steps, optimize, eager, sig, mode=None):
    """Greedy: drop steps (from the end first) while the same class of failure remains."""
    def fails(ss):
        try:
            bad, _ = run_history(ss, optimize, eager, mode=mode)
        except Exception:
            return False
        return bad is not None and classify(ss, bad) == sig

    UNARY_OPS = ("neg", "abs", "affine", "mod7", "sq")

    def consistent(ss):
        # every referenced name must be defined earlier, NumPy must accept the history, and the history must still
        # respect the generator's constraints on unknown chunk sizes (dropping a compute_chunk_sizes step must not
        # turn a valid derivation into one over misaligned unknown chunks: that is refused by design, C28)
        sim = Sim()
        try:
            for st in ss:
                op = st["op"]
                unk = sim.unknown
                if op == "derive" and st["step"]["op"] not in UNARY_OPS and any(a in unk for a in st["step"].get("args", [])):
                    return False
                if op == "out" and any(st.get(k) in unk for k in ("x", "a", "b")):
                    return False
                if op == "out" and st.get("where") is not None and st["where"].get("ref") in unk:
                    return False
                if op == "persist" and st["x"] in unk:
                    return False
                if op == "setitem":
                    v = st["value"]
                    if isinstance(v, dict) and "ref" in v and v["ref"] in unk:
                        return False
                    if isinstance(v, dict) and "red" in v and v["red"] in unk:
                        return False
                    if "mask" in st:
                        ref = st["mask"]["ref"]
                        if (st["x"] in unk and ref != st["x"]) or (st["x"] not in unk and ref in unk):
                            return False
                sim.apply(st)
        except Exception:
            return False
        return True

    cur = list(steps)
    # cut after the failing step
    bad, _ = run_history(cur, optimize, eager, mode=mode)
    if bad is not None:
        cur = cur[: bad["step"] + 1]
    changed = True
    rounds = 0
    while changed and rounds < 6:
        changed = False
        rounds += 1
        for i in range(len(cur) - 2, -1, -1):
            cand = cur[:i] + cur[i + 1:]
            if consistent(cand) and fails(cand):
                cur = cand
                changed = True
    return cur


def check_history(ctx, steps, optimize, eager, shrink=True, mode=None):
    mode = dict(mode or {})
    try:
        bad, refusals = with_timeout(60, lambda: run_history(steps, optimize, eager, mode=mode))
    except Hang:
        ctx.fail("history:hang", {"history": steps, "optimize": optimize, "eager": eager, "mode": mode}, "the history does not finish within 60 s")
        return False
    for cls, msg, kinds in refusals:
        key = f"refusal.{cls}"
        ctx.notes[key] = ctx.notes.get(key, 0) + 1
        samples = ctx.extra.setdefault("refusal_samples", {})
        if cls not in samples:
            samples[cls] = {"message": msg, "key_kinds": kinds}
    if bad is None:
        return True
    if not eager:
        # verification only at the end cannot say WHICH step broke things: locate it by verifying after every step
        try:
            bad2, _ = with_timeout(60, lambda: run_history(steps, optimize, True, mode=mode))
        except Hang:
            bad2 = None
        if bad2 is not None:
            bad, eager = bad2, True
    if bad.get("generic"):
        ctx.notes["generic_derivation_defects"] = ctx.notes.get("generic_derivation_defects", 0) + 1
        if len(ctx.extra.setdefault("generic_derivation_defect_samples", [])) < 3:
            ctx.extra["generic_derivation_defect_samples"].append({"step": steps[bad["step"]], "failure": bad})
        return True
    sig = classify(steps, bad)
    small = steps
    seen = ctx.__dict__.setdefault("_c11_reported", set())
    if shrink and sig in seen:
        # one shrunk report per class and run is enough (shrinking is the expensive part)
        ctx.notes["further_failing_histories." + sig] = ctx.notes.get("further_failing_histories." + sig, 0) + 1
        return False
    seen.add(sig)
    if shrink:
        try:
            if mode.get("scheduler") == "threads":
                # prefer a deterministic replay: keep the threaded scheduler only if the failure needs it
                sync_mode = dict(mode, scheduler="sync")
                b0, _ = run_history(steps, optimize, eager, mode=sync_mode)
                if b0 is not None and classify(steps, b0) == sig:
                    mode = sync_mode
            small = shrink_history(steps, optimize, eager, sig, mode=mode)
            bad2, _ = run_history(small, optimize, eager, mode=mode)
            if bad2 is not None:
                bad = bad2
        except Exception:
            small = steps
    ctx.fail(sig, {"history": small, "optimize": optimize, "eager": eager, "mode": mode, "failure": bad, "unshrunk_length": len(steps)},
             "after an in-place operation a pool member no longer computes to its NumPy mirror (or a source changed)")
    return False


def probe_known(ctx):
    """Classes the random stream avoids because they fail on the unchanged tree (reported as findings)."""
    import dask_array as da

    # (1) regression probe (fixed in 9ba0aa7): an integer index before a negative-step slice; `reverse` held ARRAY-dimension
    # positions but was used to index the VALUE's dimensions -> wrong value axis reversed (or IndexError at graph time)
    a = np.arange(8).reshape(2, 2, 2)
    v = np.array([[1, 2], [3, 4]])
    x = da.from_array(a.copy(), chunks=1)
    m = a.copy()
    m[0, ::-1, :] = v
    try:
        x[0, ::-1, :] = v
        got = x.compute(**SYNC)
        ctx.count(("probe", "int-before-reversed"))
        if not np.array_equal(got, m):
            ctx.fail("setitem:int-before-reversed-slice",
                     {"program": "x = da.from_array(np.arange(8).reshape(2,2,2), chunks=1); x[0, ::-1, :] = [[1,2],[3,4]]",
                      "got": got.tolist(), "want": m.tolist()},
                     "x[int, ::-1, :] = v reverses the wrong axis of v (positions of reversed dimensions are array positions, used as value positions)")
    except Exception as e:
        ctx.fail("setitem:int-before-reversed-slice", {"program": "x[0, ::-1, :] = v", "error": repr(e)[:200]},
                 "x[int, ::-1, :] = v is accepted and then fails to compute")
    x = da.from_array(np.arange(4).reshape(2, 2), chunks=1)
    try:
        x[0, ::-1] = 7
        got = x.compute(**SYNC)
        if not np.array_equal(got, np.array([[7, 7], [2, 3]])):
            ctx.fail("setitem:int-before-reversed-slice", {"program": "x[0, ::-1] = 7", "got": got.tolist()}, "wrong data")
    except IndexError as e:
        ctx.fail("setitem:int-before-reversed-slice:raises",
                 {"program": "x = da.from_array(np.arange(4).reshape(2,2), chunks=1); x[0, ::-1] = 7; x.compute()", "error": repr(e)[:200]},
                 "x[int, ::-1] = scalar is accepted by __setitem__ and then x cannot be computed (IndexError while building the graph)")

    # (2) a dask value whose part needed by one block spans several chunks (fixed in fbe1419: ConcatenateArrayChunks._layer
    #     called concatenate3(arrays, numblocks)); kept as a regression probe
    try:
        x = da.from_array(np.arange(4), chunks=4)
        x[:] = da.from_array(np.arange(4) * 10, chunks=2)
        ctx.count(("probe", "multi-chunk-value"))
        got = x.compute(**SYNC)
        if not np.array_equal(got, np.arange(4) * 10):
            ctx.fail("setitem:multi-chunk-dask-value", {"program": "x[:] = v (v in 2 chunks)", "got": got.tolist()}, "wrong data")
    except Exception as e:
        ctx.fail("setitem:multi-chunk-dask-value:compute-raises",
                 {"program": "x = da.from_array(np.arange(4), chunks=4); x[:] = da.from_array(np.arange(4)*10, chunks=2); x.compute()", "error": repr(e)[:200]},
                 "x[key] = dask value whose part for one block spans several chunks is accepted and then x cannot be computed")
    # (3) regression probe (fixed in repo de6ba02): a dask integer-array key under optimisation raised AttributeError
    #     ('ArrayOffsetDep' object has no attribute 'shape'); the setitem-scenario grid generates dask integer keys too
    try:
        y = da.from_array(np.arange(18).reshape(3, 6), chunks=(2, 5))
        y[:, da.from_array(np.array([5, 2]), chunks=2)] = np.arange(6).reshape(3, 2)
        m = np.arange(18).reshape(3, 6)
        m[:, [5, 2]] = np.arange(6).reshape(3, 2)
        ctx.count(("probe", "dask-int-key"))
        got = y.compute(**SYNC)
        if not np.array_equal(got, m):
            ctx.fail("setitem:dask-int-key", {"program": "y[:, dask_int_array] = v", "got": got.tolist(), "want": m.tolist()}, "wrong data")
    except Exception as e:
        ctx.fail("setitem:dask-int-key:compute-raises",
                 {"program": "y = da.from_array(np.arange(18).reshape(3,6), chunks=(2,5)); y[:, da.from_array(np.array([5,2]), chunks=2)] = np.arange(6).reshape(3,2); y.compute()",
                  "error": repr(e)[:200]},
                 "x[:, dask integer array] = v is accepted and then x cannot be computed under optimisation (works with array.optimize-graph=False)")
    # (4) out=: the old expression of `out` stays an operand of the Elemwise; slicing the result afterwards raises
    try:
        x = da.from_array(np.arange(4).reshape(2, 2), chunks=1)
        y = da.from_array(np.ones((2, 2), dtype=np.int64), chunks=1)
        np.add(x, y, out=y)
        ctx.count(("probe", "out-then-slice"))
        got = y[0].compute(**SYNC)
        if not np.array_equal(got, np.array([1, 2])):
            ctx.fail("out=:slice-of-result", {"program": "np.add(x, y, out=y); y[0]", "got": got.tolist()}, "wrong data")
    except Exception as e:
        ctx.fail("out=:slice-of-result:compute-raises",
                 {"program": "x = da.from_array(np.arange(4).reshape(2,2), chunks=1); y = da.from_array(np.ones((2,2),int), chunks=1); np.add(x, y, out=y); y[0].compute()",
                  "error": repr(e)[:200]},
                 "after np.add(x, y, out=y) a slice of y cannot be computed (the placeholder `out` operand is sliced with the pushed-down index)")
    # (5) value with extra leading 1-dims and an integer in the key
    try:
        x = da.from_array(np.arange(12).reshape(2, 2, 3), chunks=1)
        v = np.arange(6).reshape(1, 2, 3) + 100
        m = np.arange(12).reshape(2, 2, 3)
        m[-1, :, :] = v
        x[-1, :, :] = v
        ctx.count(("probe", "value-rank"))
        got = x.compute(**SYNC)
        if not np.array_equal(got, m):
            ctx.fail("setitem:value-rank-above-implied-rank", {"program": "x[-1, :, :] = v(1,2,3)", "got": got.tolist(), "want": m.tolist()}, "wrong data")
    except Exception as e:
        ctx.fail("setitem:value-rank-above-implied-rank:compute-raises",
                 {"program": "x = da.from_array(np.arange(12).reshape(2,2,3), chunks=1); x[-1, :, :] = np.arange(6).reshape(1,2,3); x.compute()", "error": repr(e)[:200]},
                 "x[int, :, :] = v with v.ndim == x.ndim (leading 1) is accepted (NumPy broadcasts) and then x cannot be computed")

    # (6) a dask boolean-mask key on a collection that holds a masked array: where(key, value, x) -> np.where drops x's mask
    try:
        x = da.from_array(np.arange(4), chunks=2)
        x[1:3] = np.ma.array([10, 11], mask=[True, False])
        m = np.ma.array(np.arange(4))
        m[1:3] = np.ma.array([10, 11], mask=[True, False])
        key = da.from_array(np.array([False, False, False, True]), chunks=2)
        x[key] = 7
        m[np.array([False, False, False, True])] = 7
        ctx.count(("probe", "dask-mask-on-masked"))
        got = np.asanyarray(x.compute(**SYNC))
        if not same_arr(got, m):
            ctx.fail("setitem:dask-mask-key-on-masked-array:mask-lost",
                     {"program": "x = da.from_array(np.arange(4), chunks=2); x[1:3] = np.ma.array([10, 11], mask=[True, False]); "
                                 "x[da.from_array(np.array([False, False, False, True]), chunks=2)] = 7; x.compute()",
                      "got": listed(got), "got_masked": bool(np.ma.isMaskedArray(got)), "want": listed(m)},
                     "x[dask bool mask] = v on a masked x goes through where(): the mask of x is dropped and the hidden data reappear (numpy.ma keeps the mask)")
    except Exception as e:
        ctx.notes["probe.dask-mask-on-masked"] = "raises " + repr(e)[:120]


def search(ctx):
    rng = ctx.rng
    n = ctx.scale(2000, 30000)
    L = ctx.scale(8, 30)
    budget = ctx.scale(18, 420)  # seconds of search proper
    t0 = time.time()
    done = 0
    for i in range(n):
        if time.time() - t0 > budget:
            ctx.notes["search_stopped_on_budget_after"] = i
            break
        steps = gen_history(rng, rng.randint(2, L))
        optimize = rng.random() < 0.6
        eager = rng.random() < 0.7
        mode = {"order": rng.choice(["pool", "pool", "reversed", "target-first", "target-first", "together"]),
                "scheduler": "threads" if rng.random() < 0.2 else "sync"}
        ops = tuple(sorted({(s["op"] if s["op"] != "derive" else "d:" + s["step"]["op"]) for s in steps}))
        for s in steps:
            if s["op"] == "setitem":
                kinds = tuple(key_kinds(s["key"])) if "key" in s else ("dask-mask",)
                v = s["value"]
                vk = "scalar" if not isinstance(v, dict) else ("np" if "np" in v else ("masked" if "ma" in v else ("lazy-" + v["fn"] if "red" in v else ("self" if v["ref"] == s["x"] else "dask"))))
                ctx.count(("setitem", kinds, vk, optimize))
            elif s["op"] == "out":
                w = s.get("where")
                ctx.count(("out", "unary" if s.get("b") is None else "binary", "no-where" if w is None else w["kind"], optimize, mode["order"], mode["scheduler"]))
            else:
                ctx.count((s["op"] if s["op"] != "derive" else "d:" + s["step"]["op"], optimize, eager))
        if i < 2:
            ctx.sample({"history": steps, "optimize": optimize, "eager": eager, "mode": mode})
        check_history(ctx, steps, optimize, eager, mode=mode)
        done += 1
    ctx.notes["histories"] = done


def targeted(ctx):
    """Lift disagreements on parse / plan to real assignments x[key] = v on those chunkings."""
    import dask_array as da
    from harness.core import p_slice

    tried = 0
    for d in ctx.disagreements[:40]:
        toks = d["request"].split()
        try:
            if toks[0] == "hs.parse_assign":
                s = p_slice(toks[1])
                n = int(toks[2])
                configs = [(((n,),), (s,)), ((tuple([1] * n) if n else (0,),), (s,))]
            elif toks[0] == "hs.setitem_plan":
                chunks = tuple(tuple(int(t) for t in c.split(",")) for c in toks[1].split(";"))
                key = tuple(p_slice(t) if ":" in t else int(t) for t in toks[2].split("/"))
                configs = [(chunks, key)]
            else:
                continue
            for chunks, key in configs:
                shape = tuple(sum(c) for c in chunks)
                a = np.arange(int(np.prod(shape)), dtype=np.int64).reshape(shape)
                tgt = a[key]
                vals = [7]
                if tgt.size:
                    vals.append(np.arange(tgt.size, dtype=np.int64).reshape(tgt.shape) + 100)
                for v in vals:
                    tried += 1
                    x = da.from_array(a.copy(), chunks=chunks)
                    m = a.copy()
                    m[key] = v
                    try:
                        x[key] = v
                        got = x.compute(**SYNC)
                    except REFUSALS:
                        continue
                    if not np.array_equal(got, m):
                        ctx.fail("setitem:basic-key:value", {"chunks": [list(c) for c in chunks], "key": [fmt_key_tok(k) for k in key],
                                 "value": np.asarray(v).tolist(), "got": got.tolist(), "want": m.tolist()}, "x[key] = v differs from NumPy")
        except Exception as e:
            ctx.notes["targeted_error"] = repr(e)[:200]
    ctx.notes["targeted_search"] = f"{tried} real assignments x[key] = v on the disagreeing chunkings / keys"


def run(ctx, replay=None):
    import warnings

    warnings.simplefilter("ignore")
    np.seterr(all="ignore")
    ctx.rule = (
        "correspondence: exhaustive 1-d (sizes <= N, bounds in [-n-2,n+2] or None, 7 steps, all chunkings, 3 value kinds; subsampled in quick) "
        "+ seeded random n-d slice/int keys; search: seeded random histories (length <= 8 quick / 30 thorough) over pools of <= ~8 collections; "
        "an operation instance is distinct by (op, key kinds per axis, value kind, optimised) resp. (op, optimised, eager verification) resp. "
        "(out=, unary/binary, where kind, optimised, verification order, scheduler); in-place ufunc scenarios: the complete grid "
        "(how x was built) x (where kind) x (compute order, scheduler), other dimensions seeded random; distinct by (cell, call kind, out= form, optimised); "
        "setitem scenarios: the complete grid (key kind) x (value kind) x (value dtype relative to x.dtype), other dimensions seeded random; "
        "distinct by (cell, x.dtype, value dtype)"
    )
    ctx.assumptions = [
        "histories: all data int64 (exact; lazy `mean` values are float64 and are cast into x by the assignment); other dtypes: the setitem-scenario grid; integer-list keys without repeated indices (NumPy's write order for repeats is not a contract)",
        "dask boolean-mask keys (x[mask] = v) with 0-d values only (Python / NumPy scalars, 0-d dask arrays, lazy reductions); 1-d values of the selected count are refused by dask; "
        "length-1 1-d values are a reported class (probe)",
        "setitem scenarios: no value whose C cast to x.dtype is undefined (NaN / inf / out-of-range float -> int, negative float -> unsigned); float data are multiples of 1/4 wherever "
        "arithmetic is involved (sums / means over 2^k elements are exact), arbitrary where the value is only cast; three classes that fail on the unchanged tree are kept out of the grid "
        "and reported by probes (c11_setitem.avoid_known)",
        "a fancy key (list / bool / dask array) is combined with slices only (NumPy moves advanced dimensions when separated by a slice)",
        "MaskedArray values: the oracle is numpy.ma's assignment (x becomes a masked array, as dask documents), not ndarray.__setitem__ (which drops the mask)",
        "list / boolean / dask-array keys are not modelled in Lean (search only); the store theorems assume materialize/eval sound (C01/C02)",
        "in-place ufunc scenarios: x and the operands have the same dtype (int64 or float64 holding integers); other dtypes of out= are registered known findings (probes)",
    ]
    NEX = ctx.scale(4, 6)
    NR = ctx.scale(1200, 20000)
    if replay is not None:
        case = replay.get("case", replay)
        if "history" in case:
            check_history(ctx, case["history"], case.get("optimize", True), case.get("eager", True), shrink=False, mode=case.get("mode"))
        elif case.get("ufunc_scenario"):
            from harness.props_ext import c11_ufunc
            c11_ufunc.check_case(ctx, {k: v for k, v in case.items() if k != "failure"}, do_shrink=False)
        elif case.get("setitem_scenario"):
            from harness.props_ext import c11_setitem
            c11_setitem.check_case(ctx, {k: v for k, v in case.items() if k != "failure"}, do_shrink=False)
        else:
            from harness.props_ext import c11_setitem, c11_ufunc
            probe_known(ctx)
            c11_ufunc.probes(ctx)
            c11_setitem.probes(ctx)
            ctx.correspond("parse_assignment_indices", parse_pairs(ctx, NEX, NR))
            ctx.correspond("setitem_array_expr plan", plan_pairs(ctx, min(NEX, 4), NR // 4))
            if ctx.disagreements:
                targeted(ctx)
        return
    ctx.correspond("parse_assignment_indices", parse_pairs(ctx, NEX, NR))
    ctx.correspond("setitem_array_expr plan", plan_pairs(ctx, min(NEX, ctx.scale(4, 5)), NR // 4))
    ctx.correspond("npSource vs NumPy", np_source_pairs(ctx, NEX, NR))
    ctx.exhaustive = True
    ctx.extra["exhaustive_domain"] = (f"parse_assignment_indices: all 1-d slices with bounds in [-n-2,n+2]∪{{None}} × 7 steps, n ≤ {NEX}; "
                                      f"setitem plan: all chunkings of n ≤ {min(NEX, ctx.scale(4, 5))} × those slices × value kinds (0-d, length 1, full) "
                                      "(a seeded subsample of 2500 in quick)")
    from harness.props_ext import c11_setitem, c11_ufunc
    probe_known(ctx)
    t = time.time()
    c11_setitem.search(ctx)
    ctx.notes["seconds.setitem_scenarios"] = round(time.time() - t, 1)
    t = time.time()
    c11_ufunc.search(ctx)
    ctx.notes["seconds.ufunc_scenarios"] = round(time.time() - t, 1)
    t = time.time()
    search(ctx)
    ctx.notes["seconds.histories"] = round(time.time() - t, 1)
    c11_ufunc.probes(ctx)  # last: failures found by the searches are reported first
    c11_setitem.probes(ctx)
    if ctx.disagreements:
        targeted(ctx)
