"""C07 — Names are deterministic and survive serialization.

Proof side   Props/C07.lean: pickle round trip keeps the name of every node of the tree in any process
             (the carried token), determinism modulo unstable operands, getstate drops only derived
             caches; over Generated/NameTables.lean: `__reduce__` carries `deterministic_token`,
             `_reconstruct` passes it, `__getstate__` drops only derived caches, and naming code
             reads hidden state (id / uuid / non-strict tokenize / random / time) only at the
             documented sites.
Tie + search (this file), on the real code:
  * the same DSL program built twice in-process from fresh source objects, and built again in FRESH
    subprocesses started with other PYTHONHASHSEEDs: every variable's name, the optimized graph
    keys, `__frisky_output_keys__()` must be equal;
  * pickle / cloudpickle round trips of the collection, before and after its caches are populated,
    in-process (also with emptied singleton registries, which forces a real reconstruction) and
    ACROSS processes in both directions: name, `__dask_keys__()`, chunks, dtype, Frisky output
    keys and the computed values must be unchanged;
  * sources documented as untokenizable (`from_array(..., name=False)`, a source object whose
    tokenization raises): only per-instance stability and pickle stability are required;
  * (props_ext/c07_sources.py, in every run) the grid of every `from_array` keyword value (lock= False / None / True /
    SerializableLock(name) / SerializableLock() / threading.Lock / RLock, getitem=, meta=, asarray=, inline_array=,
    name=, fancy=, chunks spellings), data containers, asarray / asanyarray / array, every creation function and the
    seeded random API, from_delayed / from_map / fromfunction / from_npy_stack, `store` targets x locks x regions:
    determinism is REQUIRED exactly when `dask.tokenize` tokenizes the equal-but-distinct argument objects
    deterministically and equally (oracle independent of dask_array), else per-instance / pickle stability;
  * in-place updates of one collection object (setitem, mask setitem, ufunc / reduction out=, compute_chunk_sizes,
    `_chunks` setter) with READS of keys / Frisky keys / graph / name / chunks before and after them: the advertised
    keys must be `(name, *block)` and produced by the graph, scheduling the graph for them must give the values,
    the same program without the reads must give the same collection, and pickles taken after
    read -> update and update -> read must round-trip (Props/C07Inplace.lean is the model of this clause);
  * (props_ext/c07_sources.py, in every run) ARRAY-VALUED parameters: every distribution of the random API with NumPy-array /
    list / NumPy-scalar parameters in every layout, and NumPy / list operands of ordinary API calls: they tokenize by value
    (dask.tokenize is the oracle), so names and optimized graph keys must be equal between builds and processes;
  * (props_ext/c07_history.py, in every run) the program built after the SAME (or a larger) program was built and
    materialized under ANOTHER configuration and kept alive: for every lazily read option (enumerated from the source),
    names and optimized graph keys must equal those of a build from clean registries and of a fresh process under the
    same configuration;
  * (props_ext/c07_layouts.py, in every run) SOURCE VARIANTS: one value (16 dtypes incl. bool, complex, datetime64, timedelta64,
    str / bytes, structured, big-endian; 0-d to 4-d, zero-size; np.ma / matrix / recarray containers) in 28 memory representations
    (C / Fortran order, permuted strides, transposed views, windows of bigger buffers, negative strides, strided, stride-0
    broadcast, frombuffer / memoryview, layout-keeping copies, pickle / cloudpickle round trips) x writable / read-only /
    read-only view, through every entry point that takes NumPy data (from_array and its keywords, asarray, asanyarray, array,
    NumPy operands of ordinary calls): equal inputs must give equal names of the source and of derived programs (slice pushed
    into the read, rechunk, elementwise, reduction, combination, transpose, ravel), equal optimized graph keys, Frisky keys and
    values (NumPy oracle), in-process and when the INPUT is pickled to a fresh interpreter that rebuilds from it.
"""
from __future__ import annotations

import base64
import collections
import copy
import hashlib
import json
import pickle
import re
import subprocess
import sys
from concurrent.futures import ThreadPoolExecutor

import numpy as np

from harness import core, programs
from harness.props import C06 as N
from harness.props_ext import c07_history as H
from harness.props_ext import c07_layouts as L
from harness.props_ext import c07_sources as S


def translate(ctx):
    N.translate(ctx)


def layouts_child(payload):
    """entry of the fresh interpreter of the source-variant stream (props_ext/fresh_process.py imports harness.props.C07)"""
    return L.child(payload)


# ------------------------------------------------------------------ DSL (sources with exceptions)

class Untokenizable:
    """An array-like source with NO deterministic tokenization (like an h5py dataset): picklable, sliceable."""

    def __init__(self, a):
        self.a = a
        self.shape = a.shape
        self.dtype = a.dtype
        self.ndim = a.ndim

    def __getitem__(self, idx):
        return self.a[idx]

    def __dask_tokenize__(self):
        from dask.tokenize import TokenizationError

        raise TokenizationError("Untokenizable source (harness)")


def _tag(block, label, enc=b""):
    """block function taking a literal str argument and a literal bytes keyword"""
    return block + len(label) + len(enc)


def apply_step(step, env, m, da_mode):
    op = step["op"]
    if S.handles(step):
        # from_array keywords / creation / random / store / reads and in-place updates (props_ext/c07_sources.py)
        return S.apply_step(step, env, m, da_mode)
    # literal str / bytes arguments carried by blockwise / map_blocks nodes (their tokens must not depend on the process)
    if op == "mb_sort":
        a = env[step["args"][0]]
        return m.map_blocks(np.sort, a, kind=step["kind"], dtype=a.dtype) if da_mode else np.sort(a, kind=step["kind"])
    if op == "bw_einsum":
        a = env[step["args"][0]]
        sub = "ijkl"[: a.ndim]
        return m.blockwise(np.einsum, sub, f"{sub}->{sub}", None, a, sub, dtype=a.dtype) if da_mode else np.einsum(f"{sub}->{sub}", a)
    if op == "mb_tag":
        a = env[step["args"][0]]
        return a.map_blocks(_tag, step["label"], enc=step["enc"].encode(), dtype=a.dtype) if da_mode else _tag(a, step["label"], step["enc"].encode())
    if op == "src" and da_mode and step.get("chunks_spec"):
        # "auto" / byte-string chunks: resolved against dask's configuration
        return m.from_array(programs.source_data(step), chunks=step["chunks_spec"])
    if step["op"] == "src" and da_mode and step.get("exception"):
        data = programs.source_data(step)
        chunks = tuple(tuple(c) for c in step["chunks"])
        if step["exception"] == "name=False":
            return m.from_array(data, chunks=chunks, name=False)
        return m.from_array(Untokenizable(data), chunks=chunks)
    return N.apply_step(step, env, m, da_mode)


def run_da(prog):
    import dask_array as da

    env = {}
    for st in prog:
        env[st["out"]] = apply_step(st, env, da, True)
    return env


def run_np(prog):
    env = {}
    for st in prog:
        env[st["out"]] = apply_step(st, env, np, False)
    return env


def has_exception(prog):
    """only per-instance and pickle stability are required: a source documented as untokenizable, or an argument
    object that dask.tokenize itself cannot tokenize deterministically (oracle in c07_sources, independent of dask_array)"""
    return any(st.get("exception") for st in prog) or S.nondet_reason(prog) is not None


def exception_kind(prog):
    return next((st["exception"] for st in prog if st.get("exception")), None) or S.nondet_reason(prog) or "none"


def id_fallback_argument(prog):
    return any(st["op"] == "store" and S.step_nondet(st) for st in prog)


def deep(prog):
    """programs with in-place updates: also schedule the graph for the ADVERTISED keys"""
    return S.has_update(prog) or any(st["op"] == "compute_chunk_sizes" for st in prog)


# dedicated probe (minimal program of a finding on the unchanged tree, kept in every run):
# (x*x) - clip(x, 1, 2): the two siblings `mul` and `clip` are fused with `sub`; their ORDER inside the fused group
# (hence the group's key name and token) follows the iteration order of a set of name strings.
PROBE_FUSED_ORDER = [
    {"op": "src", "shape": [4], "chunks": [[2, 2]], "mul": 1, "off": 0, "mod": 1 << 40, "out": "v1"},
    {"op": "sq", "args": ["v1"], "out": "v2"},
    {"op": "clip", "args": ["v1"], "lo": 1, "hi": 2, "out": "v3"},
    {"op": "sub", "args": ["v2", "v3"], "out": "v4"},
]


def _src(shape, chunks, **kw):
    return {"op": "src", "shape": list(shape), "chunks": chunks, "mul": 1, "off": 0, "mod": 1 << 40, "out": "v1", **kw}


# literal string kwarg / positional arguments of map_blocks / blockwise (a seeded regression tokenized them with hash())
PROBE_STR_KWARG = [_src([3, 4], [[2, 1], [2, 2]]), {"op": "mb_sort", "args": ["v1"], "kind": "stable", "out": "v2"}]
PROBE_STR_ARG = [_src([3, 4], [[2, 1], [2, 2]]), {"op": "bw_einsum", "args": ["v1"], "out": "v2"}]
PROBE_BYTES = [_src([5], [[2, 3]]), {"op": "mb_tag", "args": ["v1"], "label": "abc", "enc": "xy", "out": "v2"}]
# known finding `random:generator-choice-recompute`: Generator.choice puts live BitGenerator objects into the graph; the
# minimal input is kept in every run (and Generator.choice is generated nowhere else)
PROBE_CHOICE = [{"op": "create", "fn": "rng.choice", "dtype": "int64", "shape": [16], "chunks": [[16]], "seed": 7, "p1": 0, "p2": 5, "out": "v1"}]
# known finding `random:array-param-node-rebuilt`: a random call with a multi-chunk DASK-ARRAY argument consumes the root RNG
# again whenever a rewrite re-creates its node: rebuild / pickle round trip / dask.compute(x) give other values under the
# same name.  Minimal input kept in every run; dask-array arguments to random functions are generated nowhere else.
PROBE_RANDOM_ARRAY_ARG = [
    {"op": "src", "shape": [4], "chunks": [[2, 1, 1]], "mul": 1, "off": 0, "mod": 1 << 40, "out": "v1"},
    {"op": "create", "fn": "rs.normal_arr", "args": ["v1"], "seed": 0, "shape": [4], "chunks": [[2, 2]], "out": "v2"},
]
FIXED_PROBES = [PROBE_FUSED_ORDER, PROBE_STR_KWARG, PROBE_STR_ARG, PROBE_BYTES, PROBE_CHOICE, PROBE_RANDOM_ARRAY_ARG]


def config_programs(rng, n):
    """(program, sender configuration): collections whose layout / graph depends on configuration that dask reads LAZILY;
    they are pickled under the sender's configuration and unpickled in a fresh process running the defaults."""
    out = []
    tails = [
        [],  # the bare source, nothing has looked at its chunks when it is pickled
        [{"op": "affine", "args": ["v1"], "out": "v2"}],
        [{"op": "reduce", "fn": "sum", "args": ["v1"], "axis": 0, "keepdims": False, "split_every": None, "out": "v2"}],
        [{"op": "getitem", "args": ["v1"], "index": [["s", 3, 40, None]], "out": "v2"}],
        [{"op": "transpose", "args": ["v1"], "axes": [1, 0], "out": "v2"}, {"op": "neg", "args": ["v2"], "out": "v3"}],
    ]
    k = 0
    while len(out) < n:
        kind = ["auto", "auto", "bytes", "unify", "optimize"][k % 5]
        k += 1
        if kind in ("auto", "bytes"):
            side = rng.choice([40, 48, 56])
            src = {"op": "src", "shape": [side, side], "chunks_spec": "auto" if kind == "auto" else rng.choice(["2KiB", "3KiB"]),
                   "mul": 1, "off": rng.randint(0, 3), "mod": 1 << 40, "out": "v1"}
            tail = copy.deepcopy(tails[(k // 5) % len(tails)] if kind == "auto" else rng.choice(tails))
            out.append(([src] + tail, {"array.chunk-size": rng.choice(["4KiB", "6KiB"])}))
        elif kind == "unify":
            nrow = rng.choice([12, 24])
            prog = [
                {"op": "src", "shape": [nrow], "chunks": [[nrow // 2] * 2], "mul": 1, "off": 0, "mod": 1 << 40, "out": "v1"},
                {"op": "src", "shape": [nrow], "chunks": [[nrow // 4] * 4], "mul": 3, "off": 1, "mod": 1 << 40, "out": "v2"},
                {"op": rng.choice(["add", "mul", "maximum"]), "args": ["v1", "v2"], "out": "v3"},
            ]
            out.append((prog, {"array.unify-chunks-policy": rng.choice(["coarse", "refine"])}))
        else:
            prog, _g = programs.gen_program(rng, depth=rng.randint(2, 4), avoid=("swv-consumer",), zero_axes=0)
            out.append((prog, {"array.optimize-graph": False}))
    return out


# ------------------------------------------------------------------ observables

def h(obj):
    return hashlib.sha1(repr(obj).encode()).hexdigest()[:16]


def val_hash(a):
    a = np.asarray(a)
    return hashlib.sha1(str(a.dtype).encode() + str(a.shape).encode() + np.ascontiguousarray(a).tobytes()).hexdigest()[:16]


def flat_keys(x):
    from dask.core import flatten

    return [str(k) for k in flatten(x.__dask_keys__())]


def observe(x, compute=True, deep=False):
    """Everything the property says must survive: name, keys, chunks, dtype, Frisky keys, graph keys, values.
    `keys_belong`: every advertised key is (name, *block) and is produced by the graph; deep: the values obtained by
    scheduling the graph for the advertised keys (what a scheduler that enumerated the keys would get)."""
    import dask
    from dask.core import flatten

    out = {
        "name": x.name,
        "dask_keys": h(flat_keys(x)),
        "chunks": N.canon_chunks(x.chunks),
    }
    try:
        out["dtype"] = str(x.dtype)
    except Exception as e:
        # known C23 family: the `_meta` of a generic Random node with a non-scalar NumPy parameter raises
        out["dtype"] = "err " + type(e).__name__
    try:
        out["frisky"] = h(list(x.__frisky_output_keys__()))
    except NotImplementedError:
        out["frisky"] = "n/a"
    except Exception as e:
        out["frisky"] = "err " + type(e).__name__  # (same family: the Frisky support test looks at `_meta`)
    try:
        gk = sorted(map(str, x.__dask_graph__().keys()))
        out["graph_keys"] = h(gk)
        out["n_graph_keys"] = len(gk)
        out["graph_names"] = sorted({str(k[0]) if isinstance(k, tuple) else str(k) for k in x.__dask_graph__().keys()})
        out["fused_names"] = sorted({n._name for n in x._lowered_expr.walk() if type(n).__name__ == "FusedBlockwise"})
    except Exception as e:
        out["graph_keys"] = "err " + type(e).__name__
    try:
        keys = list(flatten(x.__dask_keys__()))
        g = x.__dask_graph__()
        foreign = [k for k in keys if not (isinstance(k, tuple) and k[0] == x.name)]
        missing = [k for k in keys if k not in g]
        out["keys_belong"] = "ok" if not foreign and not missing else (
            f"key {foreign[0]} is not of collection {x.name}" if foreign else f"key {missing[0]} is not produced by the graph")
        if deep and compute and out["keys_belong"] == "ok":
            with dask.config.set(scheduler="sync"):
                blocks = dask.get(dict(g), keys)
            out["graph_values"] = h([val_hash(b) for b in blocks])
    except Exception as e:
        out["keys_belong"] = "err " + type(e).__name__
    if compute:
        try:
            with dask.config.set(scheduler="sync"):
                out["values"] = val_hash(x.compute())
        except Exception as e:
            out["values"] = "err " + type(e).__name__
    return out


def jsonable(o):
    return json.loads(json.dumps(o, default=str))


# ------------------------------------------------------------------ child process

CHILD = r"""
import base64, json, pickle, sys
sys.path.insert(0, {verif!r})
import numpy as np
from harness.props import C07
req = json.loads(sys.stdin.read())
out = {{}}
for it in req["items"]:
    r = {{}}
    try:
        if it.get("hist"):
            # configuration-history stream: the program built under the case's configuration, nothing else was ever built here
            r["hist_built"] = C07.H.child_build(it)
            out[str(it["id"])] = r
            continue
        dp = C07.deep(it["prog"])
        if not it.get("cfg"):
            env = C07.run_da(it["prog"])
            root = env[it["root"]]
            r["names"] = {{v: x.name for v, x in env.items()}}
            r["built"] = C07.jsonable(C07.observe(root, deep=dp))
            import cloudpickle
            try:
                r["child_pickle"] = base64.b64encode(cloudpickle.dumps(root)).decode()
            except Exception:
                if not C07.S.unpicklable(it["prog"]):
                    raise
                r["child_pickle"] = None
            del env, root
        for key in ("pickle_before", "pickle_after"):
            if it.get(key):
                if it.get("cfg"):
                    # sender ran another configuration: names do not encode configuration, so nothing with these names
                    # may be alive here when the pickle is loaded (else the singleton registry answers instead of the pickle)
                    u = None
                    C07.clear_registries()
                u = pickle.loads(base64.b64decode(it[key]))
                r[key] = C07.jsonable(C07.observe(u, deep=dp))
    except Exception as e:
        r["error"] = type(e).__name__ + ": " + str(e)[:200]
    out[str(it["id"])] = r
print("\n@@RESULT@@" + json.dumps(out))
"""


def clear_registries():
    import gc

    gc.collect()
    for d in N.Registry._caches():
        d.clear()


def run_child(items, hashseed):
    p = subprocess.run(
        [sys.executable, "-c", CHILD.format(verif=str(core.VERIF))],
        input=json.dumps({"items": items}), capture_output=True, text=True, timeout=900, env=N.child_env(hashseed), cwd=str(core.VERIF),
    )
    try:
        return json.loads(p.stdout.split("@@RESULT@@")[-1])
    except Exception:
        raise RuntimeError("C07 child process failed: " + p.stderr[-800:])


# ------------------------------------------------------------------ the run

def run(ctx, replay=None):
    import cloudpickle
    import dask

    rng = ctx.rng
    ctx.rule = (
        "random DSL programs (25 ops, rank<=3, dims<=6, random chunkings; 1 in 6 with a source documented as untokenizable: "
        "from_array(name=False) or a source object whose tokenization raises); each is built twice in-process, rebuilt in fresh "
        "subprocesses with other PYTHONHASHSEEDs, pickled with pickle and cloudpickle before and after its caches are populated, "
        "unpickled in-process (also with emptied singleton registries) and in the other process (both directions); "
        "a case is distinct by (check kind, root op, exception kind); PLUS in every run the grids of c07_sources: every from_array "
        "keyword value (lock False/None/True/SerializableLock(name)/SerializableLock()/threading.Lock/RLock, getitem, meta, asarray, "
        "inline_array, name, fancy, chunks spellings), every data container, asarray/asanyarray/array, every creation function and "
        "seeded random API (Generator, RandomState, module level), from_delayed/from_map/fromfunction/from_npy_stack, store targets x "
        "locks x regions, and in-place updates (setitem, mask setitem, ufunc out=, reduction out=, compute_chunk_sizes, _chunks setter) "
        "x reads before/after (keys, Frisky keys, graph, name, chunks, lowered) -- each also compared with the same program without the "
        "reads and scheduled by hand for the advertised keys; determinism is required exactly when dask.tokenize says the argument "
        "objects tokenize deterministically and equally; PLUS array-valued parameters: every distribution of the random API (Generator / "
        "RandomState / module level rotating with the seed) with NumPy-array parameters in every layout (1-d, column, full size, strided, "
        "read-only, Fortran, 0-d), lists and NumPy scalars, multinomial pvals, choice population / p, and NumPy / list operands of 27 ordinary "
        "API calls (x+A, A+x, np.add(A,x), where, clip, isin, digitize, histogram, take, x[A], concatenate, stack, append, insert, tensordot, "
        "matmul, einsum, map_blocks / blockwise literals, full, full_like, pad, x[i]=A, average weights); PLUS configuration histories "
        "(props_ext/c07_history.py): for every lazily read option (enumerated from the source) a program sensitive to it (tree reductions of "
        "every family over many blocks, many-block rechunks, chunks='auto', aligned multi-operand nodes) is built and materialized under "
        "configuration X and kept alive (or dropped), then rebuilt under Y: names, keys, chunks, dtype, optimized graph keys and values "
        "must equal a build under Y from clean registries and in a fresh process; PLUS source variants (props_ext/c07_layouts.py): "
        "the grid of 12 core memory representations x writable / read-only / read-only view x 7 core entry points on a dtype and shape "
        "rotating with the seed, every other representation and entry point with the read-only Fortran / permuted / negative-stride "
        "variants, every dtype and shape class, np.ma / matrix / recarray containers, cross-process for read-only non-C variants, "
        "random cases over the product; a case is distinct by (entry, representation, flag, container) and (dtype, rank)"
    )
    ctx.assumptions = [
        "dask.tokenize of NumPy data, tuples, ints, dtypes and module-level functions is a pure function of the value (trusted; exercised by the subprocess runs)",
        "static scan of naming code is an AST approximation (functions named _name/__dask_tokenize__/deterministic_token/_info/_tokenize* and name-building call sites)",
        "documented exceptions (Props/C07.lean `documentedExceptions`): per-instance and pickle stability only",
    ]
    ctx.extra["trusted_base"] = [
        "C07: pickle/cloudpickle and dask.tokenize are trusted; fresh-process determinism is sampled (other PYTHONHASHSEEDs), not proved",
    ]
    cfg_of = {}
    ext_ids = set()
    light_ids = set()
    hist_cases = []
    layout_cases = []
    if replay is not None and replay.get("case", replay).get("kind") == L.KIND:
        layout_cases = [{k: v for k, v in replay.get("case", replay).items() if k not in ("oracle", "differences", "layouts")}]
        progs = []
    elif replay is not None and replay.get("case", replay).get("kind") == "cfg-history":
        hist_cases = [{k: v for k, v in replay.get("case", replay).items() if k not in ("oracle", "differences")}]
        progs = []
    elif replay is not None:
        case = replay.get("case", replay)
        progs = [case["program"]] if "program" in case else []
        if progs and case.get("config"):
            cfg_of[0] = case["config"]
    else:
        progs = [copy.deepcopy(p) for p in FIXED_PROBES]
        for prog, cfg in config_programs(rng, ctx.scale(6, 40)):
            try:
                run_np(prog)
            except Exception:
                continue
            cfg_of[len(progs)] = cfg
            progs.append(prog)
        NP = ctx.scale(40, 400) + len(progs)
        GEN = dict(avoid=("swv-consumer",), zero_axes=0)
        while len(progs) < NP:
            prog, _g = programs.gen_program(rng, depth=rng.randint(1, 6), **GEN)
            if rng.random() < 0.15:
                prog = N.add_astype(rng, prog)
            r = rng.random()
            if r < 1 / 6:
                srcs = [st for st in prog if st["op"] == "src"]
                rng.choice(srcs)["exception"] = rng.choice(["name=False", "untokenizable"])
            if rng.random() < 0.12:
                # a blockwise / map_blocks node carrying a literal str / bytes argument on top
                last = prog[-1]["out"]
                prog.append(rng.choice([
                    {"op": "mb_sort", "args": [last], "kind": rng.choice(["stable", "quicksort"]), "out": "s1"},
                    {"op": "bw_einsum", "args": [last], "out": "s1"},
                    {"op": "mb_tag", "args": [last], "label": rng.choice(["a", "label", "ij->ij"]), "enc": rng.choice(["", "utf8"]), "out": "s1"},
                ]))
            try:
                with np.errstate(all="ignore"):
                    run_np(prog)
            except Exception:
                continue
            progs.append(prog)
        # ---- sources / creation / random / store / reads-and-in-place-updates (props_ext/c07_sources.py): the keyword grids
        #      are enumerated in EVERY run, random combinations on top
        ext = (S.source_programs(rng, apply_step, ctx.scale(10, 80)) + S.creation_programs(rng, apply_step, ctx.scale(4, 60))
               + S.store_programs(rng, apply_step, ctx.scale(3, 30)) + S.inplace_programs(rng, apply_step, ctx.scale(8, 120))
               # array-valued parameters of EVERY distribution (NumPy arrays in every layout, lists, NumPy scalars) and NumPy /
               # list operands of ordinary API calls
               + S.array_param_programs(rng, apply_step, ctx.scale(4, 60), rotate=ctx.seed, quick=ctx.tier == "quick"))
        for label, prog in ext:
            ctx.count(label)
            ext_ids.add(len(progs))
            if ctx.tier == "quick" and label[0] in ("create-array-param", "array-operand"):
                light_ids.add(len(progs))  # two of the six in-process pickle round trips (rotating), see in_process
            progs.append(prog)
        ctx.notes["extension_programs"] = dict(collections.Counter(l[0] for l, _ in ext))
        # ---- names / optimized graph keys after a HISTORY under another configuration (props_ext/c07_history.py): every
        #      lazily read option (enumerated from the source) on programs sensitive to it, in every run
        hist_cases = H.gen_cases(rng, ctx.scale(12, 200), rotate=ctx.seed)
        # ---- equal NumPy inputs in different memory representations / writeability (props_ext/c07_layouts.py), in every run
        layout_cases = L.gen_cases(rng, ctx.scale(30, 1500), rotate=ctx.seed)

    if layout_cases:
        # runs first: nothing else has been built in this process yet (its fresh interpreter is one more process, ~1 s)
        layout_runner = L.run_stream(ctx, layout_cases, wait=False)
    reg = N.Registry(ctx, 0)  # only for `isolated` (emptied registries); the constructor hook is NOT installed
    items = []
    kept = []
    stats = collections.Counter()
    with dask.config.set(scheduler="sync"):
        for pid, prog in enumerate(progs):
            cfg = cfg_of.get(pid, {})
            with dask.config.set(cfg):
                rec = in_process(ctx, reg, pid, prog, stats, cfg, light=pid in light_ids)
            if rec is None:
                continue
            kept.append(rec)
            # the fresh process always runs dask's DEFAULT configuration: for `cfg` programs sender and receiver differ
            items.append({"id": pid, "prog": prog, "root": rec["root"], "pickle_before": rec["pickle_before"], "pickle_after": rec["pickle_after"], "cfg": bool(cfg),
                          # grid programs of the extension streams visit ONE of the two other hash seeds (alternating), everything else both
                          "one_seed": (pid % 2) if pid in ext_ids and ctx.tier == "quick" else None})
        # ---- configuration histories: in-process part now (clean registries at the start of each case; nothing of the
        #      programs above is needed alive any more), the fresh-process oracle rides along with the jobs below
        hist_obs = {}
        hist_seen = set()
        for k, hc in enumerate(hist_cases):
            o = H.check_case(ctx, hc, hist_seen)
            if o is not None:
                hid = 1_000_000 + k
                hist_obs[hid] = (hc, o)
                items.append({"id": hid, "hist": True, "prog": hc["program"], "config": hc.get("config") or {}, "one_seed": k % 2 if replay is None else None})
        ctx.notes["cfg_history_cases"] = len(hist_cases)
        # ---- fresh processes (parallel), every program under two other hash seeds
        seeds = [1, 4242]
        nchunk = ctx.scale(3, 6)
        jobs = []
        for s in seeds:
            for k in range(nchunk):
                part = [it for it in items[k::nchunk] if it["one_seed"] is None or seeds[it["one_seed"]] == s]
                if part:
                    jobs.append((part, s))
        with ThreadPoolExecutor(max_workers=ctx.scale(6, 8)) as ex:
            results = list(ex.map(lambda j: (j[1], run_child(j[0], j[1])), jobs))
        by_id = {rec["id"]: rec for rec in kept}
        for seed, res in results:
            for sid, r in res.items():
                if int(sid) in hist_obs:
                    if "hist_built" in r:
                        H.compare_fresh(ctx, hist_obs[int(sid)][0], hist_obs[int(sid)][1], r["hist_built"], seed, hist_seen)
                    else:
                        stats["child-exc"] += 1
                        ctx.notes.setdefault("child_errors", []).append(str(r.get("error"))[:160])
                    continue
                cross_process(ctx, by_id[int(sid)], r, seed, stats)
    if layout_cases:
        layout_runner.finish_fresh()
    ctx.notes["c07"] = dict(stats)
    ctx.notes["programs"] = len(progs)
    ctx.notes["programs_with_documented_exception_source"] = sum(has_exception(p) for p in progs)
    ctx.notes["programs_pickled_under_another_configuration"] = len(cfg_of)
    if kept:
        ctx.sample({"kind": "program", "program": kept[len(kept) // 2]["prog"]})


SIG_CHOICE = "random:generator-choice-recompute"  # known finding shared with C23
SIG_RANDOM_ARRAY = "random:array-param-node-rebuilt"  # known finding shared with C23
SIG_CHOICE_ARRAY = "random:choice-array-population-node-rebuilt"  # known finding shared with C23


def fail(ctx, sig, rec, what, **kw):
    # family found on the unchanged tree (reported): Generator.choice puts LIVE BitGenerator objects into the graph
    # (`RandomChoiceGenerator.state_data = _spawn_bitgens(...)`, `_choice_rng` advances them in place): computing the
    # same collection twice, a second build with the same name, and a pickle round trip give other values (and, when the
    # node is re-created by a rewrite, other inner graph keys).  One narrow signature for the whole family.
    d = kw.get("differences")
    # (a NumPy-array parameter under a rewrite that leaves an EMPTY result — an empty slice — shows the re-created node
    # in the inner graph keys only: there are no values left to differ)
    if isinstance(d, dict) and set(d) <= {"values", "graph_values", "graph_keys"} and ("values" in d or S.has_array_param(rec["prog"])):
        fns = {st["fn"] for st in rec["prog"] if st["op"] == "create"}
        if fns & {"rng.choice", "rng.choice_a"}:
            what = f"[{sig}] {what}"
            sig = SIG_CHOICE
        elif fns & set(S.ARRAY_ARG_FNS) or S.has_array_param(rec["prog"]):
            # sibling families (known): the root RNG is consumed again whenever a rewrite re-creates the node (a NumPy-array
            # parameter / population is wrapped into a dask array by the random API, so it is the same family)
            what = f"[{sig}] {what}"
            sig = SIG_CHOICE_ARRAY if ("rs.choice_a" in fns or S.has_array_param(rec["prog"]) == "choice") else SIG_RANDOM_ARRAY
    case = {"program": rec["prog"], "root": rec["root"]}
    if rec.get("config"):
        case["config"] = rec["config"]
    case.update(kw)
    ctx.fail(sig, case, what)


def classify_graph_keys(a, b):
    """Sub-class of a graph-key difference: ':fused-group-order' when the two key sets differ only in names of fused
    groups whose member operations are the same up to ORDER (`sub-mul-clip-<t1>` vs `sub-clip-mul-<t2>`) and in the
    tokens of nodes downstream of such groups."""
    na, nb = set(a.get("graph_names") or []), set(b.get("graph_names") or [])
    da_, db_ = na - nb, nb - na
    if not da_ or len(da_) != len(db_):
        return ""
    raw = lambda n: tuple(p for p in n.split("-") if not re.fullmatch(r"(rc1|fm1)?[0-9a-f]{16,}", p))  # drop tokens
    # groups of more than four members are named `<first>-fused-<last>-<token>`: only the first member is order-independent
    norm = lambda n: (raw(n)[0], "fused") if "fused" in raw(n) else tuple(sorted(raw(n)))
    # same operations on both sides (tokens aside) and a FusedBlockwise group among the differing names on each side
    # (its members are listed in another order, so its token differs); nodes downstream differ in their token only
    fused = set(a.get("fused_names") or []) | set(b.get("fused_names") or [])
    if sorted(map(norm, da_)) == sorted(map(norm, db_)) and (da_ & fused) and (db_ & fused):
        return ":fused-group-order"
    return ""


def diff(a, b, fields):
    return {f: (a.get(f), b.get(f)) for f in fields if a.get(f) != b.get(f)}


FIELDS = ("name", "dask_keys", "chunks", "dtype", "frisky", "values", "keys_belong")
FIELDS_G = FIELDS + ("graph_keys",)
FIELDS_DEEP = FIELDS_G + ("graph_values",)


def build_without_reads(prog):
    """the twin program: every `peek` step is an alias (nobody looked at keys / graph before the in-place updates)"""
    S.STRIP_PEEKS = True
    try:
        return run_da(copy.deepcopy(prog))
    finally:
        S.STRIP_PEEKS = False


def in_process(ctx, reg, pid, prog, stats, cfg=None, light=False):
    import cloudpickle

    exc = has_exception(prog)
    dp = deep(prog)
    fields_g = FIELDS_DEEP if dp else FIELDS_G
    # what a PICKLE must keep.  Inner optimized graph keys are compared too, except when a store target / lock has no
    # deterministic tokenization: a blockwise node re-created by a rewrite after unpickling then tokenizes the NEW
    # instance by identity (documented `token_or_identity` fallback: per-instance only)
    fields_p = tuple(f for f in fields_g if f != "graph_keys") if id_fallback_argument(prog) else fields_g
    try:
        envA = run_da(prog)
        envB = run_da(copy.deepcopy(prog))  # envA stays alive: equal-but-distinct argument objects coexist
    except Exception as e:
        stats["build-exc"] += 1
        ctx.notes.setdefault("build_exc_samples", {}).setdefault(type(e).__name__ + ": " + str(e)[:80], prog[-1]["op"])
        return None
    root = prog[-1]["out"]
    rec = {"id": pid, "prog": prog, "root": root, "exception": exc, "op": prog[-1]["op"], "config": dict(cfg or {}), "deep": dp}
    A, B = envA[root], envB[root]
    kind = exception_kind(prog)
    ctx.count(("in-process", prog[-1]["op"], kind))
    # 1. pickle BEFORE anything is cached (remember which nodes had not resolved their chunks yet)
    try:
        rec["chunks_unresolved_at_pickle"] = sorted({type(n).__name__ for n in A.expr.walk() if "chunks" not in n.__dict__})
        rec["root_chunks_unresolved_at_pickle"] = "chunks" not in A.expr.__dict__
    except Exception:
        rec["chunks_unresolved_at_pickle"] = []
        rec["root_chunks_unresolved_at_pickle"] = False
    picklable = True
    p_before = {}
    use_std = True
    try:
        rec["pickle_before"] = base64.b64encode(cloudpickle.dumps(A)).decode()
        p_before = {"cloudpickle": cloudpickle.dumps(A)}
        try:
            p_before["pickle"] = pickle.dumps(A)
        except Exception:
            # stdlib pickle cannot ship the harness's own lambdas (map_blocks block functions): cloudpickle only
            use_std = False
            stats["stdlib-pickle-skipped(lambda in program)"] += 1
    except Exception as e:
        if S.unpicklable(prog):
            # an ARGUMENT of the program (a threading lock) cannot be pickled by anybody: a refusal, not a defect
            stats["pickle-refused(unpicklable argument object)"] += 1
            picklable = False
            rec["pickle_before"] = None
        else:
            stats["pickle-exc"] += 1
            fail(ctx, "pickle:raises", rec, f"pickling the collection raises {type(e).__name__}: {str(e)[:120]}")
            return None
    # 2. same instance, same name twice; names of the two builds
    if A.name != envA[root].name or observe(A, compute=False)["name"] != A.name:
        fail(ctx, "name:unstable-per-instance", rec, "the same collection reports two names")
    for st in prog:
        # from_array(name="str"): the exact name is the caller's
        if st["op"] == "src" and isinstance((st.get("fa") or {}).get("name"), str) and st["fa"].get("via", "from_array") == "from_array":
            if not S.has_update(prog) and envA[st["out"]].name != st["fa"]["name"]:
                fail(ctx, "name:exact-name-not-used", rec, f"from_array(name={st['fa']['name']!r}) is named {envA[st['out']].name!r}", var=st["out"])
    if not exc:
        for v in envA:
            ctx.traces += 1
            if envA[v].name != envB[v].name:
                fail(ctx, "name:differs-between-builds-in-process", rec, f"variable {v} gets different names in two builds of one program",
                     var=v, name_a=envA[v].name, name_b=envB[v].name)
                break
    # 3. observables (this populates the caches of A)
    oA = observe(A, deep=dp)
    if oA["values"].startswith("err") or str(oA["graph_keys"]).startswith("err"):
        stats["compute-exc(known families / refusals)"] += 1
        ctx.notes.setdefault("compute_exc_ops", {}).setdefault(prog[-1]["op"], oA["values"] if oA["values"].startswith("err") else oA["graph_keys"])
        rec["obs"] = None
        rec["pickle_after"] = None
        return rec
    oA = jsonable(oA)
    rec["obs"] = oA
    if S.is_random(prog):
        # the same collection computed a second time
        again = observe(A, deep=dp)["values"]
        ctx.traces += 1
        if again != oA["values"]:
            fail(ctx, "same-collection:values-differ-between-computes", rec, "computing the same collection twice gives different values",
                 differences={"values": [oA["values"], again]})
    if oA["keys_belong"] != "ok":
        fail(ctx, "keys:not-of-this-collection", rec, "an advertised key (__dask_keys__) " + oA["keys_belong"][4:] if oA["keys_belong"].startswith("key ") else "checking the advertised keys: " + oA["keys_belong"],
             name=oA["name"], detail=oA["keys_belong"])
    try:
        want = run_np(prog)[root]
        if not S.is_random(prog) and val_hash(want) != oA["values"] and np.asarray(want).dtype == np.dtype(oA["dtype"]):
            stats["value-differs-from-numpy(not this property)"] += 1
    except Exception:
        pass
    if not exc:
        oB = jsonable(observe(B, deep=dp))
        d = diff(oA, oB, fields_g)
        if d:
            fail(ctx, "build-twice:" + ",".join(sorted(d)), rec, "two in-process builds of one program differ", differences=jsonable(d))
    # 3b. somebody READ keys / graph before an in-place update: the same program without those reads must give the same
    #     collection (name, keys, Frisky keys, graph keys, values through the advertised keys)
    if S.has_peek(prog) and not exc:
        ctx.traces += 1
        ctx.count(("read-before-update", tuple(st["op"] for st in prog if st["op"] in S.UPDATES or st["op"] == "compute_chunk_sizes"),
                   tuple(st["what"] for st in prog if st["op"] == "peek")))
        try:
            envC = build_without_reads(prog)
            oC = jsonable(observe(envC[root], deep=dp))
        except Exception as e:
            fail(ctx, "reads-change-collection:raises", rec, f"the program without its reads raises {type(e).__name__}: {str(e)[:120]}")
            oC = None
        if oC is not None:
            d = diff(oA, oC, fields_g)
            if d:
                fail(ctx, "reads-change-collection:" + ",".join(sorted(d)), rec,
                     "reading keys / graph / metadata of a collection before an in-place update changes what it advertises afterwards "
                     "(compared with the same program without the reads)", differences=jsonable(d))
    if not picklable:
        rec["pickle_after"] = None
        stats["in-process-ok(no pickle)"] += 1
        return rec
    # 4. pickle AFTER caches are populated
    A.__dask_keys__()
    rec["pickle_after"] = base64.b64encode(cloudpickle.dumps(A)).decode()
    p_after = {"cloudpickle": cloudpickle.dumps(A)}
    if use_std:
        p_after["pickle"] = pickle.dumps(A)
    combos = [(when, lib, isolated) for when, blobs in (("before", p_before), ("after", p_after)) for lib in blobs
              for isolated in ((False, True) if lib == "cloudpickle" else (False,))]
    if light:
        # grid programs of the array-parameter streams (quick tier): one round trip with emptied registries (a real
        # reconstruction) and one other, rotating with the program index; cross-process pickles are all kept
        iso = [c for c in combos if c[2]]
        oth = [c for c in combos if not c[2]]
        combos = [iso[pid % len(iso)], oth[pid % len(oth)]]
    for when, lib, isolated in combos:
        blob = (p_before if when == "before" else p_after)[lib]
        ctx.traces += 1
        ctx.count(("roundtrip", when, lib, isolated))
        try:
            if isolated:
                u = reg.isolated(lambda: pickle.loads(blob))
                oU = jsonable(reg.isolated(lambda: observe(u, deep=dp)))
            else:
                u = pickle.loads(blob)
                oU = jsonable(observe(u, deep=dp))
        except Exception as e:
            import traceback

            fail(ctx, "pickle:roundtrip-raises", rec, f"unpickling/observing raises {type(e).__name__}: {str(e)[:160]}", when=when, lib=lib,
                 emptied_registries=isolated, traceback=traceback.format_exc()[-1800:])
            return rec
        d = diff(oA, oU, fields_p)
        if d:
            fail(ctx, "pickle:in-process:" + ",".join(sorted(d)), rec, "a pickled and unpickled collection differs from the original",
                 when=when, lib=lib, emptied_registries=isolated, differences=jsonable(d))
            return rec
    stats["in-process-ok"] += 1
    return rec


def cross_process(ctx, rec, r, seed, stats):
    import dask

    if "error" in r:
        stats["child-exc"] += 1
        if rec.get("obs") is not None:
            ctx.notes.setdefault("child_errors", []).append(r["error"][:160])
            ctx.notes["child_errors"] = ctx.notes["child_errors"][-5:]
        return
    exc = rec["exception"]
    oA = rec.get("obs")
    ctx.count(("cross-process", rec["op"], exc, seed))
    if oA is None:
        return
    cfg = rec.get("config") or {}
    # sender and receiver run DIFFERENT configurations: rebuilding there is another input, and the optimized graph may
    # legitimately differ; what a pickle must keep is name, keys, chunks, dtype, Frisky keys, values
    fields_g = FIELDS_DEEP if rec.get("deep") else FIELDS_G
    fields = FIELDS if cfg else fields_g
    if id_fallback_argument(rec["prog"]):
        fields = tuple(f for f in fields if f != "graph_keys")
    # (i) rebuilt in the fresh process
    if not exc and not cfg:
        ctx.traces += 1
        d = diff(oA, r["built"], fields_g)
        if d:
            sub = classify_graph_keys(oA, r["built"]) if set(d) == {"graph_keys"} else ""
            if sub:
                d["graph_names_only_here"] = sorted(set(oA["graph_names"]) - set(r["built"]["graph_names"]))
                d["graph_names_only_there"] = sorted(set(r["built"]["graph_names"]) - set(oA["graph_names"]))
            fail(ctx, "fresh-process:" + ",".join(sorted(k for k in d if not k.startswith("graph_names_"))) + sub, rec, f"the program built in a fresh process (PYTHONHASHSEED={seed}) differs",
                 hashseed=seed, differences=jsonable(d))
            return
    # (ii) parent's pickles loaded in the fresh process
    cfg_failed = False
    for key in ("pickle_before", "pickle_after"):
        if key in r:
            ctx.traces += 1
            ctx.count(("to-fresh-process", key, bool(rec.get("deep"))))
            d = diff(oA, r[key], fields)
            if d and cfg:
                # family found on the unchanged tree: the ROOT's chunks had never been looked at when it was pickled
                # (`from_array(x, chunks="auto")` alone; one elementwise op over differently chunked operands) and are
                # resolved lazily against the configuration of whoever asks first -- here the receiver; values agree
                lazy = key == "pickle_before" and rec.get("root_chunks_unresolved_at_pickle") and set(d) <= {"chunks", "dask_keys", "frisky"}
                sig = "pickle:other-config:lazy-chunks-unresolved" if lazy else "pickle:other-config:" + ",".join(sorted(d))
                fail(ctx, sig, rec, f"pickled under {cfg}, unpickled in a fresh process with the default configuration: the collection differs from the original",
                     which=key, hashseed=seed, differences=jsonable(d), receiver_config="defaults",
                     chunks_unresolved_at_pickle=rec.get("chunks_unresolved_at_pickle") if key == "pickle_before" else [])
                cfg_failed = True
                continue
            if d and set(d) == {"graph_keys"} and classify_graph_keys(oA, r[key]):
                # the known optimizer family (another hash seed orders fused groups differently), reached through a pickle
                d["graph_names_only_here"] = sorted(set(oA["graph_names"]) - set(r[key]["graph_names"]))
                d["graph_names_only_there"] = sorted(set(r[key]["graph_names"]) - set(oA["graph_names"]))
                fail(ctx, "fresh-process:graph_keys:fused-group-order", rec, f"the collection unpickled in a fresh process (PYTHONHASHSEED={seed}) optimizes to other graph keys",
                     path=key, hashseed=seed, differences=jsonable(d))
                return
            if d:
                fail(ctx, "pickle:to-fresh-process:" + ",".join(sorted(d)), rec, f"the collection unpickled in a fresh process (PYTHONHASHSEED={seed}) differs from the original",
                     which=key, hashseed=seed, differences=jsonable(d))
                return
    # (iii) the child's pickle loaded here (not for other-configuration items: the receiver does not rebuild them)
    if cfg:
        stats["other-config-ok" if not cfg_failed else "other-config-differs"] += 1
        return
    if r.get("child_pickle") is None:
        stats["cross-process-ok(no pickle: unpicklable argument object)"] += 1
        return
    try:
        with dask.config.set(cfg):
            u = pickle.loads(base64.b64decode(r["child_pickle"]))
            oU = jsonable(observe(u, deep=bool(rec.get("deep"))))
    except Exception as e:
        fail(ctx, "pickle:from-fresh-process-raises", rec, f"unpickling the fresh process's collection raises {type(e).__name__}: {str(e)[:120]}")
        return
    ctx.traces += 1
    d = diff(jsonable(r["built"]), oU, fields)
    if d and cfg:
        fail(ctx, "pickle:other-config:from-fresh-process:" + ",".join(sorted(d)), rec,
             f"built and pickled under the default configuration, unpickled here under {cfg}: the collection changes", hashseed=seed, differences=jsonable(d))
        return
    if d and set(d) == {"graph_keys"} and classify_graph_keys(r["built"], oU):
        d["graph_names_only_there"] = sorted(set(r["built"]["graph_names"]) - set(oU["graph_names"]))
        d["graph_names_only_here"] = sorted(set(oU["graph_names"]) - set(r["built"]["graph_names"]))
        fail(ctx, "fresh-process:graph_keys:fused-group-order", rec, f"the collection pickled in a fresh process (PYTHONHASHSEED={seed}) optimizes to other graph keys here",
             path="child_pickle", hashseed=seed, differences=jsonable(d))
        return
    if d:
        fail(ctx, "pickle:from-fresh-process:" + ",".join(sorted(d)), rec, "the fresh process's collection changes when unpickled here", hashseed=seed, differences=jsonable(d))
        return
    stats["cross-process-ok"] += 1
