"""C13 — slice algebra helpers are exact.

Correspondence: Lean models (Py/Basic.lean, Model/Slicing.lean) vs CPython and
dask_array.slicing._utils / _basic on the same inputs.
Search: brute-force oracles on the real helpers and at API level.
"""
from __future__ import annotations

import bisect
import itertools

import numpy as np

from harness import gen
from harness.core import err_name, f_list, f_ll, f_opt, f_slice, p_slice
from harness.props_ext import c13_typed


def impl_call(fn, fmt):
    try:
        return fmt(fn())
    except (NotImplementedError, IndexError, ValueError, TypeError, ZeroDivisionError, AssertionError) as e:
        return err_name(e)


def fmt_plan(d):
    items = sorted(d.items())
    return "ok " + ";".join(f"{k}={f_slice(v)}" for k, v in items)


def py_pairs(ctx, nrand):
    """CPython primitives vs Py/Basic.lean."""
    import tlz

    rng = ctx.rng
    out = []
    # exhaustive small
    for n in range(0, 5):
        for a, b, c in itertools.product(gen.slice_values(n), gen.slice_values(n), (None, 1, 2, -1, -2, 3, -3)):
            s = slice(a, b, c)
            out.append((f"py.indices {f_slice(s)} {n}", "ok " + " ".join(map(str, s.indices(n)))))
    for a in range(-6, 7):
        for b in range(-4, 5):
            if b:
                out.append((f"py.mod {a} {b}", f"ok {a % b}"))
                out.append((f"py.div {a} {b}", f"ok {a // b}"))
                out.append((f"py.ceildiv {a} {b}", f"ok {-((-a) // b)}"))
    for _ in range(nrand):
        n = rng.choice([0, 1, 2, 7, 100, 10**6])
        s = gen.rand_slice(rng, n)
        out.append((f"py.indices {f_slice(s)} {n}", "ok " + " ".join(map(str, s.indices(n)))))
        a, b = rng.randint(-30, 30), rng.randint(-30, 30)
        c = rng.choice([1, 2, 3, 7, -1, -2, -5])
        out.append((f"py.range {a} {b} {c}", "ok " + f_list(range(a, b, c))))
        x, y = rng.randint(-10**6, 10**6), rng.choice([1, 2, 3, 7, 1000, -1, -2, -3, -999])
        out.append((f"py.mod {x} {y}", f"ok {x % y}"))
        out.append((f"py.div {x} {y}", f"ok {x // y}"))
        l = sorted(rng.randint(0, 12) for _ in range(rng.randint(0, 8)))
        v = rng.randint(-1, 13)
        out.append((f"py.bisect_left {f_list(l)} {v}", f"ok {bisect.bisect_left(l, v)}"))
        out.append((f"py.bisect_right {f_list(l)} {v}", f"ok {bisect.bisect_right(l, v)}"))
        k = rng.randint(1, 5)
        l2 = [rng.randint(0, 9) for _ in range(rng.randint(0, 12))]
        out.append((f"py.partition_all {k} {f_list(l2)}", "ok " + f_ll(tlz.partition_all(k, l2))))
    return out


def run(ctx, replay=None):
    from dask_array.slicing import _utils as U
    from dask_array.slicing import _basic as B

    rng = ctx.rng
    ctx.rule = (
        "exhaustive small domain (all slices with bounds in [-n-2,n+2]∪{None}, 7 steps, all chunkings of n, n ≤ N) "
        "+ seeded random large inputs; a case is non-trivial/distinct by (function family, model output prefix, "
        "input size class) for correspondence and by (oracle, branch) for the brute-force search"
    )
    NEX = ctx.scale(4, 6)  # exhaustive bound
    NR = ctx.scale(3000, 30000)
    ctx.rule += ("; typed/large stream (props_ext/c13_typed.py): index elements of every integer type (python int, np.int8…np.uint64, "
                 "np.intp, bool slice bounds) with values near the type limits, dimensions 257…70000, 10**6, 2**31+7, 2**32+9, 2**40+11, "
                 "chunk edges at 255/256/257/65535/65536/65537/2**31/2**32, entering through normalize_index; distinct by (helper, "
                 "element types, dimension class)")
    if replay is not None:
        return replay_case(ctx, U, B, replay)

    # ---------------- corpus first
    # (past minimized disagreements live in corpus/C13/*.json as {"family","request"})
    # ---------------- correspondence
    ctx.correspond("py", py_pairs(ctx, NR))

    steps = (None, 1, 2, 3, -1, -2, -3)

    def slices_for(n):
        vals = gen.slice_values(n)
        for a, b, c in itertools.product(vals, vals, steps):
            yield slice(a, b, c)

    pairs = []
    for n in range(0, NEX + 2):
        for s in slices_for(n):
            pairs.append((f"sl.normalize {f_slice(s)} {n}", impl_call(lambda: U.normalize_slice(s, n), lambda r: "ok " + f_slice(r))))
    for _ in range(NR):
        n = rng.choice([0, 1, 2, 3, 10, 1000, 10**6])
        s = gen.rand_slice(rng, n)
        pairs.append((f"sl.normalize {f_slice(s)} {n}", impl_call(lambda: U.normalize_slice(s, n), lambda r: "ok " + f_slice(r))))
    ctx.correspond("normalize_slice", pairs)

    # fuse_slice
    pairs = []
    small = [None, 0, 1, 2, 3, 5, -1, -2]
    sl_small = [slice(a, b, c) for a in small for b in small for c in (None, 1, 2, 3, -1)]
    sub = rng.sample(sl_small, ctx.scale(60, 200))
    for a in sub:
        for b in sub:
            pairs.append((f"sl.fuse_ss {f_slice(a)} {f_slice(b)}", impl_call(lambda: U.fuse_slice(a, b), lambda r: "ok " + f_slice(r))))
        for i in (-2, -1, 0, 1, 2, 7):
            pairs.append((f"sl.fuse_si {f_slice(a)} {i}", impl_call(lambda: U.fuse_slice(a, i), lambda r: f"ok {r}")))
    ctx.correspond("fuse_slice", pairs)

    # _compose_slices
    pairs = []
    for _ in range(ctx.scale(4000, 40000)):
        n = rng.choice([0, 1, 2, 3, 5, 8, 13, 100])
        o = gen.rand_slice(rng, n, steps=(None, 1, 1, 1, 2, 3, -1, -2))
        i = gen.rand_slice(rng, n, steps=(None, 1, 1, 1, 2, -1))
        pairs.append((f"sl.compose {f_slice(o)} {f_slice(i)} {n}", impl_call(lambda: B._compose_slices(o, i, n), lambda r: "ok " + f_slice(r))))
    ctx.correspond("_compose_slices", pairs)

    # _slice_1d / new_blockdim on normalized indices (what normalize_index hands over) ...
    pairs = []
    cases_1d = []
    for n in range(1, NEX + 1):
        for cks in gen.compositions(n):
            for s in slices_for(n):
                cases_1d.append((n, cks, U.normalize_slice(s, n)))
    # ... zero-length chunks (arise after compute_chunk_sizes on boolean masks)
    for n in range(1, min(NEX, 4) + 1):
        for cks in gen.compositions(n, zeros=True, maxparts=4):
            if 0 not in cks:
                continue
            for s in slices_for(n):
                cases_1d.append((n, cks, U.normalize_slice(s, n)))
    # dedupe (normalisation collapses many)
    cases_1d = list(dict.fromkeys((n, c, (s.start, s.stop, s.step)) for n, c, s in cases_1d))
    for _ in range(NR):
        n = rng.choice([1, 2, 5, 17, 100, 1000, 10**6])
        cks = gen.rand_chunks(rng, n, zeros=0.2, maxparts=12)
        s = U.normalize_slice(gen.rand_slice(rng, n), n)
        cases_1d.append((n, cks, (s.start, s.stop, s.step)))
    ctx.notes["slice1d_cases"] = len(cases_1d)
    ctx.exhaustive = True
    ctx.extra["exhaustive_domain"] = f"_slice_1d/new_blockdim/normalize_slice: all chunkings of n≤{NEX} (zero-length chunks to n≤{min(NEX,4)}, ≤4 parts) × all slices with bounds in [-n-2,n+2]∪{{None}} × steps {steps}"
    for n, cks, st in cases_1d:
        s = slice(*st)
        pairs.append((f"sl.slice1d {n} {f_list(cks)} {f_slice(s)}", impl_call(lambda: U._slice_1d(n, list(cks), s), fmt_plan)))
        pairs.append((f"sl.new_blockdim {n} {f_list(cks)} {f_slice(s)}", impl_call(lambda: U.new_blockdim(n, list(cks), s), lambda r: "ok " + f_list(r))))
    ctx.correspond("_slice_1d+new_blockdim", pairs)

    pairs = []
    for _ in range(NR):
        n = rng.choice([1, 2, 5, 17, 100])
        cks = gen.rand_chunks(rng, n, zeros=0.2)
        i = rng.randint(0, n - 1)
        pairs.append((f"sl.slice1d_int {f_list(cks)} {i}", impl_call(lambda: U._slice_1d(n, list(cks), i), lambda d: "ok %d %d" % next(iter(d.items())))))
        s = gen.rand_slice(rng, n, steps=(None, 1, 1, 2, -1, -1, -2))
        pairs.append((f"sl.sliced_chunks {f_list(cks)} {f_slice(s)} {n}", impl_call(lambda: B._compute_sliced_chunks(tuple(cks), s, n), lambda r: "ok " + f_list(r))))
        a = rng.randint(0, n)
        ln = rng.randint(0, n - a)
        pairs.append((f"sl.slice_chunks {f_list(cks)} {a} {ln}", impl_call(lambda: B.SliceSlicesIntegers._slice_chunks(None, tuple(cks), a, ln), lambda r: "ok " + f_list(r))))
        v = rng.randint(-n - 2, n + 2)
        pairs.append((f"sl.posify {n} {v}", impl_call(lambda: U.posify_index(n, v), lambda r: f"ok {r}")))
        pairs.append((f"sl.check_index {v} {n}", impl_call(lambda: U.check_index(0, v, n), lambda r: "ok")))
    ctx.correspond("int/_compute_sliced_chunks/_slice_chunks/posify/check_index", pairs)

    # ---------------- every index element type x large dimensions (correspondence + brute force)
    typed_table = c13_typed.run_typed(ctx, U)

    # ---------------- property search on the real helpers (independent of the model)
    search(ctx, U, B, cases_1d, NEX)

    # ---------------- targeted search around disagreements
    if ctx.disagreements:
        targeted(ctx, U)
        n_api = c13_typed.targeted(ctx, U, typed_table)
        ctx.notes["targeted_search"] = ctx.notes.get("targeted_search", "") + f"; {n_api} API-level replays of typed disagreements"


def replay_case(ctx, U, B, replay):
    """re-run ONE failing case from its dict alone"""
    case = replay.get("case", replay) if isinstance(replay, dict) else {}
    fn = case.get("fn")
    ctx.count(("replay", fn))
    ctx.sample({"replay": case})
    sig = replay.get("sig", f"replay:{fn}")
    x = None
    if fn in ("normalize_index:slice", "normalize_index:int", "fuse_slice∘normalize_index", "_slice_1d∘normalize_index",
              "fuse_slice∘normalize_index:tuple"):
        r = c13_typed.check_case(U, {k: v for k, v in case.items() if k != "detail"})
        if r is not None:
            ctx.fail(r[0], {**case, "detail": r[2]}, r[1])
    elif fn == "api:typed-getitem":
        bad, how = c13_typed.replay_api(case)
        if bad:
            ctx.fail("api:typed-getitem", {**case, "how": how}, "typed chained getitem differs from NumPy")
    elif fn == "normalize_slice":
        n, s = case["dim"], p_slice(case["slice"])
        if list(range(n))[U.normalize_slice(s, n)] != list(range(n))[s]:
            ctx.fail(sig, case, "normalize_slice changes the selected positions")
    elif fn in ("_slice_1d", "new_blockdim"):
        n, cks, s = case["dim"], case["chunks"], p_slice(case["slice"])
        bad = slice_plan_problem(U, n, cks, s)
        if bad:
            ctx.fail(bad[0], case, bad[1])
    elif fn == "fuse_slice" and "shape" not in case:
        a = p_slice(case["a"])
        b = case["b"] if isinstance(case["b"], int) else p_slice(case["b"])
        x = list(range(9))
        if x[U.fuse_slice(a, b)] != x[a][b]:
            ctx.fail(sig, case, "fuse_slice(a,b) != a then b")
    elif fn == "fuse_slice":
        shape = tuple(case["shape"])
        arr = np.arange(int(np.prod(shape))).reshape(shape)
        ns = {"slice": slice, "None": None}
        a, b = eval(case["a"], {"__builtins__": {}}, ns), eval(case["b"], {"__builtins__": {}}, ns)
        try:
            ok = np.array_equal(arr[U.fuse_slice(a, b)], arr[a][b])
        except Exception:
            ok = False
        if not ok:
            ctx.fail(sig, case, "tuple fusion differs from sequential indexing")
    elif fn == "_compose_slices":
        n, o, i = case["dim"], p_slice(case["outer"]), p_slice(case["inner"])
        if list(range(n))[B._compose_slices(o, i, n)] != list(range(n))[o][i]:
            ctx.fail(sig, case, "composed unit-step slices differ")
    elif "api" in case:
        n, cks, s = case["n"], tuple(case["chunks"]), p_slice(case["slice"])
        import dask_array as da

        r = da.from_array(np.arange(n), chunks=(cks,))[s].compute()
        if not np.array_equal(r, np.arange(n)[s]):
            ctx.fail(sig, case, "x[slice] differs from NumPy")
    else:
        ctx.notes["replay"] = "not a replayable case dict (model-or-proof-broken payloads are re-run by the full check)"


def slice_plan_problem(U, n, cks, s):
    """P3 on one input: None or (signature, what)"""
    x = range(n)
    plan = U._slice_1d(n, list(cks), s)
    starts = [0]
    for c in cks:
        starts.append(starts[-1] + c)
    neg = (s.step or 1) < 0
    keys = sorted(plan, reverse=neg)
    pieces = [x[starts[k]: starts[k + 1]][plan[k]] for k in keys]
    want = x[s]
    got = [q for p in pieces for q in p]
    nb = U.new_blockdim(n, list(cks), s)
    if got != list(want):
        return ("_slice_1d:partition", "per-block slice plan does not partition the selected positions")
    if list(nb) != [len(p) for p in pieces] and len(want):
        return ("new_blockdim:lengths", "new_blockdim differs from per-block piece lengths")
    if sum(nb) != len(want):
        return ("new_blockdim:sum", "new_blockdim does not sum to the selection length")
    return None


def search(ctx, U, B, cases_1d, NEX):
    rng = ctx.rng
    # P1 normalize_slice preserves positions
    for n in range(0, NEX + 2):
        x = list(range(n))
        for a, b, c in itertools.product(gen.slice_values(n), gen.slice_values(n), (None, 1, 2, 3, -1, -2, -3)):
            s = slice(a, b, c)
            ns = U.normalize_slice(s, n)
            ctx.count(("P1", ns.start is None, ns.stop is None, ns.step))
            if x[ns] != x[s]:
                ctx.fail("normalize_slice:positions", {"fn": "normalize_slice", "slice": f_slice(s), "dim": n, "got": f_slice(ns)},
                         "normalize_slice changes the selected positions")
    # P3 slice plan partitions exactly
    for n, cks, st in cases_1d:
        s = slice(*st)
        x = range(n)   # (ranges slice lazily: only the selected positions are materialized)
        plan = U._slice_1d(n, list(cks), s)
        starts = [0]
        for c in cks:
            starts.append(starts[-1] + c)
        neg = (s.step or 1) < 0
        got = []
        keys = sorted(plan, reverse=neg)
        lens = []
        for k in keys:
            piece = x[starts[k]: starts[k + 1]][plan[k]]
            got.extend(piece)
            lens.append(len(piece))
        want = list(x[s])
        nb = U.new_blockdim(n, list(cks), s)
        ctx.count(("P3", neg, len(keys) > 1, 0 in cks, len(want) == 0))
        if got != want:
            ctx.fail("_slice_1d:partition", {"fn": "_slice_1d", "dim": n, "chunks": list(cks), "slice": f_slice(s), "got": got, "want": want},
                     "per-block slice plan does not partition the selected positions")
        elif list(nb) != lens and not (len(want) == 0):
            ctx.fail("new_blockdim:lengths", {"fn": "new_blockdim", "dim": n, "chunks": list(cks), "slice": f_slice(s), "got": list(nb), "want": lens},
                     "new_blockdim differs from per-block piece lengths")
        elif sum(nb) != len(want):
            ctx.fail("new_blockdim:sum", {"fn": "new_blockdim", "dim": n, "chunks": list(cks), "slice": f_slice(s), "got": list(nb), "want": len(want)},
                     "new_blockdim does not sum to the selection length")
    # P2 fuse_slice composition (tuples incl. ints and None)
    N = 9
    x = list(range(N))
    vals = [None, 0, 1, 2, 4, 8, 9, 12]
    sls = [slice(a, b, c) for a in vals for b in vals for c in (None, 1, 2, 3)]
    for a in sls:
        xa = x[a]
        for b in rng.sample(sls, ctx.scale(40, 200)):
            try:
                f = U.fuse_slice(a, b)
            except NotImplementedError:
                continue
            ctx.count(("P2", f.step, f.stop is None))
            if x[f] != xa[b]:
                ctx.fail("fuse_slice:compose", {"fn": "fuse_slice", "a": f_slice(a), "b": f_slice(b), "got": f_slice(f)}, "fuse_slice(a,b) != a then b")
        for i in range(len(xa)):
            f = U.fuse_slice(a, i)
            ctx.count(("P2i",))
            if x[f] != xa[i]:
                ctx.fail("fuse_slice:int", {"fn": "fuse_slice", "a": f_slice(a), "b": i, "got": f}, "fuse_slice(a,int) wrong")
    # n-d tuple fusion with None / ints vs numpy
    for _ in range(ctx.scale(1500, 20000)):
        shape = tuple(rng.randint(1, 5) for _ in range(rng.randint(1, 3)))
        arr = np.arange(int(np.prod(shape))).reshape(shape)

        def rnd_index(shp, allow_none):
            idx = []
            for d in shp:
                r = rng.random()
                if r < 0.25 and d > 0:
                    idx.append(rng.randint(0, d - 1))
                else:
                    idx.append(slice(rng.choice([None, 0, 1, 2]), rng.choice([None, 1, 2, 3, 5]), rng.choice([None, 1, 2])))
            if allow_none and rng.random() < 0.3:
                idx.insert(rng.randint(0, len(idx)), None)
            return tuple(idx[: rng.randint(1, len(idx))]) if rng.random() < 0.3 else tuple(idx)

        a = rnd_index(shape, True)
        mid = arr[a]
        if mid.ndim == 0 or 0 in mid.shape:
            continue
        b = rnd_index(mid.shape, True)
        try:
            f = U.fuse_slice(a, b)
        except NotImplementedError:
            continue
        except IndexError:
            # partial-length b ending in None: the helper raises (a refusal, never wrong data);
            # normalize_index always hands over full-length tuples
            ctx.notes["fuse_tuple_indexerror_refusals"] = ctx.notes.get("fuse_tuple_indexerror_refusals", 0) + 1
            continue
        ctx.count(("P2nd", len(a), len(b), sum(i is None for i in a + b)))
        try:
            ok = np.array_equal(arr[f], mid[b])
        except Exception:
            ok = False
        if not ok:
            ctx.fail("fuse_slice:tuple", {"fn": "fuse_slice", "shape": shape, "a": repr(a), "b": repr(b), "got": repr(f)}, "tuple fusion differs from sequential indexing")
    # P4 _compose_slices with unit steps (what FromArray._accept_slice uses)
    for _ in range(ctx.scale(3000, 30000)):
        n = rng.randint(0, 12)
        x = list(range(n))
        o = gen.rand_slice(rng, n, steps=(None, 1))
        i = gen.rand_slice(rng, n, steps=(None, 1))
        c = B._compose_slices(o, i, n)
        ctx.count(("P4", c.start == c.stop))
        if x[c] != x[o][i]:
            ctx.fail("_compose_slices:unit", {"fn": "_compose_slices", "outer": f_slice(o), "inner": f_slice(i), "dim": n, "got": f_slice(c)}, "composed unit-step slices differ")


def targeted(ctx, U):
    """Lift each model/implementation disagreement to API level and neighbours."""
    import dask_array as da

    tried = 0
    for d in ctx.disagreements[:50]:
        toks = d["request"].split()
        try:
            if toks[0] in ("sl.slice1d", "sl.new_blockdim"):
                n = int(toks[1])
                cks = tuple(int(t) for t in toks[2].split(",")) if toks[2] != "_" else ()
                from harness.core import p_slice

                s = p_slice(toks[3])
                x = np.arange(n)
                y = da.from_array(x, chunks=(cks,))[s]
                tried += 1
                r = y.compute()
                if not np.array_equal(r, x[s]) or sum(y.chunks[0]) != len(r):
                    ctx.fail("api:getitem", {"api": "from_array(arange(n),chunks)[s]", "n": n, "chunks": cks, "slice": f_slice(s), "got": r.tolist(), "want": x[s].tolist()}, "x[slice] differs from NumPy")
            elif toks[0] == "sl.normalize":
                from harness.core import p_slice

                s = p_slice(toks[1])
                n = int(toks[2])
                x = np.arange(n)
                for cks in ((n,), (1,) * n if n else (0,)):
                    tried += 1
                    r = da.from_array(x, chunks=(cks,))[s].compute()
                    if not np.array_equal(r, x[s]):
                        ctx.fail("api:getitem", {"api": "from_array(arange(n),chunks)[s]", "n": n, "chunks": cks, "slice": f_slice(s), "got": r.tolist(), "want": x[s].tolist()}, "x[slice] differs from NumPy")
        except Exception as e:
            ctx.fail("api:getitem-raises", {"request": d["request"], "error": repr(e)}, "API-level replay of a disagreeing helper input raises")
    ctx.notes["targeted_search"] = f"{tried} API-level replays of disagreeing helper inputs"
