"""C17 — chunk unification aligns operands without changing values or inflating blocks.

Correspondence (model = lean/DaskArrayModel/Model/Unify.lean via the `un.*` driver family):
  * `common_blockdim`, `coarse_blockdim` on sets of layouts (exhaustive small + random, every
    input order), error branches included;
  * the per-index part of `unify_chunks_expr` (policy switch, sentinel removal, size guard).  The
    float cost comparisons of the "auto" policy are an ORACLE of the model: the layouts in force
    before the size guard are recovered from the real run (same call with the limit disabled) and
    handed to the model, which also checks the relation every oracle value must satisfy.
Search (oracles independent of the model): programs built through the public API
(elemwise chains, `where`, `blockwise`; 2-4 operands, rank <= 3, broadcasting, int8/int32/float64)
under policies auto/coarse/refine x limits {None, tiny, medium, huge}.  Every (program, config)
point is evaluated from CLEAN state (DESIGN §8.7): the singleton expression registries and
`_LOWER_CACHE` are cleared, and `dask.config.set` wraps construction, unification, lowering and
compute.  A few points are re-evaluated in a fresh interpreter and compared.
"""
from __future__ import annotations

import itertools
import json
import subprocess
import sys
import warnings

import numpy as np

from harness import gen
from harness.core import VERIF, err_name, f_list, f_ll

DTYPES = ("int8", "int32", "float64")
POLICIES = ("auto", "coarse", "refine")


# --------------------------------------------------------------------------- helpers

def f_opt_lim(v):
    return "N" if v is None else str(int(v))


def impl_call(fn, fmt):
    try:
        return fmt(fn())
    except (ValueError, StopIteration, IndexError, TypeError, ZeroDivisionError, AssertionError) as e:
        return err_name(e)


def fmt_layout(r):
    return "ok " + f_list(int(v) for v in r)


def bset(c):
    """boundary positions of a layout (0, prefix sums, total)"""
    out = {0}
    s = 0
    for v in c:
        s += int(v)
        out.add(s)
    return out


def block_bytes(chunks, itemsize):
    """largest block in bytes: itemsize x product over axes of the largest chunk"""
    p = int(itemsize)
    for c in chunks:
        p *= max(int(v) for v in c)
    return p


def coarsen(rng, layout):
    """merge random runs of adjacent blocks (the result is refined by `layout`)"""
    out = []
    i = 0
    while i < len(layout):
        k = rng.choice([1, 1, 2, 3, len(layout)])
        out.append(sum(layout[i : i + k]))
        i += k
    return tuple(out)


def clear_state():
    """Forget every expression built so far: `_LOWER_CACHE` and the singleton registries make the
    layout of a re-built program depend on the configuration it was first built under."""
    import dask._expr as de
    from dask_array import _materialize

    _materialize._LOWER_CACHE.clear()
    stack = [de.SingletonExpr]
    while stack:
        c = stack.pop()
        stack.extend(c.__subclasses__())
        inst = c.__dict__.get("_instances")
        if inst is not None:
            inst.clear()


# --------------------------------------------------------------------------- programs

def make_array(spec, salt):
    """deterministic small-integer contents; `salt` varies the token (and so the names)"""
    shape = tuple(spec["shape"])
    n = int(np.prod(shape)) if shape else 1
    base = (np.arange(n, dtype="int64") * (spec.get("mul", 1)) + salt + spec.get("add", 0)) % 5
    dt = spec["dtype"]
    if dt == "bool":
        return (base % 2 == 0).reshape(shape)
    return base.astype(dt).reshape(shape)


def np_expand(a, ind, rank):
    """blockwise helper: place the axes of `a` (labels `ind`, rank-1-label = leading axis) into
    a full-rank array; output index is (rank-1, ..., 0)"""
    shape = [1] * rank
    for ax, lab in enumerate(ind):
        shape[rank - 1 - lab] = a.shape[ax]
    return a.reshape(shape)


class _BW:
    """block function for `da.blockwise`: weighted sum after aligning every block to full rank"""

    def __init__(self, inds, rank):
        self.inds = inds
        self.rank = rank

    def __call__(self, *blocks):
        out = 0
        for k, (b, ind) in enumerate(zip(blocks, self.inds)):
            out = out + (k + 1) * np_expand(np.asarray(b), ind, self.rank).astype("float64")
        return out


def build(case, da):
    """-> (dask array z, numpy expected, list of operand numpy arrays)"""
    ops = case["operands"]
    salt = case.get("salt", 0)
    nps = [make_array(o, salt + 7 * k) for k, o in enumerate(ops)]
    das = [da.from_array(a, chunks=tuple(tuple(c) for c in o["chunks"])) for a, o in zip(nps, ops)]
    kind = case["kind"]
    if kind == "self":
        return build_self(case, da)[:2]
    if kind == "chain":
        fn = {"add": (np.add, da.add), "mul": (np.multiply, da.multiply), "sub": (np.subtract, da.subtract),
              "max": (np.maximum, da.maximum)}
        z, e = das[0], nps[0]
        for k in range(1, len(das)):
            nf, df = fn[case["binops"][k - 1]]
            z, e = df(z, das[k]), nf(e, nps[k])
        return z, e
    if kind == "where":
        return da.where(das[0], das[1], das[2]), np.where(nps[0], nps[1], nps[2])
    if kind == "blockwise":
        rank = case["rank"]
        inds = [tuple(o["ind"]) for o in ops]
        f = _BW(inds, rank)
        args = []
        for d, ind in zip(das, inds):
            args += [d, ind]
        out_ind = tuple(range(rank - 1, -1, -1))
        z = da.blockwise(f, out_ind, *args, dtype="float64")
        e = 0
        for k, (a, ind) in enumerate(zip(nps, inds)):
            e = e + (k + 1) * np_expand(a, ind, rank).astype("float64")
        shape = np.broadcast_shapes(*[np_expand(a, ind, rank).shape for a, ind in zip(nps, inds)])
        return z, np.broadcast_to(e, shape)
    raise ValueError(kind)


LETTERS = "abcdefgh"


class _ES:
    """block function for `da.blockwise(..., concatenate=True)`: an einsum over the blocks"""

    def __init__(self, spec):
        self.spec = spec

    def __call__(self, *blocks):
        return np.einsum(self.spec, *[np.asarray(b, dtype="float64") for b in blocks])


def es_spec(inds, out):
    return ",".join("".join(LETTERS[j] for j in ind) for ind in inds) + "->" + "".join(LETTERS[j] for j in out)


def build_self(case, da):
    """programs in which ONE array occurs several times under different index patterns
    (`operands` lists the occurrences; occurrences with equal `src` are the same dask array)"""
    salt = case.get("salt", 0)
    srcs = {}
    nps, das = [], []
    for o in case["operands"]:
        if o["src"] not in srcs:
            a = make_array(o, salt + 7 * o["src"])
            srcs[o["src"]] = (a, da.from_array(a, chunks=tuple(tuple(c) for c in o["chunks"])))
        a, d = srcs[o["src"]]
        nps.append(a)
        das.append(d)
    form = case["form"]
    f8 = [a.astype("float64") for a in nps]
    if form in ("blockwise", "einsum"):
        inds = [tuple(o["ind"]) for o in case["operands"]]
        out = tuple(case["out"])
        spec = es_spec(inds, out)
        expect = np.einsum(spec, *f8)
        if form == "einsum":
            return da.einsum(spec, *das), np.einsum(spec, *nps), (das, inds)
        args = []
        for d, ind in zip(das, inds):
            args += [d, ind]
        return da.blockwise(_ES(spec), out, *args, concatenate=True, dtype="float64"), expect, (das, inds)
    if form == "matmul":
        return das[0] @ das[1], nps[0] @ nps[1], None
    if form == "matmul_T":
        return das[0] @ das[1].T, nps[0] @ nps[1].T, None
    if form == "T_matmul":
        return das[0].T @ das[1], nps[0].T @ nps[1], None
    if form == "tensordot":
        return da.tensordot(das[0], das[1], axes=([1], [0])), np.tensordot(nps[0], nps[1], axes=([1], [0])), None
    if form == "tensordot00":
        return da.tensordot(das[0], das[1], axes=([0], [0])), np.tensordot(nps[0], nps[1], axes=([0], [0])), None
    if form == "outer":
        return da.outer(das[0], das[1]), np.outer(nps[0], nps[1]), None
    raise ValueError(form)


def check_public_unify(da, das, inds, fails):
    """`da.unify_chunks` on the occurrences: every OCCURRENCE gets the common layout of its indices"""
    args = []
    for d, ind in zip(das, inds):
        args += [d, ind]
    chunkss, arrays = da.unify_chunks(*args)
    for k, (d, ind, b) in enumerate(zip(das, inds, arrays)):
        for n, j in enumerate(ind):
            want = tuple(chunkss[j]) if d.shape[n] != 1 else (1,)
            if tuple(b.chunks[n]) != want:
                fails.append(("unify_chunks:common-layout",
                              {"occurrence": k, "axis": n, "index": lab(j), "got": [list(map(int, c)) for c in b.chunks],
                               "chunkss": {str(lab(a)): list(map(int, v)) for a, v in chunkss.items()}},
                              "da.unify_chunks returns an occurrence that does not have the common layout of its index"))


def check_blocks(z, fails):
    """per-block shapes of the computed result match the advertised chunks (first and last block)"""
    nb = z.numblocks
    for idx in dict.fromkeys([tuple(0 for _ in nb), tuple(n - 1 for n in nb)]):
        want = tuple(int(z.chunks[d][i]) for d, i in enumerate(idx))
        got = tuple(np.asarray(z.blocks[idx].compute()).shape)
        if got != want:
            fails.append(("api:block-shape", {"block": list(idx), "got": list(got), "want": list(want)},
                          "a computed block's shape differs from the advertised chunks"))


def lab(j):
    """index label -> JSON-able"""
    return int(j) if isinstance(j, (int, np.integer)) else str(j)


def array_pairs(node):
    """(operand expr, index tuple) pairs of a Blockwise node that take part in unification"""
    from dask_array._expr import ArrayExpr

    args = node.args
    out = []
    for a, ind in zip(args[::2], args[1::2]):
        if ind is None or tuple(ind) == () or not isinstance(a, ArrayExpr):
            continue
        out.append((a, tuple(ind)))
    return out


def check_unify_node(node, policy, limit_bytes, fails, corr, stats):
    """Property checks on one un-lowered Blockwise node, by calling `unify_chunks_expr` on its
    (operand, index) arguments; also records the model request for the correspondence."""
    import dask
    from dask_array._expr import unify_chunks_expr

    pairs = array_pairs(node)
    if len(pairs) < 1:
        return
    chunkss, arrays, changed = unify_chunks_expr(*node.args, warn=False)
    # arrays is aligned with ALL (arg, ind) pairs; pick those that take part
    all_pairs = list(zip(node.args[::2], node.args[1::2]))
    after = []
    from dask_array._expr import ArrayExpr

    for (a0, ind), a1 in zip(all_pairs, arrays):
        if ind is None or tuple(ind) == () or not isinstance(a0, ArrayExpr):
            continue
        after.append(a1)
    info = {"inds": [[lab(j) for j in i] for _, i in pairs], "before": [[list(map(int, c)) for c in a.chunks] for a, _ in pairs],
            "after": [[list(map(int, c)) for c in a.chunks] for a in after],
            "chunkss": {str(lab(k)): list(map(int, v)) for k, v in chunkss.items()}}
    # (b1) one common layout per index, broadcast axes excepted
    for (a, ind), b in zip(pairs, after):
        if tuple(b.shape) != tuple(a.shape):
            fails.append(("unify:shape-changed", info, "unification changed an operand's shape"))
            return
        for n, j in enumerate(ind):
            want = tuple(chunkss[j]) if a.shape[n] != 1 else (1,)
            if tuple(b.chunks[n]) != want:
                fails.append(("unify:common-layout", dict(info, operand_axis=[n, lab(j)]),
                              "an operand is not brought to the common layout of its index"))
            if sum(b.chunks[n]) != a.shape[n]:
                fails.append(("unify:layout-sum", info, "target layout does not add up to the axis length"))
    # (b2) refine: only splits
    if policy == "refine":
        for (a, ind), b in zip(pairs, after):
            for n, j in enumerate(ind):
                if a.shape[n] > 1 and not bset(a.chunks[n]) <= bset(b.chunks[n]):
                    fails.append(("unify:refine-merges", dict(info, operand_axis=[n, lab(j)]),
                                  "policy refine merged blocks of an operand"))
    # (b3) limit: no operand's largest block grows beyond max(limit, its own largest block)
    if limit_bytes:
        for (a, ind), b in zip(pairs, after):
            it = a.dtype.itemsize
            own = block_bytes(a.chunks, it)
            new = block_bytes(b.chunks, it)
            if new > max(limit_bytes, own):
                fails.append(("unify:limit-exceeded", dict(info, limit=limit_bytes, own=own, new=new),
                              "an operand's largest block exceeds max(unify-chunks-limit, its own largest block)"))
    # correspondence request: oracle = layouts in force with the limit disabled
    labels = sorted({j for _, ind in pairs for j in ind}, key=lambda j: (str(type(j)), j))
    num = {j: i for i, j in enumerate(labels)}  # the model numbers the labels 0..L-1
    if True:
        with dask.config.set({"array.unify-chunks-limit": None}):
            pre, _, _ = unify_chunks_expr(*node.args, warn=False)
        stats["unify_calls"] = stats.get("unify_calls", 0) + 1
        stats["rechunked"] = stats.get("rechunked", 0) + bool(changed)
        stats["guard_fired"] = stats.get("guard_fired", 0) + (dict(pre) != dict(chunkss))
        if policy == "auto":
            with dask.config.set({"array.unify-chunks-limit": None, "array.unify-chunks-policy": "coarse"}):
                co, _, _ = unify_chunks_expr(*node.args, warn=False)
            stats["auto_oracle_differs_from_coarse"] = stats.get("auto_oracle_differs_from_coarse", 0) + (dict(co) != dict(pre))
        toks = ["un.unify", policy, f_opt_lim(limit_bytes), f_ll([pre[j] for j in labels]), str(len(labels)),
                f_list(a.dtype.itemsize for a, _ in pairs)]
        for a, ind in pairs:
            toks.append(f_list(num[j] for j in ind))
            toks.append(f_ll(a.chunks))
        corr.append((" ".join(toks), "ok " + f_ll([chunkss[j] for j in labels]) + " rel=1"))


def check_lowered(low, fails, advertised=None):
    """every aligned Blockwise node of the lowered tree has operands (per OCCURRENCE) that agree
    per index with each other and with the node's own output chunks; the lowered root keeps the
    advertised chunks"""
    from dask_array._blockwise import Blockwise

    if advertised is not None and tuple(tuple(int(v) for v in c) for c in low.chunks) != tuple(tuple(int(v) for v in c) for c in advertised):
        fails.append(("lowered:advertised-chunks-differ",
                      {"advertised": [list(map(int, c)) for c in advertised], "lowered": [list(map(int, c)) for c in low.chunks]},
                      "the lowered expression has a different block grid than the advertised chunks"))
    for node in low.walk():
        if not isinstance(node, Blockwise) or not getattr(node, "align_arrays", False):
            continue
        seen = {}
        skip = set((getattr(node, "adjust_chunks", None) or {}).keys()) | set((getattr(node, "new_axes", None) or {}).keys())
        try:
            for pos, j in enumerate(node.out_ind):
                if j not in skip:
                    seen[j] = tuple(int(v) for v in node.chunks[pos])
        except Exception:
            seen = {}
        for k, (a, ind) in enumerate(array_pairs(node)):
            for n, j in enumerate(ind):
                if a.shape[n] == 1:
                    continue
                c = tuple(int(v) for v in a.chunks[n])
                if seen.setdefault(j, c) != c:
                    fails.append(("lowered:operands-misaligned",
                                  {"node": type(node).__name__, "occurrence": k, "index": lab(j),
                                   "layouts": [list(seen[j]), list(c)]},
                                  "after lowering an operand of a blockwise node disagrees with the node's layout of an index"))


def parse_limit(limit):
    if limit is None:
        return None
    if isinstance(limit, str):
        from dask.utils import parse_bytes

        return parse_bytes(limit)
    return int(limit)


def eval_point(case):
    """Evaluate one (program, config) point from clean state.  Pure function of `case`.
    -> {"fails": [(sig, detail, what)], "corr": [(request, impl_line)], "layout": ...}"""
    import dask
    import dask_array as da
    from dask_array._blockwise import Blockwise

    fails, corr, stats = [], [], {}
    policy, limit = case["policy"], case["limit"]
    limit_bytes = parse_limit(limit)
    clear_state()
    layout = None
    try:
        with dask.config.set({"array.unify-chunks-policy": policy, "array.unify-chunks-limit": limit}), \
                warnings.catch_warnings():
            warnings.simplefilter("ignore")
            z, expect = build(case, da)
            root = z.expr
            for node in root.walk():
                if isinstance(node, Blockwise) and getattr(node, "align_arrays", False):
                    check_unify_node(node, policy, limit_bytes, fails, corr, stats)
            layout = [list(map(int, c)) for c in z.chunks]
            if tuple(z.shape) != tuple(expect.shape) or tuple(sum(c) for c in z.chunks) != tuple(expect.shape):
                fails.append(("api:shape", {"got": list(z.shape), "want": list(expect.shape), "chunks": layout},
                              "result shape / advertised chunks differ from NumPy's broadcast shape"))
            if case["kind"] == "self" and case["form"] == "blockwise":
                _, _, (das_, inds_) = build_self(case, da)
                check_public_unify(da, das_, inds_, fails)
            low = root.lower_completely()
            check_lowered(low, fails, advertised=z.chunks)
            # operands of a single-level program keep their position through lowering
            if case["kind"] in ("where", "blockwise") or (case["kind"] == "chain" and len(case["operands"]) == 2):
                if isinstance(low, Blockwise):
                    lp, rp = array_pairs(low), array_pairs(root)
                    if len(lp) == len(rp):
                        for (a, ind), (b, _) in zip(rp, lp):
                            it = a.dtype.itemsize
                            own, new = block_bytes(a.chunks, it), block_bytes(b.chunks, it)
                            if limit_bytes and new > max(limit_bytes, own):
                                fails.append(("lowered:limit-exceeded",
                                              {"limit": limit_bytes, "own": own, "new": new,
                                               "before": [list(map(int, c)) for c in a.chunks],
                                               "after": [list(map(int, c)) for c in b.chunks]},
                                              "lowered operand's largest block exceeds max(limit, own)"))
                            if policy == "refine":
                                for n in range(len(ind)):
                                    if a.shape[n] > 1 and not bset(a.chunks[n]) <= bset(b.chunks[n]):
                                        fails.append(("lowered:refine-merges",
                                                      {"before": list(map(int, a.chunks[n])), "after": list(map(int, b.chunks[n]))},
                                                      "policy refine: lowering merged blocks of an operand"))
            if case["kind"] in ("self", "blockwise"):
                check_blocks(z, fails)
            got = np.asarray(z.compute())
            if got.shape != expect.shape or not np.array_equal(got, expect):
                fails.append(("api:values", {"got": got.tolist() if got.size <= 64 else "…", "want": expect.tolist() if expect.size <= 64 else "…"},
                              "unified elemwise/blockwise result differs from NumPy"))
    except Exception as e:  # the call must succeed on broadcastable known-size operands
        fails.append((f"api:raises:{type(e).__name__}", {"error": repr(e)[:300]}, "building/unifying/lowering/computing raised"))
    return {"fails": fails, "corr": corr, "layout": layout, "stats": stats}


# --------------------------------------------------------------------------- generators

def rand_layout(rng, n, mode, base):
    if n == 1:
        return (1,)
    if mode == "nested" and base is not None:
        return coarsen(rng, base)
    if mode == "same" and base is not None:
        return base
    if mode == "uniform":
        c = rng.choice([d for d in range(1, n + 1)])
        return tuple([c] * (n // c) + ([n % c] if n % c else []))
    return gen.rand_chunks(rng, n, maxparts=6)


def gen_program(rng, maxdim):
    rank = rng.randint(1, 3)
    dims = [rng.choice([2, 3, 4, 6, 8, maxdim]) for _ in range(rank)]  # label j has length dims[j]; label rank-1 is the leading axis
    kind = rng.choice(["chain", "chain", "where", "blockwise"])
    nops = 3 if kind == "where" else rng.randint(2, 4)
    mode = rng.choice(["random", "random", "nested", "nested", "uniform", "same"])
    bases = [gen.rand_chunks(rng, d, maxparts=8) if rng.random() < 0.7 else tuple([1] * d) for d in dims]
    ops = []
    for k in range(nops):
        if kind == "blockwise":
            # increasing label subsets, written leading-axis first
            labs = [j for j in range(rank) if rng.random() < 0.75] or [rng.randrange(rank)]
            if k == 0:
                labs = list(range(rank))  # every label is used
            ind = tuple(sorted(labs, reverse=True))
        else:
            r = rank if k == 0 else rng.randint(1, rank)
            ind = tuple(range(r - 1, -1, -1))
        shape, chunks = [], []
        for j in ind:
            d = dims[j] if (k == 0 or rng.random() < 0.8) else 1
            shape.append(d)
            chunks.append(list(rand_layout(rng, d, mode if rng.random() < 0.85 else "random", bases[j])))
        dt = "bool" if (kind == "where" and k == 0) else rng.choice(DTYPES)
        ops.append({"shape": shape, "chunks": chunks, "dtype": dt, "ind": list(ind), "mul": rng.choice([1, 2, 3]), "add": rng.randint(0, 3)})
    case = {"kind": kind, "rank": rank, "operands": ops}
    if kind == "chain":
        case["binops"] = [rng.choice(["add", "mul", "sub", "max"]) for _ in range(nops - 1)]
    return case


def interleaved(rng, n):
    """two layouts of n whose interior boundaries do not nest (when n allows it)"""
    for _ in range(20):
        r, c = gen.rand_chunks(rng, n, maxparts=4), gen.rand_chunks(rng, n, maxparts=4)
        br, bc = bset(r), bset(c)
        if len(r) > 1 and len(c) > 1 and not br <= bc and not bc <= br:
            return r, c
    return r, c


def gen_self_program(rng):
    """one array occurring 2-3 times under different index patterns"""
    n = rng.choice([4, 5, 6, 6, 8])
    dt = rng.choice(["int32", "float64"])
    r, c = interleaved(rng, n) if rng.random() < 0.85 else (gen.rand_chunks(rng, n, maxparts=4),) * 2
    x2 = {"src": 0, "shape": [n, n], "chunks": [list(r), list(c)], "dtype": dt, "mul": rng.choice([1, 2, 3]), "add": rng.randint(0, 3)}
    form = rng.choice(["blockwise", "blockwise", "blockwise", "einsum", "matmul", "matmul_T", "T_matmul", "tensordot", "tensordot00", "outer"])
    if form == "outer":
        v = dict(x2, shape=[n], chunks=[list(r)])
        ops = [dict(v, ind=[1]), dict(v, ind=[0])]
        return {"kind": "self", "form": form, "rank": 2, "operands": ops, "out": [1, 0]}
    if form in ("matmul", "tensordot"):
        return {"kind": "self", "form": form, "rank": 3, "operands": [dict(x2, ind=[0, 1]), dict(x2, ind=[1, 2])], "out": [0, 2]}
    if form == "matmul_T":
        return {"kind": "self", "form": form, "rank": 3, "operands": [dict(x2, ind=[0, 1]), dict(x2, ind=[2, 1])], "out": [0, 2]}
    if form in ("T_matmul", "tensordot00"):
        return {"kind": "self", "form": form, "rank": 3, "operands": [dict(x2, ind=[1, 0]), dict(x2, ind=[1, 2])], "out": [0, 2]}
    if rng.random() < 0.25:
        # one label on TWO axes of one occurrence ('ii'): the label has to be unified between the two (differently
        # chunked) axes as well (regression 85d14bd)
        ops = [dict(x2, ind=[0, 0])]
        t = rng.random()
        if t < 0.35:
            out = [0]
        elif t < 0.7:
            ops.append(dict(x2, ind=rng.choice([[0, 1], [1, 0], [1, 1]])))
            out = rng.choice([[0], [0, 1], [1, 0], [1]])
        else:
            ops.append({"src": 1, "shape": [n], "chunks": [list(gen.rand_chunks(rng, n, maxparts=4))],
                        "dtype": rng.choice(["int32", "float64"]), "mul": 1, "add": 1, "ind": [0]})
            out = [0]
        rng.shuffle(ops)
        L = 1 + max(j for o in ops for j in o["ind"])
        return {"kind": "self", "form": form, "rank": L, "operands": ops, "out": out, "repeated": True}
    # blockwise / einsum over L labels, all of length n
    L = rng.choice([2, 3, 3, 4])
    other = None
    if rng.random() < 0.4:
        rk = rng.choice([1, 2])
        other = {"src": 1, "shape": [n] * rk, "chunks": [list(gen.rand_chunks(rng, n, maxparts=4)) for _ in range(rk)],
                 "dtype": rng.choice(["int32", "float64"]), "mul": 1, "add": 1}
    for _ in range(50):
        nocc = rng.choice([2, 2, 3])
        ops = []
        for k in range(nocc + (1 if other else 0)):
            srcspec = other if (other and k == nocc) else x2
            ind = rng.sample(range(L), len(srcspec["shape"]))
            ops.append(dict(srcspec, ind=ind))
        used = {j for o in ops for j in o["ind"]}
        pats = {tuple(o["ind"]) for o in ops if o["src"] == 0}
        if used == set(range(L)) and len(pats) >= 2:
            break
    else:
        ops = [dict(x2, ind=[0, 1]), dict(x2, ind=[1, 2])]
        L = 3
    labels = list(range(L))
    rng.shuffle(labels)
    out = labels[: rng.randint(1, L)] if rng.random() < 0.6 else labels
    if form == "einsum" and len(out) == 0:
        out = labels
    return {"kind": "self", "form": form, "rank": L, "operands": ops, "out": out}


def limits_for(rng, case):
    sizes = []
    for o in case["operands"]:
        it = 1 if o["dtype"] == "bool" else np.dtype(o["dtype"]).itemsize
        sizes.append(block_bytes(o["chunks"], it) if o["chunks"] else it)
    full = max(int(np.prod(o["shape"])) * 8 for o in case["operands"])
    med = rng.choice(sorted(set(sizes + [max(sizes) + 1, max(sizes) * 2, min(sizes) * 2, full // 2 or 1])))
    if rng.random() < 0.1:
        med = f"{med} B"
    return [None, rng.randint(1, 8), med, 2**40]


def case_key(case, res):
    ops = case["operands"]
    return (case["kind"], case.get("form"), len(ops), case["rank"], case["policy"],
            "none" if case["limit"] is None else ("huge" if case["limit"] == 2**40 else "set"),
            any(1 in o["shape"] for o in ops), len({len(o["shape"]) for o in ops}) > 1,
            len({o["dtype"] for o in ops}) > 1,
            tuple(len(c) for c in (res["layout"] or [])))


# --------------------------------------------------------------------------- correspondence on helpers

def helper_sets(ctx, NEX):
    """all 1-3 element sets of layouts of n (plus the broadcast sentinel (1,)), n <= NEX"""
    for n in range(1, NEX + 1):
        univ = list(dict.fromkeys(list(gen.compositions(n)) + [(n,), (1,)]))
        for k in (1, 2, 3):
            for s in itertools.combinations(univ, k):
                yield s


def helper_pairs(ctx, NEX, NR):
    from dask_array._core_utils import common_blockdim
    from dask_array._expr import coarse_blockdim

    rng = ctx.rng
    pairs = []

    def add(fn_name, fn, lst):
        pairs.append((f"un.{fn_name} {f_ll(lst)}", impl_call(lambda: fn(lst), fmt_layout)))

    nsets = 0
    for s in helper_sets(ctx, NEX):
        nsets += 1
        # as a Python set (what broadcast_dimensions passes) and in every order as a list
        for name, fn in (("common", common_blockdim), ("coarse", coarse_blockdim)):
            pairs.append((f"un.{name} {f_ll(s)}", impl_call(lambda: fn(set(s)), fmt_layout)))
            for p in itertools.permutations(s):
                add(name, fn, list(p))
    ctx.notes["helper_sets_exhaustive"] = nsets
    # empty tuples / error branches
    for lst in ([()], [(), ()], [(), (3,)], [(3,), ()], [(2, 1), ()], [(0,)], [(0,), (0, 0)], [(0, 0), (0, 0, 0)],
                [(2, 2), (3, 1)], [(2, 2), (3, 2)], [(2, 2), (3, 2), (5,)], [(5,), (4,)], [(1,), (1,)], [(7,), (3, 3)]):
        add("common", common_blockdim, lst)
        add("coarse", coarse_blockdim, lst)
    # zero-length chunks: common_blockdim only (coarse_blockdim's answer on min-length ties with
    # zero-length chunks depends on set iteration order -- see Model/Unify.lean)
    for n in range(0, 4):
        zs = [c for c in gen.compositions(n, zeros=True, maxparts=3)]
        for _ in range(ctx.scale(150, 1500)):
            lst = [rng.choice(zs) for _ in range(rng.randint(1, 3))]
            add("common", common_blockdim, lst)
    # random larger
    for _ in range(NR):
        n = rng.choice([2, 3, 6, 12, 17, 100, 1000])
        k = rng.randint(1, 5)
        style = rng.random()
        if style < 0.45:
            base = gen.rand_chunks(rng, n, maxparts=12)
            lst = [coarsen(rng, base) if rng.random() < 0.8 else base for _ in range(k)]
        elif style < 0.9:
            lst = [gen.rand_chunks(rng, n, maxparts=10) for _ in range(k)]
        else:  # mismatched totals -> ValueError branch / silently trivial
            lst = [gen.rand_chunks(rng, n + rng.choice([0, 0, 1]), maxparts=6) for _ in range(k)]
        if rng.random() < 0.3:
            lst.append((n,))
        if rng.random() < 0.2:
            lst.append((1,))
        rng.shuffle(lst)
        add("common", common_blockdim, lst)
        add("coarse", coarse_blockdim, lst)
        rng.shuffle(lst)
        add("common", common_blockdim, lst)
        add("coarse", coarse_blockdim, lst)
    return pairs


def helper_search(ctx, NEX, NR):
    """Model-independent brute-force oracle for the two helpers.  Property-relevant facts (the
    result is a layout of the same axis; `common_blockdim` only splits) are failures; the rest of
    the theorem statements (coarsest refinement; `coarse_blockdim` is an input every other input
    refines, or the refinement) is a spec-vs-implementation disagreement."""
    from dask_array._core_utils import common_blockdim
    from dask_array._expr import coarse_blockdim

    rng = ctx.rng

    def check(lst):
        sums = {sum(c) for c in lst}
        if len(sums) != 1:
            return
        total = sums.pop()
        case = {"fn": "common_blockdim", "blockdims": [list(c) for c in lst]}
        try:
            r = common_blockdim(set(lst))
        except Exception as e:
            ctx.fail("common_blockdim:raises", dict(case, error=repr(e)[:200]), "common_blockdim raises on layouts of one axis")
            return
        union = set().union(*[bset(c) for c in lst])
        ctx.count(("H-common", len(lst), len(r) > max(len(c) for c in lst)))
        if sum(r) != total or any(v < 0 for v in r) or not all(bset(c) <= bset(r) for c in lst):
            ctx.fail("common_blockdim:not-a-common-refinement", dict(case, got=list(r)),
                     "common_blockdim does not return a layout of the axis that only splits every input")
        elif not bset(r) <= union and len(ctx.disagreements) < 200:
            ctx.disagree("spec:commonBlockdim_refines", "common_blockdim " + f_ll(lst), "boundaries ⊆ union of inputs' boundaries", "ok " + f_list(r))
        if all(v > 0 for c in lst for v in c):
            case = dict(case, fn="coarse_blockdim")
            try:
                q = coarse_blockdim(set(lst))
            except Exception as e:
                ctx.fail("coarse_blockdim:raises", dict(case, error=repr(e)[:200]), "coarse_blockdim raises on layouts of one axis")
                return
            nt = [c for c in lst if len(c) > 1]
            ok = tuple(q) == tuple(r) or (tuple(q) in {tuple(c) for c in lst} and all(bset(q) <= bset(c) for c in nt)
                                           and all(len(q) <= len(c) for c in nt))
            ctx.count(("H-coarse", len(lst), tuple(q) == tuple(r)))
            if sum(q) != total or any(v <= 0 for v in q):
                ctx.fail("coarse_blockdim:not-a-layout", dict(case, got=list(q)), "coarse_blockdim does not return a layout of the axis")
            elif not ok and len(ctx.disagreements) < 200:
                ctx.disagree("spec:coarseBlockdim_spec", "coarse_blockdim " + f_ll(lst),
                             "an input refined by every other input, or common_blockdim", "ok " + f_list(q))

    for s in helper_sets(ctx, NEX):
        check([c for c in s if c != (1,)] or [(1,)])
    for _ in range(NR):
        n = rng.choice([2, 3, 6, 12, 17, 100])
        base = gen.rand_chunks(rng, n, maxparts=12)
        lst = [coarsen(rng, base) if rng.random() < 0.5 else gen.rand_chunks(rng, n, maxparts=8) for _ in range(rng.randint(1, 5))]
        check(lst)


# --------------------------------------------------------------------------- run

def record(ctx, case, res):
    for sig, detail, what in res["fails"]:
        ctx.fail(sig, dict(case, detail=detail), what)


def run(ctx, replay=None):
    rng = ctx.rng
    ctx.rule = (
        "helpers: every 1-3 element set of layouts of n<=N (all chunkings, (n,), broadcast (1,)), as a set and in "
        "every list order, + seeded random larger sets (nested / random / mismatched totals); programs: seeded random "
        "(kind chain|where|blockwise, 2-4 operands, rank<=3, broadcast axes, lower-rank operands, dtypes, chunk modes; kind self = "
        "one array occurring 2-3 times under different index patterns with interleaving row/column chunkings: blockwise with "
        "contracted indices, einsum, x@x, x@x.T, x.T@x, tensordot, outer) x "
        "3 policies x 4 limits, each point from clean registries; unknown-size programs (props_ext/c17_unknown.py): "
        "boolean-mask selections (rows/columns, mask array or x itself, before/after compute_chunk_sizes) against partners "
        "stratified over {aligned, same count other cuts, all-ones, other count, one block, broadcast, lower rank, second "
        "unknown operand, unknown on the other axis} x {single, fused with elemwise ops, reductions} x binop/where/blockwise "
        "x 3 policies x 2 limits; a case is distinct by (kind, #operands, rank, policy, "
        "limit class, broadcast?, mixed rank?, mixed dtype?, blocks per axis of the result) for programs and by "
        "(family, model output prefix, size class) for correspondence"
    )
    ctx.assumptions = [
        "model correspondence: known (non-nan) chunk sizes only; zero-length chunks only in the common_blockdim correspondence",
        "unknown (nan) chunk sizes (boolean-mask selections, before/after compute_chunk_sizes) are covered by the end-to-end "
        "search only: outcome = refusal (ValueError) or NumPy's values with one block grid per index",
        "float cost comparisons of policy 'auto' enter the model as an oracle recovered from the real run (limit disabled)",
        "values unchanged is checked end-to-end against NumPy (the theorem is C14's)",
        "each configuration point is evaluated from clean registries (DESIGN §8.7); history dependence is C09's subject",
    ]
    NEX = ctx.scale(5, 6)
    NR = ctx.scale(1500, 20000)
    NPROG = ctx.scale(58, 1150)
    NSELF = ctx.scale(22, 350)

    if replay and isinstance(replay, dict) and isinstance(replay.get("case"), dict) and replay["case"].get("kind") == "unknown":
        from harness.props_ext import c17_unknown

        c17_unknown.replay(ctx, replay["case"])
        return
    if replay and isinstance(replay, dict) and isinstance(replay.get("case"), dict) and "operands" in replay["case"]:
        case = {k: v for k, v in replay["case"].items() if k != "detail"}
        res = eval_point(case)
        ctx.count(("replay",))
        record(ctx, case, res)
        ctx.correspond("unify_chunks_expr", res["corr"])
        ctx.notes["replayed"] = 1
        return
    if replay and isinstance(replay, dict) and isinstance(replay.get("case"), dict) and "blockdims" in replay["case"]:
        from dask_array._core_utils import common_blockdim
        from dask_array._expr import coarse_blockdim

        lst = [tuple(c) for c in replay["case"]["blockdims"]]
        ctx.correspond("replay", [(f"un.common {f_ll(lst)}", impl_call(lambda: common_blockdim(lst), fmt_layout)),
                                  (f"un.coarse {f_ll(lst)}", impl_call(lambda: coarse_blockdim(lst), fmt_layout))])

    # ---------------- correspondence: helpers
    ctx.correspond("common/coarse_blockdim", helper_pairs(ctx, NEX, NR))
    ctx.exhaustive = True
    ctx.extra["exhaustive_domain"] = (
        f"common_blockdim/coarse_blockdim: all 1-3 element sets of {{chunkings of n, (n,), (1,)}} for n<={NEX}, "
        "as a set and in every list order"
    )

    # ---------------- search on the helpers (brute-force boundary-set oracle)
    helper_search(ctx, NEX, NR)

    # ---------------- search on the real code through the public API (+ unify correspondence)
    corr = []
    points = []
    salt = 0
    progs = [gen_program(rng, rng.choice([5, 9, 12])) for _ in range(NPROG)] + [gen_self_program(rng) for _ in range(NSELF)]
    for prog in progs:
        for policy in POLICIES:
            for limit in limits_for(rng, prog):
                salt += 1
                case = dict(prog, policy=policy, limit=limit, salt=salt % 3)
                res = eval_point(case)
                ctx.count(case_key(case, res))
                if len(points) < 4000:
                    points.append((case, res["layout"]))
                record(ctx, case, res)
                corr.extend(res["corr"])
                for k, v in res["stats"].items():
                    ctx.notes["unify." + k] = ctx.notes.get("unify." + k, 0) + int(v)
        ctx.sample({"program": prog})
    ctx.notes["program_points"] = len(progs) * 12
    ctx.notes["self_operand_program_points"] = NSELF * 12
    ctx.correspond("unify_chunks_expr", corr)

    # ---------------- operands with UNKNOWN (nan) chunk sizes: refusal or NumPy's values (props_ext/c17_unknown.py)
    from harness.props_ext import c17_unknown

    c17_unknown.run(ctx)

    # ---------------- clean-state evaluation == fresh-interpreter evaluation (sampled)
    nfresh = ctx.scale(4, 24)
    sample = rng.sample(points, min(nfresh, len(points)))
    procs = []
    for case, layout in sample:
        p = subprocess.Popen([sys.executable, "-c",
                              "import json,sys\nfrom harness.props import C17\n"
                              "r=C17.eval_point(json.loads(sys.stdin.read()))\n"
                              "print(json.dumps({'layout': r['layout'], 'fails': [f[0] for f in r['fails']]}))"],
                             cwd=str(VERIF), stdin=subprocess.PIPE, stdout=subprocess.PIPE, stderr=subprocess.PIPE, text=True)
        p.stdin.write(json.dumps(case))
        p.stdin.close()
        procs.append((p, case, layout))
    for p, case, layout in procs:
        out = p.stdout.read()
        p.wait()
        try:
            r = json.loads(out.strip().splitlines()[-1])
        except Exception:
            raise RuntimeError("fresh-interpreter evaluation failed: " + p.stderr.read()[-500:])
        ctx.count(("fresh", case["policy"]))
        if r["layout"] != layout:
            # not a property violation by itself: the in-process clean-state evaluation is not clean
            raise RuntimeError(f"clean-state evaluation differs from a fresh interpreter: {case} {layout} {r['layout']}")
        for sig in r["fails"]:
            ctx.fail(sig, dict(case, detail="fresh interpreter"), "property failure reproduced in a fresh interpreter")
    ctx.notes["fresh_interpreter_points"] = len(procs)

    # ---------------- targeted search around disagreements
    if ctx.disagreements:
        targeted(ctx)


def targeted(ctx):
    """Lift every disagreeing helper input to API level (1-d operands with those layouts, every
    policy x {no limit, tiny limit}); re-run disagreeing unify points' neighbours."""
    tried = 0
    for d in ctx.disagreements[:60]:
        toks = d["request"].split()
        if toks[0] in ("un.common", "un.coarse", "common_blockdim", "coarse_blockdim") and len(toks) > 1:
            try:
                lst = [tuple(int(t) for t in part.split(",")) if part != "_" else () for part in toks[1].split(";")] if toks[1] != "-" else []
            except ValueError:
                continue
            lst = [c for c in lst if c and all(v > 0 for v in c)]
            lst = [c for c in lst if c != (1,)] or lst
            if not lst or len({sum(c) for c in lst}) != 1:
                continue
            ops = [{"shape": [sum(c)], "chunks": [list(c)], "dtype": "int32", "ind": [0], "mul": k + 1, "add": k} for k, c in enumerate(lst[:4])]
            if len(ops) == 1:
                ops = ops * 2
            prog = {"kind": "chain", "rank": 1, "operands": ops, "binops": ["add"] * (len(ops) - 1)}
            for policy in POLICIES:
                for limit in (None, 1, 4 * max(max(c) for c in lst)):
                    case = dict(prog, policy=policy, limit=limit, salt=0)
                    res = eval_point(case)
                    tried += 1
                    ctx.count(("targeted", policy, limit is None))
                    record(ctx, case, res)
    ctx.notes["targeted_search"] = f"{tried} API-level programs built from disagreeing helper inputs (3 policies x 3 limits each); unify-level disagreements were evaluated by the end-to-end search on the same inputs"
