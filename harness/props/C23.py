"""C23 — a random array is one fixed realization.

Theorems (Props/C23.lean) are about the model of Model/Hist.lean: a `Random` node draws its
per-block seeds when it is CONSTRUCTED, stores them in the node value, carries them through
pickling, and rewrites reuse the node; block id -> flat seed index is a bijection.

Correspondence (model vs implementation, family `hs.*`):
  * `Random._block_id_to_flat_index` vs `hs.flat_index` (exhaustive small grids incl. the extra
    `extra_chunks` coordinate of multinomial, seeded random large grids), `itertools.product`
    order vs `hs.grid`;
  * which children of the seed sequence a Generator-backed node draws (`spawn_key`s of the real
    per-block `SeedSequence`s, for sequences of constructions from one generator) vs `hs.draw`.
Model-level facts observed on the real objects (seed vectors): `_info` seeds identical on
repeated access, in every Random node of optimised / fused / unoptimised derived programs, after a
pickle round trip, and every `_apply_random*` task found in any real graph uses
`seeds[ravel_multi_index(block id)]`.
Search (oracle independent of the model = NumPy applied to the first realisation r0):
  distributions x generator kinds x shapes x chunkings: repeated computes (several schedulers, random
  order) == r0 bitwise; rebuild with the same seed == r0; derived programs (slices incl. culling,
  rechunk, transpose, elemwise with itself / constants / other arrays, concatenate / stack with
  itself, flips, rolls, reductions, cumsum) optimised and with array.optimize-graph=False ==
  the same NumPy program on r0 (bitwise; allclose when a float sum / cumsum is involved);
  x - x == 0, x + x == 2x; pickle round trip; persist; one dask.compute over several collections.
A derived program that also fails when x is replaced by from_array(r0) is a defect of the
derivation (C01's business), recorded in notes and not reported here.
Shared intermediates (props_ext/c23_shared.py): programs that are DAGs — a fusable chain with two consumers, one of them
combined with the random array — so that fused groups receive a substituted external operand in the same fusion pass; grid of
templates x every scalar-parameter distribution x generator kinds + random DAGs, vs NumPy on a.compute().
Accesses between draws (props_ext/c23_access.py): sequences of draws from one source (0-d arrays included) with every kind of
look at the earlier arrays (.dtype, repr, len, derived dtypes, graph, optimize, compute, pickle, ...) between the draws, vs the
same sequence without the looks (property) and vs a NumPy-only replay of the seed derivation (model level).
Out of scope: unseeded generators (seed=None draws OS entropy: nothing to reproduce).
"""
from __future__ import annotations

import itertools
import pickle
import signal
import time
import types

import numpy as np

from harness import gen
from harness import programs as P
from harness.core import f_list
from harness.props_ext import c23_access as AC
from harness.props_ext import c23_shared as SH

SYNC = {"scheduler": "sync"}

class Hang(BaseException):  # BaseException: must not be swallowed by `except Exception` in library code
    pass


def with_timeout(seconds, fn):
    """Run fn() in the main thread with a watchdog (a hang must become a reported failure, not a stuck check)."""
    def handler(signum, frame):
        raise Hang()

    old = signal.signal(signal.SIGALRM, handler)
    signal.alarm(seconds)
    try:
        return fn()
    finally:
        signal.alarm(0)
        signal.signal(signal.SIGALRM, old)


# ---------------------------------------------------------------------------- generators

GEN_KINDS = ("default_rng", "PCG64", "MT19937", "Philox", "SFC64", "RandomState", "module")


def make_gen(kind, seed):
    import dask_array as da

    if kind == "default_rng":
        return da.random.default_rng(seed)
    if kind in ("PCG64", "MT19937", "Philox", "SFC64"):
        return da.random.Generator(getattr(np.random, kind)(seed))
    if kind == "RandomState":
        return da.random.RandomState(seed)
    if kind == "module":
        da.random.seed(seed)
        return da.random
    raise KeyError(kind)


def is_generator_kind(kind):
    return kind in ("default_rng", "PCG64", "MT19937", "Philox", "SFC64")


# name -> (method for Generator kinds, method for RandomState kinds, args, kwargs)
DISTS = {
    "random": ("random", "random_sample", (), {}),
    "standard_normal": ("standard_normal", "standard_normal", (), {}),
    "normal": ("normal", "normal", (1.5, 2.0), {}),
    "uniform": ("uniform", "uniform", (-2.0, 3.0), {}),
    "integers": ("integers", "randint", (-5, 50), {}),
    "poisson": ("poisson", "poisson", (3.5,), {}),
    "binomial": ("binomial", "binomial", (10, 0.3), {}),
    "exponential": ("exponential", "exponential", (2.0,), {}),
    "gamma": ("gamma", "gamma", (2.0, 1.5), {}),
    "beta": ("beta", "beta", (2.0, 3.0), {}),
    "chisquare": ("chisquare", "chisquare", (3.0,), {}),
    "geometric": ("geometric", "geometric", (0.3,), {}),
    "lognormal": ("lognormal", "lognormal", (0.0, 0.5), {}),
    "standard_t": ("standard_t", "standard_t", (4.0,), {}),
    "triangular": ("triangular", "triangular", (0.0, 1.0, 3.0), {}),
    "multinomial": ("multinomial", "multinomial", (7, [0.2, 0.3, 0.5]), {}),
    # choice / permutation: see build() — RandomState-backed choice with an int population only
    "choice": ("choice", "choice", (9,), {}),
    "permutation": ("permutation", "permutation", (), {}),
}


def build_one(g, kind, dist, shape, chunks):
    gm, rm, args, kwargs = DISTS[dist]
    meth = getattr(g, gm if is_generator_kind(kind) else rm)
    if dist == "permutation":
        import dask_array as da

        n = int(np.prod(shape)) if shape else 1
        base = da.from_array(np.arange(n, dtype=np.int64) * 3 + 1, chunks=(tuple(chunks[0]),) if len(shape) == 1 else -1)
        return meth(base)
    if dist == "choice":
        return meth(*args, size=tuple(shape), chunks=tuple(tuple(c) for c in chunks))
    return meth(*args, size=tuple(shape), chunks=tuple(tuple(c) for c in chunks), **kwargs)


def build(case):
    """The random array of a case: a fresh generator of the given kind and seed, `prefix`
    earlier arrays drawn from it (they advance the generator), then the array itself."""
    g = make_gen(case["kind"], case["seed"])
    for pd, pshape, pchunks in case.get("prefix", []):
        build_one(g, case["kind"], pd, pshape, pchunks)
    return build_one(g, case["kind"], case["dist"], case["shape"], case["chunks"])


# ---------------------------------------------------------------------------- seeds on real objects

def canon_seed(s):
    if isinstance(s, np.random.SeedSequence):
        return ("ss", int(s.entropy) if not isinstance(s.entropy, (list, tuple)) else tuple(s.entropy), tuple(int(k) for k in s.spawn_key))
    if isinstance(s, (int, np.integer)):
        return ("int", int(s))
    if hasattr(s, "state"):  # a BitGenerator object (RandomChoiceGenerator)
        return ("bitgen", type(s).__name__, repr(sorted((k, repr(v)) for k, v in s.state.items())))
    return ("other", repr(s))


def random_nodes(expr):
    from dask_array.random._expr import Random

    return [n for n in expr.walk() if isinstance(n, Random)]


def random_tasks(graph):
    """Every `_apply_random*` call found anywhere in a real task graph: [(key, seed argument)]."""
    from dask._task_spec import Task
    from dask_array.random import _expr as RE

    found = []
    seen = set()

    def rec(o):
        if id(o) in seen:
            return
        seen.add(id(o))
        if isinstance(o, Task):
            if o.func in (RE._apply_random_func, RE._apply_random):
                found.append((o.key, o.args[2]))
            for a in o.args:
                rec(a)
            for a in getattr(o, "kwargs", {}).values():
                rec(a)
        elif isinstance(o, dict):
            for v in o.values():
                rec(v)
        elif isinstance(o, (list, tuple)):
            for v in o:
                rec(v)
        elif hasattr(o, "args") and not isinstance(o, (np.ndarray, type)):
            try:
                for a in o.args:
                    rec(a)
            except TypeError:
                pass

    rec(dict(graph))
    return found


def check_seeds(ctx, case, x, derived):
    """Seed-vector facts on the real objects (the model's invariants, observed)."""
    import dask

    e = x.expr
    nodes = random_nodes(e)
    if len(nodes) != 1 or nodes[0] is not e:
        return  # permutation / choice: no `Random` root
    seeds0 = [canon_seed(s) for s in e.bitgens]
    nb = [len(c) for c in e._base_chunks]
    ctx.count(("seeds", case["kind"], len(nb)))

    def bad(what, **kw):
        ctx.fail("random:seed-vector:" + what, dict(case, **kw), "per-block seeds of the Random node are not one fixed vector (" + what + ")")

    if [canon_seed(s) for s in e.bitgens] != seeds0 or [canon_seed(s) for s in e._info[0]] != seeds0:
        bad("repeated-access")
    if len(seeds0) != int(np.prod(nb)):
        bad("length")
    # every Random node reachable in optimised / fused / lowered trees of x and its derivations
    colls = [("x", x)] + derived
    for label, y in colls:
        for opt in (True, False):
            with dask.config.set({"array.optimize-graph": opt}):
                try:
                    trees = [y.expr, y.expr.optimize() if opt else y.expr.lower_completely()]
                    graph = dict(type(y)(y.expr).__dask_graph__())
                except Exception:
                    continue
            for t in trees:
                for n in random_nodes(t):
                    if n._name == e._name and [canon_seed(s) for s in n.bitgens] != seeds0:
                        bad("same-name-different-seeds", where=label, optimize=opt)
                    if n._name != e._name and tuple(n.operand("size") or ()) == tuple(e.operand("size") or ()) and n.distribution == e.distribution and n.rng is e.rng:
                        bad("node-reinstantiated", where=label, optimize=opt, got=[canon_seed(s) for s in n.bitgens][:4], want=seeds0[:4])
            for key, seed in random_tasks(graph):
                if key[0] != e._name:
                    continue
                bid = tuple(key[1: 1 + len(nb)])
                flat = int(np.ravel_multi_index(bid, nb)) if nb else 0
                if canon_seed(seed) != seeds0[flat]:
                    bad("task-uses-other-block-seed", where=label, optimize=opt, block=list(bid))
    # pickle round trip carries the vector
    try:
        y = pickle.loads(pickle.dumps(x))
        if [canon_seed(s) for s in y.expr.bitgens] != seeds0 or y.expr._name != e._name:
            bad("pickle")
    except Exception as ex:  # pragma: no cover
        ctx.notes["pickle_refused"] = repr(ex)[:100]


# ---------------------------------------------------------------------------- derived programs

DERIVED_OPS = (
    "unary", "binary", "binary", "binary_new", "transpose", "getitem", "getitem", "getitem", "rechunk", "rechunk",
    "reduce", "cumsum", "concatenate", "stack", "expand_dims", "squeeze", "flip", "roll", "map_blocks", "take",
    "clip", "diff", "repeat",
)
APPROX_OPS = ("cumsum",)


def gen_derived(rng, r0, depth, ops=DERIVED_OPS):
    g = P.ProgGen(rng, ops=ops, maxrank=3, maxdim=5, zero_axes=0.0)
    g.env["x"] = r0
    g.tags["x"] = set()
    last = None
    for _ in range(depth):
        out = g.step()
        if out is not None:
            last = out
    # keep only steps the root depends on (plus the root itself)
    if last is None:
        return None
    prog = g.prog
    used = {last}
    for st in reversed(prog):
        if st["out"] in used:
            used |= set(st.get("args", []))
    prog = [st for st in prog if st["out"] in used]
    if "x" not in used:
        return None
    return prog


def prog_is_approx(prog, dtype):
    if np.issubdtype(dtype, np.integer):
        return False
    for st in prog:
        if st["op"] in APPROX_OPS or (st["op"] == "reduce" and st["fn"] == "sum"):
            return True
    return False


def run_prog(prog, x, da_mode):
    import dask_array as da

    env = {"x": x}
    m = da if da_mode else np
    for st in prog:
        env[st["out"]] = P.apply_step(st, env, m, da_mode)
    return env[prog[-1]["out"]]


def same(got, want, approx):
    got = np.asarray(got)
    want = np.asarray(want)
    if got.shape != want.shape:
        return False
    if approx:
        return bool(np.allclose(got, want, rtol=1e-9, atol=1e-9, equal_nan=True))
    return bool(np.array_equal(got, want, equal_nan=(got.dtype.kind == "f")))


def short(a):
    a = np.asarray(a)
    return {"shape": list(a.shape), "head": a.ravel()[:6].tolist()}


def multinomial_rechunk_class(case, err, opt):
    """the listed class `random:multinomial-rechunk-extra-axis:compute-raises` (probe_known (E)): predicate on the
    distribution and the exception"""
    return case["dist"] == "multinomial" and (
        (opt and isinstance(err, AttributeError) and "'NoneType' object has no attribute 'dtype'" in repr(err))
        or (isinstance(err, RuntimeError) and "Failed to generate metadata" in repr(err))
    )


def check_case(ctx, case, progs=None, nprog=3, seeds=True):
    """One random array: realisation r0, then everything that must agree with it."""
    import dask
    import dask_array as da

    rng = ctx.rng
    try:
        x = build(case)
    except (NotImplementedError, ValueError, TypeError) as e:
        # refused while building (e.g. choice(replace=False) over several chunks): not wrong data
        ctx.notes["refused"] = ctx.notes.get("refused", 0) + 1
        ctx.notes.setdefault("refused_sample", repr(e)[:120] + " " + repr(case)[:200])
        return None
    try:
        r0 = x.compute(**SYNC)
    except Exception as e:
        ctx.fail("random:compute-raises", dict(case, error=repr(e)[:300]), "a seeded random array cannot be computed")
        return None
    key = (case["kind"], case["dist"], len(case["shape"]), max((len(c) for c in case["chunks"]), default=0) > 1, bool(case.get("prefix")))
    ctx.count(("case",) + key)

    def fail(sig, what, **kw):
        ctx.fail(sig, dict(case, **kw), what)

    # (1) repeated computes, several schedulers
    for kw in (SYNC, {"scheduler": "threads"}, {}):
        if not same(x.compute(**kw), r0, False):
            fail("random:recompute", "x.compute() twice gives different values", scheduler=kw.get("scheduler", "default"))
            return
    # (2) rebuild with the same seed / shape / chunks (and the same history of the generator)
    x2 = build(case)
    if not same(x2.compute(**SYNC), r0, False):
        fail("random:rebuild", "rebuilding with the same seed, shape and chunks gives different values")
    if x2.name != x.name:
        fail("random:rebuild-name", "rebuilding with the same seed, shape and chunks gives a different name", got=x2.name, want=x.name)
    # (3) shared realisation inside one graph
    if r0.dtype.kind in "fiu" and r0.size:
        z = (x - x).compute(**SYNC)
        if z.shape != r0.shape or np.any(z != 0):
            fail("random:x-minus-x", "x - x is not zero: two different realisations in one graph")
        if not same((x + x).compute(**SYNC), 2 * r0, False):
            fail("random:x-plus-x", "x + x differs from 2 * x.compute()")
        a, b = dask.compute(x, x + 0, **SYNC)
        if not same(a, r0, False) or not same(b, r0, False):
            fail("random:multi-compute", "dask.compute(x, x + 0) differs from x.compute()")
    # (4) pickle round trip, persist, fresh collection over the same expression
    try:
        y = pickle.loads(pickle.dumps(x))
    except Exception as e:  # a refusal to pickle is not wrong data
        ctx.notes["pickle_refused"] = repr(e)[:100]
        y = None
    if y is not None and not same(y.compute(**SYNC), r0, False):
        fail("random:pickle", "pickle round trip changes the values")
    if not same(x.persist(**SYNC).compute(**SYNC), r0, False):
        fail("random:persist", "x.persist().compute() differs from x.compute()")
    if not same(da.Array(x.expr).compute(**SYNC), r0, False):
        fail("random:fresh-collection", "a second collection over the same expression computes other values")
    o = x.optimize()
    if not same(o.compute(**SYNC), r0, False):
        fail("random:optimize", "x.optimize().compute() differs from x.compute()")
    # (5) derived programs, optimised and not, vs the same NumPy program on r0
    if progs is None:
        progs = []
        # choice arrays carry a 0-d meta: programs over them are a known failing class (probe_known (D))
        if r0.ndim >= 1 and r0.size and r0.dtype.kind in "fiu" and case["dist"] != "choice":
            for _ in range(nprog * 3):
                # multinomial (extra_chunks axis): a rechunk pushed through an elementwise op onto it is a known failing class (probe_known (E))
                ops = tuple(o for o in DERIVED_OPS if o != "rechunk") if case["dist"] == "multinomial" else DERIVED_OPS
                p = gen_derived(rng, r0, rng.randint(1, 4), ops)
                if p is not None:
                    progs.append(p)
                if len(progs) >= nprog:
                    break
    derived = []
    for prog in progs:
        try:
            with np.errstate(all="ignore"):
                want = run_prog(prog, r0, False)
        except Exception:
            continue
        approx = prog_is_approx(prog, r0.dtype)
        ops = tuple(st["op"] for st in prog)
        for opt in (True, False):
            ctx.count(("derived", case["kind"], ops[-1], len(prog), opt, approx))
            try:
                with dask.config.set({"array.optimize-graph": opt}):
                    y = run_prog(prog, x, True)
            except (ValueError, NotImplementedError, TypeError, IndexError) as e:
                # refused while BUILDING the derived program (nothing was computed): a refusal, not wrong data
                ctx.notes["derived_program_refused_at_build"] = ctx.notes.get("derived_program_refused_at_build", 0) + 1
                ctx.extra.setdefault("derived_program_refusal_sample", {"dist": case["dist"], "prog": prog, "error": repr(e)[:160]})
                break
            except Exception as e:
                # any other exception while building (e.g. an assertion inside an operation): a defect of that operation when
                # the same program cannot be built over from_array(r0) either — recorded, not reported here
                try:
                    with dask.config.set({"array.optimize-graph": opt}):
                        run_prog(prog, da.from_array(r0, chunks=x.chunks), True)
                    builds = True
                except Exception:
                    builds = False
                if builds and multinomial_rechunk_class(case, e, opt):
                    # the listed class (probe_known (E)) firing while the derived program is BUILT (a consumer reads .chunks /
                    # dtype of the elementwise op whose unification pushes a rechunk onto the multinomial array)
                    fail("random:multinomial-rechunk-extra-axis:compute-raises", "a rechunk pushed through an elementwise op onto a multinomial array raises while the derived program is built",
                         prog=prog, optimize=opt, error=repr(e)[:300])
                elif builds:
                    fail("random:derived-raises", "a program derived from a random array cannot be built (it can over from_array of the same values)",
                         prog=prog, optimize=opt, error=repr(e)[:300])
                else:
                    ctx.notes["generic_program_defects"] = ctx.notes.get("generic_program_defects", 0) + 1
                    if len(ctx.extra.setdefault("generic_program_defect_samples", [])) < 3:
                        ctx.extra["generic_program_defect_samples"].append({"prog": prog, "optimize": opt, "error": repr(e)[:200]})
                break
            try:
                with dask.config.set({"array.optimize-graph": opt}):
                    got = y.compute(**SYNC)
                ok = same(got, want, approx)
                err = None
            except Exception as e:
                ok, err, got, y = False, e, None, None
            if ok:
                if opt and y is not None:
                    derived.append(("prog", y))
                continue
            # is the randomness involved at all?  same program over from_array(r0)
            try:
                with dask.config.set({"array.optimize-graph": opt}):
                    if case["dist"] == "permutation":
                        # the non-random analogue of a permutation is the same take with a fixed index
                        n0 = int(np.prod(case["shape"]))
                        base = da.from_array(np.arange(n0, dtype=np.int64) * 3 + 1, chunks=(tuple(case["chunks"][0]),))
                        from dask_array.slicing._utils import shuffle_slice

                        analog = shuffle_slice(base, np.array([int(v) for v in (r0 - 1) // 3]))
                    else:
                        analog = da.from_array(r0, chunks=x.chunks)
                    alt = run_prog(prog, analog, True).compute(**SYNC)
                generic = not same(alt, want, approx)
            except Exception:
                generic = True
            if generic:
                ctx.notes["generic_program_defects"] = ctx.notes.get("generic_program_defects", 0) + 1
                if len(ctx.extra.setdefault("generic_program_defect_samples", [])) < 3:
                    ctx.extra["generic_program_defect_samples"].append({"prog": prog, "optimize": opt, "error": repr(err)[:200] if err else None})
                continue
            if err is not None:
                if multinomial_rechunk_class(case, err, opt):
                    # the listed class (probe_known (E)): a rechunk (explicit, or inserted by chunk unification of a stack /
                    # elementwise op with a differently chunked operand) pushed through an elementwise op onto the multinomial
                    # array, whose extra (category) axis is not in its chunks operand
                    fail("random:multinomial-rechunk-extra-axis:compute-raises", "a rechunk pushed through an elementwise op onto a multinomial array raises under optimisation",
                         prog=prog, optimize=opt, error=repr(err)[:300])
                    continue
                fail("random:derived-raises", "a program derived from a random array raises (but computes over from_array of the same values)",
                     prog=prog, optimize=opt, error=repr(err)[:300])
            else:
                fail("random:derived", "a program derived from a random array is not computed from x's realisation",
                     prog=prog, optimize=opt, got=short(got), want=short(want))
    # (6) repeated computes in random order: x and its derivations
    colls = [(None, x)] + [(p, y) for (_, y), p in zip(derived, [pr for pr in progs][: len(derived)])]
    order = list(range(len(colls))) * 2
    rng.shuffle(order)
    for i in order:
        p, y = colls[i]
        if p is None:
            if not same(y.compute(**SYNC), r0, False):
                fail("random:recompute-order", "x.compute() after computing derived programs differs from the first realisation")
                break
    # (7) seed vectors on the real objects
    if seeds:
        check_seeds(ctx, case, x, derived[:2])
    return r0


# ---------------------------------------------------------------------------- correspondence

def flat_pairs(ctx):
    from dask_array.random._expr import Random

    rng = ctx.rng
    pairs = []

    class _Stub:
        """stands in for a Random node with the given base block grid: any other attribute the method reads (a helper
        property a refactor may introduce) is taken from the real class's descriptor / function, evaluated on the stub"""

        def __init__(self, nb):
            self._base_chunks = tuple((1,) * n for n in nb)

        def __getattr__(self, name):
            attr = Random.__dict__.get(name)
            if attr is None:
                for klass in Random.__mro__[1:]:
                    if name in klass.__dict__:
                        attr = klass.__dict__[name]
                        break
            if attr is None:
                raise AttributeError(name)
            func = getattr(attr, "func", None) or getattr(attr, "fget", None)
            if func is not None:  # cached_property / property
                return func(self)
            if callable(attr):
                return types.MethodType(attr, self)
            return attr

    def impl(nb, bid):
        try:
            return f"ok {Random._block_id_to_flat_index(_Stub(nb), tuple(bid))}"
        except Exception as e:  # a disagreement with the model, not a harness error
            return f"err {type(e).__name__}"

    hi = ctx.scale(3, 4)
    for r in range(0, 4):
        for nb in itertools.product(range(1, hi + 1), repeat=r):
            if int(np.prod(nb)) > 40:
                continue
            for bid in itertools.product(*[range(n) for n in nb]):
                pairs.append((f"hs.flat_index {f_list(nb)} {f_list(bid)}", impl(nb, bid)))
                # extra_chunks coordinate(s) (always 0) are ignored
                pairs.append((f"hs.flat_index {f_list(nb)} {f_list(bid + (0,))}", impl(nb, bid + (0,))))
    for _ in range(ctx.scale(2000, 30000)):
        r = rng.randint(1, 6)
        nb = [rng.choice([1, 2, 3, 7, 50, 1000]) for _ in range(r)]
        bid = [rng.randrange(n) for n in nb]
        pairs.append((f"hs.flat_index {f_list(nb)} {f_list(bid)}", impl(nb, bid)))
    # real nodes (incl. multinomial's extra chunk axis): the method on the real expression
    import dask_array as da

    for _ in range(ctx.scale(10, 60)):
        shape = tuple(rng.randint(1, 6) for _ in range(rng.randint(1, 3)))
        chunks = P.rand_chunks_nd(rng, shape)
        g = da.random.default_rng(rng.randint(0, 99))
        x = g.multinomial(5, [0.5, 0.5], size=shape, chunks=chunks) if rng.random() < 0.4 else g.random(size=shape, chunks=chunks)
        nb = [len(c) for c in x.expr._base_chunks]
        for bid in itertools.product(*[range(len(c)) for c in x.chunks]):
            pairs.append((f"hs.flat_index {f_list(nb)} {f_list(bid)}", f"ok {x.expr._block_id_to_flat_index(bid)}"))
    return pairs


def grid_pairs(ctx):
    pairs = []
    for r in range(0, 4):
        for nb in itertools.product(range(0, 4), repeat=r):
            g = list(itertools.product(*[range(n) for n in nb]))
            # the driver prints a list of lists: "-" when there is no block, "_" for the empty block id
            txt = "-" if not g else ";".join(f_list(b) for b in g)
            pairs.append((f"hs.grid {f_list(nb)}", "ok " + txt))
    return pairs


def draw_pairs(ctx):
    """Which seed-sequence children a sequence of constructions from ONE generator draws."""
    import dask_array as da

    rng = ctx.rng
    pairs = []
    for _ in range(ctx.scale(40, 400)):
        seed = rng.randint(0, 10**6)
        kind = rng.choice(["default_rng", "PCG64", "MT19937", "Philox", "SFC64"])
        g = make_gen(kind, seed)
        spawned = 0
        for _ in range(rng.randint(1, 5)):
            shape = tuple(rng.randint(1, 5) for _ in range(rng.randint(1, 3)))
            chunks = P.rand_chunks_nd(rng, shape)
            dist = rng.choice(["random", "normal", "poisson", "integers", "multinomial"])
            x = build_one(g, kind, dist, shape, chunks)
            ss = x.expr.bitgens
            n = len(ss)
            ok = all(isinstance(s, np.random.SeedSequence) and s.entropy == seed and len(s.spawn_key) == 1 for s in ss)
            impl = "ok " + f_list([s.spawn_key[0] for s in ss]) + f" {g._bit_generator._seed_seq.n_children_spawned}" if ok else "err shape-of-seed-sequences"
            pairs.append((f"hs.draw g {seed} {spawned} {n}", impl))
            spawned += n
    return pairs


# ---------------------------------------------------------------------------- search

def rand_case(rng, kinds=GEN_KINDS, dists=None):
    kind = rng.choice(kinds)
    dist = rng.choice(dists or [d for d in DISTS])
    if dist == "choice" and is_generator_kind(kind):
        # Generator.choice is a known class (probe_known): stateful bit generators in the graph
        dist = "integers"
    rank = rng.choice([1, 1, 2, 2, 3])
    if rng.random() < 0.08:
        rank = 0  # a 0-d random array (size=()): one block of size ()
    if dist in ("permutation", "choice"):
        rank = 1
    shape = [rng.randint(1, 7) for _ in range(rank)]
    if rank and rng.random() < 0.05 and dist not in ("permutation", "choice"):
        shape[rng.randrange(rank)] = 0
    chunks = [list(c) for c in P.rand_chunks_nd(rng, shape)]
    case = {"kind": kind, "seed": rng.randint(0, 2**31 - 1), "dist": dist, "shape": shape, "chunks": chunks}
    if rng.random() < 0.35:
        case["prefix"] = []
        for _ in range(rng.randint(1, 2)):
            n = rng.randint(1, 4)
            case["prefix"].append([rng.choice(["random", "normal", "poisson"]), [n], [[n]]])
    return case


def probe_known(ctx):
    """Classes the random stream avoids because they fail on the unchanged tree (reported as findings)."""
    import dask_array as da

    # (A) array-valued distribution parameter that the optimiser rewrites: the Random node is re-instantiated
    #     (type(node)(*operands)) and draws fresh seeds from the advanced generator
    for kind in ("default_rng", "RandomState"):
        try:
            g = make_gen(kind, 7)
            z = g.normal(np.zeros(4), 1.0, size=4, chunks=2)
            a = z.compute(**SYNC)
            b = z[:2].compute(**SYNC)
            c = (z + 0).compute(**SYNC)
            ctx.count(("probe", "array-param", kind))
            if not (np.array_equal(b, a[:2]) and np.array_equal(c, a)):
                ctx.fail("random:array-param-node-rebuilt",
                         {"kind": kind, "seed": 7, "program": "z = g.normal(np.zeros(4), 1.0, size=4, chunks=2); a = z.compute(); z[:2].compute() != a[:2]; (z+0).compute() != a",
                          "got": b.tolist(), "want": a[:2].tolist()},
                         "a random array with an array-valued parameter: a derived computation whose optimisation rewrites the parameter expression re-instantiates the Random node, which draws fresh per-block seeds")
        except Exception as e:
            ctx.notes[f"probe.array-param.{kind}"] = "raises " + repr(e)[:120]
    # (B) Generator.choice: the per-block BitGenerator OBJECTS are embedded in the graph and advanced by every compute
    try:
        g = make_gen("default_rng", 7)
        c = g.choice(5, size=4, chunks=4)
        a = c.compute(**SYNC)
        b = c.compute(**SYNC)
        ctx.count(("probe", "generator-choice"))
        if not np.array_equal(a, b):
            ctx.fail("random:generator-choice-recompute",
                     {"kind": "default_rng", "seed": 7, "program": "c = da.random.default_rng(7).choice(5, size=4, chunks=4); c.compute() != c.compute()",
                      "got": b.tolist(), "want": a.tolist()},
                     "Generator.choice: repeated computes of the same array give different values (stateful BitGenerator objects in the graph)")
    except Exception as e:
        ctx.notes["probe.generator-choice"] = "raises " + repr(e)[:120]
    # (C) choice with an array population: the population expression is rewritten, the node re-instantiated,
    #     and its lazily drawn state_data is drawn again from the advanced state
    try:
        g = make_gen("RandomState", 5)
        c = g.choice(da.from_array(np.arange(10), chunks=5), size=8, chunks=3)
        a = c.compute(**SYNC)
        b = c[2:7].compute(**SYNC)
        ctx.count(("probe", "choice-array-population"))
        if not np.array_equal(b, a[2:7]):
            ctx.fail("random:choice-array-population-node-rebuilt",
                     {"kind": "RandomState", "seed": 5, "program": "c = RandomState(5).choice(da.from_array(np.arange(10), chunks=5), size=8, chunks=3); c[2:7].compute() != c.compute()[2:7]",
                      "got": b.tolist(), "want": a[2:7].tolist()},
                     "choice over an array population: a slice of the array is computed from a different realisation")
    except Exception as e:
        ctx.notes["probe.choice-array-population"] = "raises " + repr(e)[:120]
    # (D) choice arrays advertise a 0-d meta: programs derived from them raise (AxisError at compute; concatenate refuses)
    try:
        g = make_gen("RandomState", 3)
        x = g.choice(9, size=(3,), chunks=2)
        a = x.compute(**SYNC)
        ctx.count(("probe", "choice-meta"))
        got = da.cumsum(x[:, None], axis=0).compute(**SYNC)
        if not np.array_equal(got, np.cumsum(a[:, None], axis=0)):
            ctx.fail("random:choice-derived", {"kind": "RandomState", "seed": 3, "program": "cumsum(x[:, None], axis=0)", "got": got.tolist()}, "wrong data")
    except Exception as e:
        ctx.fail("random:choice-derived:compute-raises",
                 {"kind": "RandomState", "seed": 3, "program": "x = da.random.RandomState(3).choice(9, size=(3,), chunks=2); da.cumsum(x[:, None], axis=0).compute()",
                  "error": repr(e)[:200], "meta_ndim": int(getattr(x._meta, "ndim", -1)) if "x" in dir() else None},
                 "a program derived from a choice array cannot be computed (the array's meta is 0-d while the array is 1-d)")
    # (E) multinomial: a rechunk that splits the extra (category) axis, pushed through an elementwise op with another operand
    try:
        g = make_gen("default_rng", 5)
        x = g.multinomial(7, [0.2, 0.3, 0.5], size=(2,), chunks=((2,),))
        a = x.compute(**SYNC)
        v2 = da.from_array(np.arange(3), chunks=3)
        ctx.count(("probe", "multinomial-rechunk"))
        got = da.where(x > v2, x, v2).rechunk(((2,), (1, 1, 1))).compute(**SYNC)
        if not np.array_equal(got, np.where(a > np.arange(3), a, np.arange(3))):
            ctx.fail("random:multinomial-rechunk-extra-axis", {"kind": "default_rng", "seed": 5, "got": got.tolist()}, "wrong data")
    except Exception as e:
        ctx.fail("random:multinomial-rechunk-extra-axis:compute-raises",
                 {"kind": "default_rng", "seed": 5,
                  "program": "x = da.random.default_rng(5).multinomial(7, [0.2,0.3,0.5], size=(2,), chunks=((2,),)); v2 = da.from_array(np.arange(3), chunks=3); "
                             "da.where(x > v2, x, v2).rechunk(((2,), (1, 1, 1))).compute()", "error": repr(e)[:200]},
                 "a rechunk of the category axis pushed through an elementwise op onto a multinomial array raises under optimisation (computes with from_array of the same values and with array.optimize-graph=False)")


def probe_same_seed_layouts(ctx):
    """two equally seeded generators drawing the same distribution / size with DIFFERENT chunkings (equal and unequal block
    counts), both arrays alive: each must have its own chunks and block shapes and both must be reproducible — whatever
    names a random array must tell the two layouts apart (forced in every run: not left to the random draws)"""
    import dask_array as da

    layouts = [((4, 6), (2, 6), (4, 3)), ((10,), (5,), ((4, 6),)), ((6, 4), (3, 2), (2, 4)), ((8,), (4,), (2,))]
    for kind in ("default_rng", "RandomState"):
        for dist in ("normal", "random", "integers"):
            for shape, ca, cb in layouts:
                def draw(chunks, kind=kind, dist=dist, shape=shape):
                    g = da.random.default_rng(2024) if kind == "default_rng" else da.random.RandomState(2024)
                    if dist == "normal":
                        return g.normal(size=shape, chunks=chunks)
                    if dist == "random":
                        return g.random(size=shape, chunks=chunks) if kind == "default_rng" else g.random_sample(size=shape, chunks=chunks)
                    return g.integers(0, 100, size=shape, chunks=chunks) if kind == "default_rng" else g.randint(0, 100, size=shape, chunks=chunks)

                case = {"probe": "same-seed-layouts", "kind": kind, "dist": dist, "shape": list(shape), "chunks_a": repr(ca), "chunks_b": repr(cb)}
                try:
                    a = draw(ca)
                    b = draw(cb)
                    from dask_array._core_utils import normalize_chunks

                    want_b = normalize_chunks(cb, shape)
                    ctx.count(("probe", "same-seed-layouts", kind, dist))
                    if tuple(b.chunks) != tuple(want_b):
                        ctx.fail("random:same-seed-other-layout:chunks", dict(case, got=repr(b.chunks), want=repr(want_b)),
                                 "a random array built while an equally seeded one with another chunking is alive has that one's chunks")
                        continue
                    vb = b.compute(**SYNC)
                    va = a.compute(**SYNC)
                    if vb.shape != tuple(shape) or va.shape != tuple(shape):
                        ctx.fail("random:same-seed-other-layout:shape", dict(case, got=[list(va.shape), list(vb.shape)]), "wrong computed shape")
                        continue
                    del a
                    b2 = draw(cb)
                    if not same(b2.compute(**SYNC), vb, False):
                        ctx.fail("random:same-seed-other-layout:values", case,
                                 "the same seeded draw gives other values depending on whether an equally seeded array with another chunking is alive")
                except Exception as e:  # noqa: BLE001
                    ctx.fail("random:same-seed-other-layout:raises", dict(case, error=repr(e)[:200]), "drawing two equally seeded arrays with different chunkings raises")


def probe_generic_array_param(ctx):
    """(F) listed class: every distribution except normal / poisson keeps an array-valued parameter as a whole COLLECTION
    inside the generic Random node's args / kwargs operands; with more than one output block every task hands the whole
    parameter to NumPy next to its own block size"""
    import dask_array as da

    try:
        x = da.random.default_rng(5).uniform(np.array([0.0, 1.0, 2.0]), 5.0, size=(4, 3), chunks=(2, 3))
        a = x.compute(**SYNC)
        ctx.count(("probe", "generic-array-param"))
        if a.shape != (4, 3) or not (np.all(a >= np.array([0.0, 1.0, 2.0])) and np.all(a < 5.0)):
            ctx.fail("random:array-param:generic-distribution", {"kind": "default_rng", "seed": 5, "got": a.tolist()}, "wrong data")
    except Exception as e:
        ctx.fail("random:array-param:generic-distribution:compute-raises",
                 {"kind": "default_rng", "seed": 5,
                  "program": "da.random.default_rng(5).uniform(np.array([0.,1.,2.]), 5.0, size=(4,3), chunks=(2,3)).compute()", "error": repr(e)[:200]},
                 "a random array of a distribution other than normal / poisson with an array-valued parameter and more than one output block cannot be computed")


# ---------------------------------------------------------------------------- array-valued parameters (normal / poisson)

AP_SIG_KNOWN = "random:array-param-node-rebuilt"


def _all_random_nodes(expr):
    """Random nodes of a tree, looking inside fused groups too"""
    from dask_array.random._expr import Random

    out, seen = [], set()

    def rec(n):
        if n._name in seen:
            return
        seen.add(n._name)
        if isinstance(n, Random):
            out.append(n)
        for inner in getattr(n, "exprs", None) or []:
            rec(inner)
        for d in n.dependencies():
            rec(d)

    rec(expr)
    return out


def check_arrayparam(ctx, case, count=True):
    """A seeded normal / poisson draw whose parameters are arrays (NumPy or dask, output-shaped or broadcast):
    repeated computes, a rebuild from equal inputs (values, NAME, graph keys), pickle round trip, persist, a fresh
    collection, optimize(), optimize-graph off.  Value facts of a program whose optimisation renames the parameter
    expression (so that the Random node is re-instantiated: the listed class (A) `random:array-param-node-rebuilt`)
    are counted, not reported; names and repeated computes are checked for every case."""
    import dask
    import dask_array as da
    from harness.props_ext import c04_operands as OP

    cfg = {"array.chunk-size": case["chunk_size"]} if case.get("chunk_size") else {}

    def fail(sig, what, **kw):
        # the first three inputs of a signature are reported, further ones counted
        k = "arrayparam_failing_inputs:" + sig
        ctx.notes[k] = ctx.notes.get(k, 0) + 1
        if ctx.notes[k] <= 3 or not count:
            ctx.fail(sig, dict(case, **kw), what + "  [" + OP._describe_arrayparam(case) + "]")

    with dask.config.set(cfg):
        try:
            x, want = OP.build_arrayparam(case)
        except (NotImplementedError, ValueError, TypeError) as e:
            ctx.notes["arrayparam_refused"] = ctx.notes.get("arrayparam_refused", 0) + 1
            ctx.notes.setdefault("arrayparam_refused_sample", repr(e)[:120])
            return
        try:
            r0 = x.compute(**SYNC)
        except Exception as e:
            fail("random:compute-raises", "a seeded random array with array-valued parameters cannot be computed", error=repr(e)[:300])
            return
        if count:
            hows = tuple(sorted({p["how"] for p in case["params"]}))
            ctx.count(("arrayparam", case["front"], case["dist"], hows, len(case["shape"]), int(np.prod(x.numblocks)) > 1,
                       "auto" if not isinstance(case.get("chunks", "auto"), list) else "explicit"))
        # (1) repeated computes
        for kw in (SYNC, {"scheduler": "threads"}):
            if not same(x.compute(**kw), r0, False):
                fail("random:recompute", "x.compute() twice gives different values", scheduler=kw.get("scheduler"))
                return
        # (2) degenerate parameters: NumPy knows the value of every block
        if want is not None and not (r0.shape == want.shape and np.allclose(r0, want, rtol=1e-9, atol=1e-9)):
            fail("random:array-param:degenerate-value", "a draw at degenerate parameter values (normal(A, 0) = A, poisson(0) = 0) differs from the parameter", got=short(r0), want=short(want))
        # (3) rebuild from equal inputs: name always; values / graph keys unless the listed class applies
        x2, _ = OP.build_arrayparam(case)
        if x2.name != x.name:
            fail("random:rebuild-name", "rebuilding with the same seed, shape, chunks and parameters gives a different name", got=x2.name, want=x.name)
        facts = []  # (signature, what) of value facts that do not hold
        if not same(x2.compute(**SYNC), r0, False):
            facts.append(("random:rebuild", "rebuilding with the same seed, shape, chunks and parameters gives different values"))
        if x2.name == x.name and sorted(map(str, x.__dask_graph__())) != sorted(map(str, x2.__dask_graph__())):
            facts.append(("random:rebuild-keys", "rebuilding with the same seed, shape, chunks and parameters gives other graph keys under the same name"))
        # (4) pickle round trip, fresh collection, persist, optimize, optimize-graph off
        try:
            y = pickle.loads(pickle.dumps(x))
        except Exception as e:
            ctx.notes["pickle_refused"] = repr(e)[:100]
            y = None
        if y is not None:
            if y.name != x.name:
                fail("random:pickle-name", "a pickle round trip changes the name", got=y.name, want=x.name)
            if not same(y.compute(**SYNC), r0, False):
                facts.append(("random:pickle", "pickle round trip changes the values"))
        for sig, what, f in (
            ("random:fresh-collection", "a second collection over the same expression computes other values", lambda: da.Array(x.expr).compute(**SYNC)),
            ("random:persist", "x.persist().compute() differs from x.compute()", lambda: x.persist(**SYNC).compute(**SYNC)),
            ("random:optimize", "x.optimize().compute() differs from x.compute()", lambda: x.optimize().compute(**SYNC)),
        ):
            try:
                if not same(f(), r0, False):
                    facts.append((sig, what))
            except Exception as e:
                facts.append((sig + ":raises", what + " (raises " + repr(e)[:120] + ")"))
        try:
            with dask.config.set({"array.optimize-graph": False}):
                if not same(da.Array(x.expr).compute(**SYNC), r0, False):
                    facts.append(("random:unoptimized", "with array.optimize-graph=False the array computes other values"))
        except Exception as e:
            facts.append(("random:unoptimized:raises", "with array.optimize-graph=False computing raises " + repr(e)[:120]))
        if not same(x.compute(**SYNC), r0, False):
            fail("random:recompute-order", "x.compute() after rebuilding / pickling / persisting differs from the first realisation")
        # is the Random node re-instantiated by optimisation (its parameter expression renamed)?  decided last: asking
        # advances the generator
        try:
            n0 = {n._name for n in _all_random_nodes(x.expr)}
            n1 = {n._name for n in _all_random_nodes(x.expr.optimize())}
            rebuilt = not (n0 <= n1)
        except Exception:
            rebuilt = True
        if count:
            ctx.notes["arrayparam_node_rebuilt_by_optimisation" if rebuilt else "arrayparam_node_kept_by_optimisation"] = \
                ctx.notes.get("arrayparam_node_rebuilt_by_optimisation" if rebuilt else "arrayparam_node_kept_by_optimisation", 0) + 1
        for sig, what in facts:
            if rebuilt:
                ctx.notes["arrayparam_value_facts_in_listed_class_" + AP_SIG_KNOWN] = ctx.notes.get("arrayparam_value_facts_in_listed_class_" + AP_SIG_KNOWN, 0) + 1
            else:
                fail(sig, what)


def gen_arrayparam_case(rng, systematic=None):
    from harness.props_ext import c04_operands as OP

    if systematic is not None:
        front, dist, how, bkind = systematic
        case = OP.gen_arrayparam(rng, dist=dist, front=front, auto=rng.random() < 0.3, how=how)
        for p in case["params"]:
            if p["how"] in ("np", "da") and bkind is not None and len(case["shape"]) > 1:
                p["bshape"] = OP._bshape(bkind, case["shape"])
                if p["how"] == "da":
                    p["chunks"] = [OP._chunking(rng, n) for n in p["bshape"]]
    else:
        case = OP.gen_arrayparam(rng, dist=rng.choice(OP.AP_EXPLICIT))
    case["post"] = None
    if not any(p["how"] in ("np", "da") and p["bshape"] == case["shape"] for p in case["params"]):
        case["size"] = True  # size= can be left out only when a parameter has the output shape
    if rng.random() < 0.35:
        case["prefix"] = rng.randint(1, 2)
    return case


def search_arrayparam(ctx):
    rng = ctx.rng
    t0 = time.time()
    budget = ctx.scale(8, 90)
    # systematic: every front end x {normal, poisson} x NumPy parameter {output-shaped, row, column, vector} and a dask one
    grid = [(k, d, "np", b) for k in GEN_KINDS for d in ("normal:free", "poisson:free") for b in ("full", "row", "col", "vec")]
    grid += [(k, d, "da", None) for k in GEN_KINDS for d in ("normal", "poisson:free")]
    rng.shuffle(grid)
    n = len(grid) + ctx.scale(60, 1500)
    for i in range(n):
        if time.time() - t0 > budget:
            ctx.notes["arrayparam_stopped_on_budget_after"] = i
            break
        case = gen_arrayparam_case(rng, grid[i] if i < len(grid) else None)
        if i < 1:
            ctx.sample({"case": case})
        try:
            with_timeout(60, lambda: check_arrayparam(ctx, case))
        except Hang:
            ctx.fail("random:hang", case, "building / computing a random array with array-valued parameters does not finish within 60 s")
            break
        except Exception as e:
            import traceback

            ctx.fail("random:raises", dict(case, error=repr(e)[:300], traceback=traceback.format_exc()[-1200:]),
                     "recomputing / rebuilding a seeded random array with array-valued parameters raises")
    ctx.notes["arrayparam_grid"] = len(grid)


def search(ctx):
    rng = ctx.rng
    n = ctx.scale(600, 6000)
    # every distribution x generator kind at least once (stratified), then random
    strat = [(k, d) for d in DISTS for k in GEN_KINDS]
    rng.shuffle(strat)
    budget = ctx.scale(22, 400)  # seconds of search proper
    t0 = time.time()
    for i in range(n):
        if time.time() - t0 > budget:
            ctx.notes["search_stopped_on_budget_after"] = i
            break
        if i < len(strat):
            k, d = strat[i]
            case = rand_case(rng, kinds=[k], dists=[d])
        else:
            case = rand_case(rng)
        ctx.sample({"case": case}) if i < 3 else None
        try:
            with_timeout(90, lambda: check_case(ctx, case, nprog=ctx.scale(2, 4), seeds=(i % 3 == 0)))
        except Hang:
            ctx.fail("random:hang", case, "building / optimising / computing a random array and its derived programs does not finish within 90 s")
            break
        except Exception as e:
            import traceback

            ctx.fail("random:raises", dict(case, error=repr(e)[:300], traceback=traceback.format_exc()[-1200:]),
                     "recomputing / rebuilding / deriving from a seeded random array raises")


def targeted(ctx):
    """Disagreements on the flat index / drawn children: lift to real arrays with that block grid."""
    tried = 0
    nrep = sum(1 for d in ctx.disagreements if d["request"].split()[0] == "replay")
    if nrep:
        # the NumPy-only replay of the seed derivation disagrees with the values of a sequence of draws: every access set of that
        # sequence was already played against the access-free baseline in the same group (c23_access.check_group)
        ctx.notes["targeted_search_replay"] = f"{nrep} sequences of draws differ from the NumPy replay of the seed derivation; each was played with every access of its group against the access-free baseline"
    for d in ctx.disagreements[:30]:
        toks = d["request"].split()
        if toks[0] not in ("hs.flat_index", "hs.draw", "hs.grid"):
            continue
        try:
            nb = [int(t) for t in toks[1].split(",")] if toks[0] != "hs.draw" and toks[1] != "_" else [2, 3]
        except ValueError:
            nb = [2, 3]
        nb = [min(max(n, 1), 4) for n in nb][:3] or [2]
        for kind in ("default_rng", "RandomState"):
            case = {"kind": kind, "seed": 11 + tried, "dist": "normal", "shape": [2 * n for n in nb], "chunks": [[2] * n for n in nb]}
            tried += 1
            try:
                with_timeout(60, lambda: check_case(ctx, case, nprog=4))
            except Hang:
                ctx.fail("random:hang", case, "building / optimising / computing a random array does not finish within 60 s")
                ctx.notes["targeted_search"] = f"stopped after a hang ({tried} arrays)"
                return
            except Exception as e:
                import traceback

                ctx.fail("random:raises", dict(case, error=repr(e)[:300], traceback=traceback.format_exc()[-1200:]),
                         "recomputing / rebuilding / deriving from a seeded random array raises")
    ctx.notes["targeted_search"] = f"{tried} random arrays with the disagreeing block grids: recompute / slices / culling / fusion vs first realisation"


def run(ctx, replay=None):
    import warnings

    warnings.simplefilter("ignore")
    np.seterr(all="ignore")
    ctx.rule = (
        "correspondence: exhaustive block grids (rank<=3, <=40 blocks, with and without an extra_chunks coordinate) + seeded random "
        "large grids + real nodes; seed-sequence children of 1-5 successive constructions per generator. search: a case is "
        "(generator kind, seed, distribution, shape, chunking, earlier draws from the same generator); distinct by (kind, distribution, "
        "rank (0-d included), multi-block, prefix) and per derived program by (kind, root op, length, optimised, approx). shared-intermediate stream "
        "(props_ext/c23_shared.py): every scalar-parameter distribution x 4 generator kinds x templates T1..T10 (a fusable chain with two consumers: "
        "the random array's group and a concatenate / stack / reduction / second output / flip / rechunk / second random array) + random DAGs whose "
        "steps take operands from the pool with replacement, vs NumPy on a.compute(); distinct by (kind, distribution, template, optimised). "
        "access stream (props_ext/c23_access.py): sequences of draws from one source with every kind of look at an earlier array (0-d / length-0 / "
        "length-1 / 1-d / 2-d first draw) between the draws, vs the same sequence without the looks; distinct by (kind, access, rank of the "
        "accessed array, dedicated node class)"
    )
    ctx.assumptions = [
        "unseeded generators (seed=None) are out of scope: there is no realisation to reproduce",
        "distribution parameters of the main stream are Python scalars / lists; normal / poisson with array-valued parameters (NumPy and dask arrays, "
        "output-shaped and broadcast, chunks explicit / auto under a small array.chunk-size) have their own stream: repeated computes, rebuild "
        "(values, name, graph keys), pickle, persist, fresh collection, optimize on/off — value facts of programs whose optimisation renames the parameter "
        "expression are the listed class random:array-param-node-rebuilt (counted); array parameters of the other distributions "
        "(random:array-param:generic-distribution:compute-raises), Generator.choice and choice over an array population are listed classes probed separately",
        "float sums / cumsums of derived programs are compared with rtol=1e-9 (summation order differs); everything else bitwise",
        "NumPy's SeedSequence.spawn / BitGenerator streams are deterministic functions of (entropy, spawn_key) (modelled as the abstract `spawn`)",
        "access stream: the NumPy-only replay of the seed derivation (RandomState: 16 root bytes -> SeedSequence -> 128-bit block seeds -> MT19937; "
        "Generator: children of the bit generator's SeedSequence in construction order) is a model-level comparison (a mismatch is a disagreement)",
    ]
    if replay is not None:
        case = replay.get("case", replay)
        if "shared_scenario" in case:  # programs with shared intermediates (props_ext/c23_shared.py)
            try:
                with_timeout(120, lambda: SH.replay(ctx, case))
            except Hang:
                ctx.fail("random:hang", case, "building / computing a program with shared intermediates over a random array does not finish within 120 s")
        elif "access_scenario" in case:  # accesses between successive draws (props_ext/c23_access.py)
            try:
                with_timeout(120, lambda: AC.replay(ctx, case))
            except Hang:
                ctx.fail("random:hang", case, "a sequence of seeded draws with accesses in between does not finish within 120 s")
        elif case.get("kind") == "arrayparam":  # normal / poisson with array-valued parameters
            c = {k: v for k, v in case.items() if k not in ("error", "got", "want", "scheduler")}
            try:
                with_timeout(120, lambda: check_arrayparam(ctx, c))
            except Hang:
                ctx.fail("random:hang", c, "building / computing a random array with array-valued parameters does not finish within 120 s")
        elif "kind" in case and "dist" in case:
            c = {k: case[k] for k in ("kind", "seed", "dist", "shape", "chunks", "prefix") if k in case}
            try:
                with_timeout(120, lambda: check_case(ctx, c, progs=[case["prog"]] if "prog" in case else None, nprog=4))
            except Hang:
                ctx.fail("random:hang", c, "building / optimising / computing a random array does not finish within 120 s")
            except Exception as e:
                ctx.fail("random:raises", dict(c, error=repr(e)[:300]), "recomputing / rebuilding / deriving from a seeded random array raises")
        else:
            probe_known(ctx)
            probe_generic_array_param(ctx)
            ctx.correspond("flat_index", flat_pairs(ctx))
        return
    fk = lambda req, model: (req.split()[0], len(req.split()[1].split(",")), model.split()[0])
    try:
        ctx.correspond("flat_index", with_timeout(120, lambda: flat_pairs(ctx)), branch_key=fk)
        ctx.correspond("grid", grid_pairs(ctx), branch_key=fk)
        ctx.correspond("draw", with_timeout(120, lambda: draw_pairs(ctx)), branch_key=fk)
    except Hang:
        ctx.fail("random:hang", {"where": "constructing random arrays for the correspondence"}, "constructing random arrays does not finish within 120 s")
    ctx.exhaustive = True
    ctx.extra["exhaustive_domain"] = "_block_id_to_flat_index: every block id of every grid of rank<=3 with <=40 blocks (sizes 1..3 quick / 1..4 thorough), with and without a trailing extra_chunks coordinate"
    try:
        with_timeout(60, lambda: probe_known(ctx))
    except Hang:
        ctx.fail("random:hang", {"where": "probe_known"}, "the known-class probes do not finish within 60 s")
    try:
        with_timeout(30, lambda: probe_generic_array_param(ctx))
    except Hang:
        ctx.fail("random:hang", {"where": "probe_generic_array_param"}, "the known-class probe does not finish within 30 s")
    try:
        with_timeout(30, lambda: probe_same_seed_layouts(ctx))
    except Hang:
        ctx.fail("random:hang", {"where": "probe_same_seed_layouts"}, "the same-seed layout probe does not finish within 30 s")
    # programs with SHARED intermediates (fusion groups that receive a substituted external operand) and accesses BETWEEN draws
    try:
        with_timeout(ctx.scale(90, 600), lambda: SH.search(ctx, GEN_KINDS))
    except Hang:
        ctx.fail("random:hang", {"where": "c23_shared.search"}, "programs with shared intermediates over random arrays do not finish within the watchdog time")
    try:
        with_timeout(ctx.scale(90, 600), lambda: AC.search(ctx))
    except Hang:
        ctx.fail("random:hang", {"where": "c23_access.search"}, "sequences of seeded draws with accesses in between do not finish within the watchdog time")
    search(ctx)
    search_arrayparam(ctx)
    if ctx.disagreements:
        targeted(ctx)
