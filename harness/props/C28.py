"""C28 — unknown chunk sizes are resolved exactly or refused.

Correspondence: Lean guard models (Model/Unknown.lean, driver family `uk.*`) vs the real helpers
(`slice_slices_and_integers`, `take`, `_validate_rechunk`, `coarse_blockdim`, `common_blockdim`,
`ChunksOverride._layer`, `compute_chunk_sizes` on mask selections), exhaustive on a small domain,
unknown = np.nan.
Search (independent of the model): data-dependent selections on random arrays x chunkings;
(a) `compute_chunk_sizes()` sets exactly the true per-block sizes, (b) follow-on operations BEFORE
resolving either refuse (raise) or compute NumPy's result, (c) the same operations AFTER resolving
compute NumPy's result.  Optimized and unoptimized graphs.
"""
from __future__ import annotations

import itertools
import math
import warnings

import numpy as np

from harness import gen
from harness.core import err_name, f_slice
from harness.programs import source_data, rand_chunks_nd

NAN = np.nan

# ----------------------------------------------------------------------------- formatting


def f_dim(d):
    d = list(d)
    if not d:
        return "_"
    return ",".join("N" if (isinstance(v, float) and math.isnan(v)) else str(int(v)) for v in d)


def f_layout(l):
    l = list(l)
    return "-" if not l else ";".join(f_dim(d) for d in l)


def f_nat_ll(ll):
    ll = list(ll)
    return "-" if not ll else ";".join("_" if not list(l) else ",".join(str(int(v)) for v in l) for l in ll)


def has_nan(d):
    return any(isinstance(v, float) and math.isnan(v) for v in d)


def impl(fn, fmt):
    try:
        return fmt(fn())
    except (ValueError, IndexError, NotImplementedError, AssertionError, StopIteration, TypeError) as e:
        return err_name(e)


def fake_array(chunks):
    """A dask array advertising `chunks` (nan allowed) over real data (unknown blocks hold 1 row)."""
    import dask_array as da
    from dask_array._expr import ChunksOverride
    from dask_array._new_collection import new_collection

    real = tuple(tuple(1 if (isinstance(v, float) and math.isnan(v)) else int(v) for v in d) for d in chunks)
    x = da.from_array(np.zeros(tuple(sum(d) for d in real), dtype=np.int64), chunks=real)
    if real == tuple(tuple(d) for d in chunks):
        return x
    return new_collection(ChunksOverride(x.expr, tuple(tuple(d) for d in chunks)))


# ----------------------------------------------------------------------------- correspondence


def correspondence(ctx):
    import dask_array as da
    from dask_array.slicing import _basic as B
    from dask_array.slicing import _utils as U
    from dask_array._rechunk import _validate_rechunk
    from dask_array._expr import coarse_blockdim, ChunksOverride
    from dask_array._core_utils import common_blockdim

    rng = ctx.rng
    warnings.simplefilter("ignore")

    # --- slice_slices_and_integers guard + chunks
    vals = (NAN, 0, 1, 2, 3)
    dims = [()] and []
    for L in (1, 2, 3):
        for t in itertools.product(vals, repeat=L):
            if L == 3 and rng.random() > ctx.scale(0.25, 1.0):
                continue
            dims.append(t)
    raw_unknown = [slice(None), slice(0, None), slice(None, None, -1), slice(1, 3), slice(None, None, 2), 0, 1, -1]
    pairs = []

    def idx_for(d):
        if has_nan(d):
            return raw_unknown
        n = int(sum(d))
        out = [slice(None)]
        for s in (slice(1, None), slice(None, 2), slice(None, None, -1), slice(1, 3, 2), slice(2, 0, -1), slice(0, 0), slice(None, None, 2), slice(3, None, -2)):
            out.append(U.normalize_slice(s, n))
        out += [i for i in (0, 1, n - 1) if 0 <= i < n]
        return list(dict.fromkeys(out, None)) if False else out

    def f_idx(i):
        return f_slice(i) if isinstance(i, slice) else str(int(i))

    def run_slice(chunks, index):
        x = fake_array(chunks)
        return B.slice_slices_and_integers(x.expr, tuple(index)).chunks

    for d in dims:
        for i in idx_for(d):
            pairs.append((f"uk.slice {f_layout([d])} {f_idx(i)}", impl(lambda: run_slice((d,), (i,)), lambda r: "ok " + f_layout(r))))
    small = [d for d in dims if len(d) <= 2]
    for _ in range(ctx.scale(400, 4000)):
        d1, d2 = rng.choice(small), rng.choice(small)
        i1, i2 = rng.choice(idx_for(d1)), rng.choice(idx_for(d2))
        pairs.append((f"uk.slice {f_layout([d1, d2])} {f_idx(i1)} {f_idx(i2)}",
                      impl(lambda: run_slice((d1, d2), (i1, i2)), lambda r: "ok " + f_layout(r))))
    ctx.correspond("slice_slices_and_integers", pairs, branch_key=lambda req, out: (out[:6], "N" in req, req.count(" ")))

    # --- take guard
    pairs = []
    for d in dims:
        if not d:
            continue

        def kind():
            x = fake_array((d,))
            r = B.take(x.expr, np.array([0, 0]), axis=0)
            return "ok onechunk" if type(r).__name__ == "TakeUnknownOneChunk" else "ok shuffle"

        pairs.append((f"uk.take {f_dim(d)}", impl(kind, lambda r: r)))
    ctx.correspond("take", pairs, branch_key=lambda req, out: out)

    # --- _validate_rechunk (exhaustive small: 1 axis all pairs; 2 axes sampled)
    pairs = []
    vd = [t for L in (1, 2, 3) for t in itertools.product((NAN, 1, 2, 3), repeat=L)]
    for o in vd:
        for n in vd:
            pairs.append((f"uk.validate_rechunk {f_layout([o])} {f_layout([n])}", impl(lambda: _validate_rechunk((o,), (n,)), lambda r: "ok")))
    for _ in range(ctx.scale(1500, 20000)):
        k = rng.choice([1, 2, 2, 3])
        o = tuple(rng.choice(vd) for _ in range(k))
        n = list(o)
        for j in range(k):
            r = rng.random()
            if r < 0.35:
                n[j] = rng.choice(vd)
            elif r < 0.6 and not has_nan(o[j]):
                n[j] = gen.rand_chunks(rng, int(sum(o[j])))
        if rng.random() < 0.05:
            n = n[:-1]
        pairs.append((f"uk.validate_rechunk {f_layout(o)} {f_layout(n)}", impl(lambda: _validate_rechunk(o, tuple(n)), lambda r: "ok")))
    ctx.correspond("_validate_rechunk", pairs, branch_key=lambda req, out: (out, "N" in req))

    # --- coarse_blockdim / common_blockdim with unknown dims (positive sizes; order-independent inputs)
    pairs = []
    ud = [t for L in (1, 2, 3) for t in itertools.product((NAN, 1, 2, 3), repeat=L)]
    sets = [(a,) for a in ud] + [(a, b) for a in ud for b in ud if a != b]
    sets += [tuple(rng.sample(ud, 3)) for _ in range(ctx.scale(300, 4000))]
    skipped = 0
    for bd in sets:
        unknown = {d for d in bd if has_nan(d)}
        if not unknown:
            if rng.random() > 0.15:
                continue  # known-only sets are C17's domain; keep a sample
        # coarse: `first(unknown_dims)` depends on set order when several distinct unknown dims pass
        if len(unknown) <= 1 or len({len(d) for d in bd}) > 1:
            pairs.append((f"uk.coarse {f_layout(bd)}", impl(lambda: coarse_blockdim(set(bd)), lambda r: "ok " + f_dim(r))))
        else:
            skipped += 1
        # common: max(key=first) over single-block dims with a nan key depends on set order
        nt = {d for d in bd if len(d) > 1}
        if nt or not unknown or len(set(bd)) == 1:
            pairs.append((f"uk.common {f_layout(bd)}", impl(lambda: common_blockdim(set(bd)), lambda r: "ok " + f_dim(r))))
        else:
            skipped += 1
    ctx.notes["unify_order_dependent_inputs_skipped"] = skipped
    ctx.correspond("coarse/common_blockdim(nan)", pairs, branch_key=lambda req, out: (req.split()[0], out[:6], "N" in out))

    # --- ChunksOverride alias grid
    pairs = []
    for L in ([(NAN, NAN)], [(NAN,), (2, 1)], [(1, NAN, 2), (NAN, NAN)], [(3,)], [(NAN, NAN), (NAN,), (1, 1)]):
        x = fake_array(tuple(L))
        keys = sorted(k[1:] for k in ChunksOverride(x.expr, tuple(L))._layer())
        pairs.append((f"uk.override_grid {f_layout(L)}", "ok " + f_nat_ll(keys)))
    ctx.correspond("ChunksOverride._layer", pairs)

    # --- compute_chunk_sizes on mask selections: exhaustive chunkings x masks
    NEX = ctx.scale(4, 6)
    pairs = []
    for n in range(1, NEX + 1):
        xs = np.arange(n)
        x2 = np.broadcast_to(np.arange(n), (2, n)).copy()
        for cks in gen.compositions(n):
            d = da.from_array(xs, chunks=(cks,))
            d2 = da.from_array(x2, chunks=((2,), cks))
            for bits in itertools.product((0, 1), repeat=n):
                if n >= 5 and rng.random() > 0.3:
                    continue
                mk = np.array(bits, dtype=bool)
                dm = da.from_array(mk, chunks=(cks,))
                y = d[dm]
                y.compute_chunk_sizes()
                bs = "".join(map(str, bits))
                pairs.append((f"uk.mask_sizes {f_dim(cks)} {bs}", "ok " + f_dim(y.chunks[0])))
                z = d2[:, dm]
                blocks = [np.asarray(b.compute())[0].tolist() for b in z.to_delayed().ravel()]
                pairs.append((f"uk.mask_positions {f_dim(cks)} {bs}", "ok " + f_nat_ll(blocks)))
    ctx.correspond("compute_chunk_sizes(mask)", pairs, branch_key=lambda req, out: (req.split()[0], out.count("0") > 0, len(out) // 4))
    ctx.exhaustive = True
    ctx.extra["exhaustive_domain"] = (
        f"guards: all 1-axis layouts with ≤3 blocks over {{nan,0,1,2,3}} x 8-11 index forms; _validate_rechunk: all pairs of 1-axis "
        f"layouts ≤3 blocks over {{nan,1,2,3}}; unify: all 1- and 2-element sets of those; compute_chunk_sizes: all chunkings x all masks, n≤{min(NEX,4)}"
    )


# ----------------------------------------------------------------------------- search: selections and follow-on ops


def pred(m, v, spec):
    k = spec[0]
    if k == "mod":
        return v % spec[1] != 0
    if k == "out":
        return (v < spec[1]) | (v > spec[2])
    if k == "gt":
        return v > spec[1]
    raise KeyError(k)


def rand_pred(rng, data):
    lo, hi = (int(data.min()), int(data.max())) if data.size else (0, 1)
    r = rng.random()
    if r < 0.35:
        return ["mod", rng.choice([2, 3, 4])]
    if r < 0.75:
        a = rng.randint(lo, hi)
        b = rng.randint(a, hi)
        return ["out", a, b]
    return ["gt", rng.randint(lo - 1, hi)]


def vec_for(m, n, chunks, spec):
    v = (np.arange(n, dtype=np.int64) * spec.get("vmul", 1)) % spec.get("vmod", 1 << 40)
    if m is np:
        return v
    return m.from_array(v, chunks=(tuple(chunks),))


def build_sel(sel, src, m):
    """The data-dependent selection `sel` of source `src`, evaluated with module m (np or dask_array)."""
    data = source_data(src)
    x = data if m is np else m.from_array(data, chunks=tuple(tuple(c) for c in src["chunks"]))
    k = sel["kind"]
    p = sel.get("pred")
    if k == "mask_full_da":
        return x[pred(m, x, p)]
    if k == "mask_full_np":
        return x[pred(np, data, p)]
    if k in ("mask_axis", "compress"):
        ax = sel["axis"]
        vc = sel.get("vchunks") or src["chunks"][ax]
        mk = pred(m, vec_for(m, data.shape[ax], vc, sel), p)
        if k == "compress":
            return m.compress(mk, x, axis=ax)
        return x[(slice(None),) * ax + (mk,)]
    if k == "mask_nd":
        # full-rank boolean mask that carries its OWN chunking (sel["mchunks"]), independent of x's chunking
        w = source_data({"shape": src["shape"], "mul": sel.get("wmul", 1), "off": sel.get("woff", 0), "mod": sel.get("wmod", 1 << 40)})
        mk = sel["mkind"]
        mc = tuple(tuple(c) for c in sel["mchunks"])
        if m is np:
            mask = pred(np, data if mk in ("expr", "expr_rechunk") else w, p)
        elif mk == "np":
            mask = pred(np, w, p)
        elif mk == "da":
            mask = m.from_array(pred(np, w, p), chunks=mc)
        elif mk == "da_rechunk":
            mask = m.from_array(pred(np, w, p), chunks=tuple(tuple(c) for c in src["chunks"])).rechunk(mc)
        elif mk == "expr":
            mask = pred(m, x, p)
        elif mk == "expr_rechunk":
            mask = pred(m, x.rechunk(mc), p)
        elif mk == "other_expr":
            mask = pred(m, m.from_array(w, chunks=mc), p)
        else:
            raise KeyError(mk)
        form = sel.get("form", "getitem")
        if form == "extract":
            return m.extract(mask, x)
        if form == "ellipsis":
            return x[mask, ...]
        if form == "flatnonzero":
            return m.flatnonzero(mask)
        return x[mask]
    if k == "unique":
        return m.unique(x)
    if k == "nonzero":
        return m.nonzero(pred(m, x, p))[sel["i"]]
    if k == "where1":
        return m.where(pred(m, x, p))[sel["i"]]
    if k == "argwhere":
        return m.argwhere(pred(m, x, p))
    if k == "flatnonzero":
        return m.flatnonzero(pred(m, x, p))
    if k == "extract":
        return m.extract(pred(m, x, p), x)
    raise KeyError(k)


def known_partner(m, case):
    kp = case["known"]
    v = np.arange(kp["n"], dtype=np.int64) * 10
    return v if m is np else m.from_array(v, chunks=(tuple(kp["chunks"]),))


def _ax_index(a, ax, i):
    return a[(slice(None),) * ax + (i,)]


def _setitem_mask(m, a, t):
    b = a.copy()
    b[b > t] = -1
    return b


def _setitem_slice(m, a, ax):
    b = a.copy()
    b[(slice(None),) * ax + (slice(1, 3),)] = -7
    return b


# follow-on operations: name -> f(m, a, b, u, o) ; u = an unknown axis of a, o = another axis or None
UNARY_OPS = {
    "elemwise": lambda m, a, b, u, o: a * 2 + 1,
    "sum_all": lambda m, a, b, u, o: a.sum(),
    "sum_u": lambda m, a, b, u, o: a.sum(axis=u),
    "sum_u_keep": lambda m, a, b, u, o: a.sum(axis=u, keepdims=True),
    "max_all": lambda m, a, b, u, o: a.max(),
    "mean_all": lambda m, a, b, u, o: a.mean(),
    "any_u": lambda m, a, b, u, o: (a > 2).any(axis=u),
    "slice_full": lambda m, a, b, u, o: a[...][(slice(None),) * a.ndim],
    "slice_rev": lambda m, a, b, u, o: _ax_index(a, u, slice(None, None, -1)),
    "slice_rev2": lambda m, a, b, u, o: _ax_index(a, u, slice(None, None, -2)),
    "slice_2_5": lambda m, a, b, u, o: _ax_index(a, u, slice(2, 5)),
    "slice_neg": lambda m, a, b, u, o: _ax_index(a, u, slice(-2, None)),
    "slice_4_1_m1": lambda m, a, b, u, o: _ax_index(a, u, slice(4, 1, -1)),
    "int0": lambda m, a, b, u, o: _ax_index(a, u, 0),
    "int_last": lambda m, a, b, u, o: _ax_index(a, u, -1),
    "take_list": lambda m, a, b, u, o: _ax_index(a, u, [1, 0, 1]),
    "rechunk_u": lambda m, a, b, u, o: a if m is np else a.rechunk({u: 2}),
    "rechunk_same": lambda m, a, b, u, o: a if m is np else a.rechunk(a.chunks),
    "rechunk_one": lambda m, a, b, u, o: a if m is np else a.rechunk({u: -1}),
    "concat_u": lambda m, a, b, u, o: m.concatenate([a, a], axis=u),
    "stack_self": lambda m, a, b, u, o: m.stack([a, a * 2]),
    "transpose": lambda m, a, b, u, o: a.T,
    "len": lambda m, a, b, u, o: len(a),
    "cumsum_u": lambda m, a, b, u, o: m.cumsum(a, axis=u),
    "flip_u": lambda m, a, b, u, o: m.flip(a, u),
    "roll_u": lambda m, a, b, u, o: m.roll(a, 1, axis=u),
    "diff_u": lambda m, a, b, u, o: m.diff(a, axis=u),
    "repeat_u": lambda m, a, b, u, o: m.repeat(a, 2, axis=u),
    "tile": lambda m, a, b, u, o: m.tile(a, 2),
    "ravel": lambda m, a, b, u, o: a.ravel(),
    "expand_dims": lambda m, a, b, u, o: m.expand_dims(a, 0),
    "argmax_u": lambda m, a, b, u, o: a.argmax(axis=u),
    "where3": lambda m, a, b, u, o: m.where(a > 2, a, -a),
    "astype": lambda m, a, b, u, o: a.astype(np.int32),
    "map_blocks": lambda m, a, b, u, o: a * 2 if m is np else a.map_blocks(lambda blk: blk * 2, dtype=a.dtype),
    "mask_again": lambda m, a, b, u, o: a[a % 2 == 0] if a.ndim == 1 else a.ravel()[a.ravel() % 2 == 0] if m is np else a[a % 2 == 0],
    "setitem_mask": lambda m, a, b, u, o: _setitem_mask(m, a, 3),
    "setitem_slice": lambda m, a, b, u, o: _setitem_slice(m, a, u),
    "broadcast_to": lambda m, a, b, u, o: m.broadcast_to(a, (2,) + tuple(a.shape)),
    "dot_self": lambda m, a, b, u, o: m.tensordot(a, a, axes=((u,), (u,))),
}
OTHER_AXIS_OPS = {
    "sum_o": lambda m, a, b, u, o: a.sum(axis=o),
    "slice_o": lambda m, a, b, u, o: _ax_index(a, o, slice(1, None, 2)),
    "slice_o_rev": lambda m, a, b, u, o: _ax_index(a, o, slice(None, None, -1)),
    "int_o": lambda m, a, b, u, o: _ax_index(a, o, 0),
    "rechunk_o": lambda m, a, b, u, o: a if m is np else a.rechunk({o: 1}),
    "concat_o": lambda m, a, b, u, o: m.concatenate([a, a], axis=o),
    "cumsum_o": lambda m, a, b, u, o: m.cumsum(a, axis=o),
    "take_o": lambda m, a, b, u, o: _ax_index(a, o, [0, 0]),
}
BINARY_OPS = {
    "add": lambda m, a, b, u, o: a + b,
    "where_gt": lambda m, a, b, u, o: m.where(a > b, a, b),
    "maximum": lambda m, a, b, u, o: m.maximum(a, b),
    "concat_ab": lambda m, a, b, u, o: m.concatenate([a, b], axis=u),
    "stack_ab": lambda m, a, b, u, o: m.stack([a, b]),
    "dot_ab": lambda m, a, b, u, o: m.tensordot(a, b, axes=((u,), (u,))),
    "mask_by_b": lambda m, a, b, u, o: a[b > 1],
}
ELEMWISE_BINARY = {"add", "where_gt", "maximum"}
ALL_OPS = {**UNARY_OPS, **OTHER_AXIS_OPS, **BINARY_OPS}


def _dec_index(step):
    return tuple(Ellipsis if e[0] == "e" else slice(*e[1:]) if e[0] == "s" else int(e[1]) for e in step)


def chain_fn(case):
    """op 'chain': chained basic indexing (case["chain"]: list of steps, a step = one entry per current axis,
    ["s", start, stop, step] or ["i", k]) followed by the reduction case["red"] = [name, axis-or-None]."""
    steps = [_dec_index(st) for st in case["chain"]]
    red = case.get("red") or ["none", None]

    def f(m, a, b, u, o):
        for st in steps:
            a = a[st]
        name, ax = red
        if name == "none":
            return a
        if name == "cumsum":
            return m.cumsum(a, axis=ax)
        if name == "count":
            return (a > 2).sum(axis=ax)
        return getattr(a, name)(axis=ax)

    return f


def op_fn(case):
    if case["op"] == "chain":
        return chain_fn(case)
    return ALL_OPS[case["op"]]


def canon(v):
    if isinstance(v, tuple):
        return np.asarray(v, dtype=float)
    return np.asarray(v)


def same(got, want):
    got, want = canon(got), canon(want)
    if got.shape != want.shape:
        return False
    if got.dtype.kind == "f" or want.dtype.kind == "f":
        return bool(np.allclose(got, want, rtol=1e-12, atol=0, equal_nan=True))
    return bool(np.array_equal(got, want))


def block_shapes(y):
    """true shape of every block, from the graph itself (independent of compute_chunk_sizes)"""
    import dask

    dl = y.to_delayed()
    flat = list(dl.ravel())
    vals = dask.compute(*flat)
    return {idx: np.asarray(v).shape for idx, v in zip(np.ndindex(*dl.shape), vals)}


def eval_case(case):
    """Returns dict(np=('ok',value)|('raise',name), da=('ok',value,shape,chunks)|('raise',name,msg))."""
    import dask
    import dask_array as da

    src = case["src"]
    out = {}
    with warnings.catch_warnings():
        warnings.simplefilter("ignore")
        f = op_fn(case)
        u, o = case.get("u", 0), case.get("o")
        # NumPy oracle
        try:
            a = build_sel(case["sel"], src, np)
            b = None
            if case.get("sel_b"):
                b = build_sel(case["sel_b"], case.get("src_b", src), np)
            elif case.get("known"):
                b = known_partner(np, case)
            out["np"] = ("ok", f(np, a, b, u, o))
        except Exception as e:  # NumPy refuses: the program has no value
            out["np"] = ("raise", type(e).__name__)
        cfg = {"array.optimize-graph": bool(case.get("opt", True))}
        if case.get("policy"):
            cfg["array.unify-chunks-policy"] = case["policy"]
        with dask.config.set(cfg):
            try:
                a = build_sel(case["sel"], src, da)
                b = None
                if case.get("sel_b"):
                    b = build_sel(case["sel_b"], case.get("src_b", src), da)
                elif case.get("known"):
                    b = known_partner(da, case)
                if case["phase"] == "after":
                    a.compute_chunk_sizes()
                    if b is not None and case.get("sel_b"):
                        b.compute_chunk_sizes()
                r = f(da, a, b, u, o)
                if isinstance(r, da.Array):
                    shp, cks = r.shape, r.chunks
                    v = r.compute()
                    out["da"] = ("ok", v, shp, cks)
                else:
                    out["da"] = ("ok", r, None, None)
            except Exception as e:
                out["da"] = ("raise", type(e).__name__, str(e)[:160].replace("\n", " "))
    return out


def judge(case, res):
    """None when the property holds for this case, else (signature, what)."""
    npo, dao = res["np"], res["da"]
    if npo[0] == "raise" and not positional_class(case):
        return None  # the program has no NumPy value: outside the property
    if dao[0] == "raise":
        if case["phase"] == "before":
            return None  # a refusal
        if npo[0] == "raise":
            return None
        return (f"after-resolve:refused:{case['op']}", f"after compute_chunk_sizes the operation raises {dao[1]}: {dao[2]}")
    # dask produced a value
    if npo[0] == "raise":
        return ("value-where-numpy-raises", f"NumPy raises {npo[1]} but dask returns a value of shape {canon(dao[1]).shape}")
    if not same(dao[1], npo[1]):
        return ("wrong-result", f"got {canon(dao[1]).tolist()!r:.120} want {canon(npo[1]).tolist()!r:.120}")
    if dao[2] is not None:
        want_shape = canon(npo[1]).shape
        adv = dao[2]
        if len(adv) != len(want_shape) or any(not (isinstance(s, float) and math.isnan(s)) and int(s) != w for s, w in zip(adv, want_shape)):
            return ("advertised-shape", f"advertised shape {adv} vs computed {want_shape}")
        if case["phase"] == "after" and any(isinstance(s, float) and math.isnan(s) for s in adv) and case["op"] not in ("mask_again", "mask_by_b"):
            return ("after-resolve:still-unknown", f"advertised shape {adv} still unknown after compute_chunk_sizes")
    return None


# ---- documented defect families (DESIGN.md section 8 protocol: avoid predicate + dedicated probe)
ZERO_CHUNK_CLASS = {
    "argmax_u": "argreduce", "max_all": "minmax", "ravel": "reshape", "mask_again": "reshape",
    "add": "broadcast", "where_gt": "broadcast", "maximum": "broadcast", "broadcast_to": "broadcast",
    "repeat_u": "repeat", "mask_by_b": "mask-unify",
}


def classify(case, sig, zero_chunk):
    """Map a failure to the signature of a documented family, else keep `sig`."""
    if positional_class(case) and sig in ("wrong-result", "value-where-numpy-raises"):
        return "unknown-elemwise-positional-blocks"
    if case["op"] == "mask_again" and case["phase"] == "before" and sig == "wrong-result":
        return "unknown-ndmask-order"
    if case["op"] == "mask_by_b" and case["phase"] == "before" and sig == "wrong-result" and len(case["src"]["shape"]) >= 2:
        # the same listed family: a full-rank boolean mask (here b > 1, b chunked like a) on an n-d array with unknown
        # chunks gives the selected elements in block order instead of C order
        return "unknown-ndmask-order"
    if case["phase"] == "after" and zero_chunk and sig.startswith("after-resolve:refused") and case["op"] in ZERO_CHUNK_CLASS:
        return "resolved-zero-chunk:" + ZERO_CHUNK_CLASS[case["op"]]
    return sig


def _src1(shape, chunks, mul=1, off=0, mod=1 << 40):
    return {"op": "src", "shape": list(shape), "chunks": [list(c) for c in chunks], "mul": mul, "off": off, "mod": mod}


PROBES = [
    # (signature, case, what)
    ("unknown-elemwise-positional-blocks",
     {"src": _src1([6], [[3, 3]]), "sel": {"kind": "mask_full_da", "pred": ["out", 1, 2]},  # keeps 0 | 3 4 5 -> true blocks (1, 3)
      "known": {"n": 4, "chunks": [3, 1]}, "op": "add", "phase": "before", "opt": True, "u": 0, "o": None},
     "elementwise op between an unknown-chunk array and another array with the same block COUNT pairs blocks by position "
     "(length-1 blocks broadcast): x=arange(6) chunks 3; a=x[(x<1)|(x>2)]; a + from_array(arange(4)*10, chunks=(3,1)) -> [0,10,20,33,34,35], NumPy [0,13,24,35]"),
    ("unknown-elemwise-positional-blocks",
     {"src": _src1([6], [[3, 3]]), "sel": {"kind": "mask_full_da", "pred": ["out", 1, 2]},
      "sel_b": {"kind": "mask_full_da", "pred": ["out", 4, 5]}, "op": "add", "phase": "before", "opt": False, "u": 0, "o": None},
     "two unknown-chunk arrays with equal block counts are added block by block"),
    ("unknown-ndmask-order",
     {"src": _src1([3, 3], [[1, 1, 1], [2, 1]], mod=5), "sel": {"kind": "argwhere", "pred": ["mod", 4]},
      "op": "mask_again", "phase": "before", "opt": True, "u": 0, "o": 1},
     "full-rank boolean mask on an n-d array with unknown chunks returns the elements in block order, not NumPy's C order (only a warning is emitted)"),
    ("resolved-zero-chunk:argreduce",
     {"src": _src1([4], [[1, 1, 2]], mod=5), "sel": {"kind": "mask_full_da", "pred": ["gt", 2]},
      "op": "argmax_u", "phase": "after", "opt": True, "u": 0, "o": None},
     "argmax over an axis holding a zero-length chunk (as produced by compute_chunk_sizes) raises 'zero-size array to reduction operation'"),
    ("resolved-zero-chunk:minmax",
     {"src": _src1([1, 3, 4], [[1], [3], [1, 2, 1]]), "sel": {"kind": "argwhere", "pred": ["gt", 9]},
      "op": "max_all", "phase": "after", "opt": True, "u": 0, "o": 1},
     "max() of a resolved argwhere result with zero-length chunks raises in the concatenation of partial results"),
    ("resolved-zero-chunk:reshape",
     {"src": _src1([3, 3], [[1, 1, 1], [2, 1]], mod=5), "sel": {"kind": "argwhere", "pred": ["mod", 4]},
      "op": "ravel", "phase": "after", "opt": True, "u": 0, "o": 1},
     "ravel/reshape of an array with a zero-length chunk raises 'cannot reshape array of size 2 into shape (1,)' "
     "(also da.from_array(x(6x2), chunks=((1,1,1,0,2,1),(1,1))).ravel())"),
    ("resolved-zero-chunk:broadcast",
     {"src": _src1([3], [[1, 2]], mul=7, off=2, mod=5), "sel": {"kind": "where1", "pred": ["gt", 2], "i": 0},
      "sel_b": {"kind": "where1", "pred": ["out", 4, 4], "i": 0}, "src_b": _src1([3], [[1, 1, 1]], mul=7, off=2, mod=5),
      "op": "where_gt", "phase": "after", "opt": True, "u": 0, "o": None},
     "a length-1 axis split in chunks (0,1) does not broadcast against a longer axis: 'Chunks do not add up to same value' "
     "(also broadcast_to(from_array([5], chunks=((0,1),)), (2,1)))"),
    ("resolved-zero-chunk:repeat",
     {"src": _src1([1, 1], [[1], [1]], mul=3, mod=11), "sel": {"kind": "where1", "pred": ["out", 0, 2], "i": 0},
      "op": "repeat_u", "phase": "after", "opt": True, "u": 0, "o": None},
     "repeat along an axis holding a zero-length chunk raises AssertionError (also da.repeat(from_array([5,6], chunks=((0,2),)), 2, axis=0))"),
    ("resolved-zero-chunk:mask-unify",
     {"src": _src1([2], [[1, 1]], off=-3, mod=11), "sel": {"kind": "where1", "pred": ["out", 9, 9], "i": 0},
      "sel_b": {"kind": "where1", "pred": ["gt", 8], "i": 0}, "op": "mask_by_b", "phase": "after", "opt": False, "u": 0, "o": None},
     "a[b > 1] with a chunked (1,0) and b chunked (0,1) raises RuntimeError 'optimization changed the block structure … advertised chunks are unknown' at compute"),
]


def positional_class(case):
    """Known family: a blockwise/elementwise combination of an unknown-chunk array with another array
    whose blocks are paired by POSITION (equal block counts), although their true sizes differ."""
    return case["op"] in ELEMWISE_BINARY and case["phase"] == "before" and (case.get("sel_b") or case.get("known"))


def gen_source(rng, ndim=None):
    ndim = ndim or rng.choice([1, 1, 2, 2, 3])
    shape = tuple(rng.randint(1, 7 if ndim == 1 else 5) for _ in range(ndim))
    if ndim == 1 and rng.random() < 0.5:
        shape = (rng.randint(4, 12),)
    return {
        "op": "src", "shape": list(shape), "chunks": [list(c) for c in rand_chunks_nd(rng, shape)],
        "mul": rng.choice([1, 1, 3, 7]), "off": rng.randint(-3, 3), "mod": rng.choice([1 << 40, 11, 5]),
    }


def gen_sel(rng, src):
    data = source_data(src)
    nd = data.ndim
    kinds = ["mask_full_da", "mask_full_da", "mask_full_np", "unique", "nonzero", "where1", "argwhere", "flatnonzero", "extract"]
    if nd >= 1:
        kinds += ["mask_axis", "mask_axis", "compress"]
    k = rng.choice(kinds)
    sel = {"kind": k, "pred": rand_pred(rng, data)}
    if k in ("mask_axis", "compress"):
        ax = rng.randrange(nd)
        sel["axis"] = ax
        sel["vmul"], sel["vmod"] = rng.choice([1, 3, 7]), rng.choice([1 << 40, 5, 4])
        v = (np.arange(data.shape[ax], dtype=np.int64) * sel["vmul"]) % sel["vmod"]
        sel["pred"] = rand_pred(rng, v)
        if rng.random() < 0.2:
            sel["vchunks"] = list(gen.rand_chunks(rng, data.shape[ax]))
    if k in ("nonzero", "where1"):
        sel["i"] = rng.randrange(nd)
    return sel


def search(ctx):
    import dask
    import dask_array as da

    rng = ctx.rng
    warnings.simplefilter("ignore")

    # ---- corpus: the defect fixed by /repo 61fa7aa must stay fixed (zero-length chunk + negative step)
    corpus = [
        {"src": {"op": "src", "shape": [5], "chunks": [[2, 2, 1]], "mul": 1, "off": 0, "mod": 1 << 40},
         "sel": {"kind": "mask_full_da", "pred": ["out", 2, 3]}, "op": "slice_rev", "phase": "after", "opt": True, "u": 0, "o": None},
        {"src": {"op": "src", "shape": [5], "chunks": [[2, 2, 1]], "mul": 1, "off": 0, "mod": 1 << 40},
         "sel": {"kind": "mask_full_da", "pred": ["out", 2, 3]}, "op": "slice_rev", "phase": "after", "opt": False, "u": 0, "o": None},
        {"src": {"op": "src", "shape": [5], "chunks": [[2, 2, 1]], "mul": 1, "off": 0, "mod": 1 << 40},
         "sel": {"kind": "mask_full_da", "pred": ["out", 2, 3]}, "op": "slice_rev2", "phase": "after", "opt": True, "u": 0, "o": None},
        {"src": {"op": "src", "shape": [5], "chunks": [[2, 2, 1]], "mul": 1, "off": 0, "mod": 1 << 40},
         "sel": {"kind": "mask_full_da", "pred": ["out", 2, 3]}, "op": "slice_4_1_m1", "phase": "after", "opt": True, "u": 0, "o": None},
    ]
    for case in corpus:
        res = eval_case(case)
        ctx.count(("corpus", case["op"], case["opt"]))
        # also the resolved chunks themselves
        y = build_sel(case["sel"], case["src"], da)
        y.compute_chunk_sizes()
        if y.chunks != ((2, 0, 1),):
            ctx.fail("compute_chunk_sizes:sizes", {"case": case, "got": repr(y.chunks), "want": "((2, 0, 1),)"}, "corpus: resolved chunks differ from the true block sizes")
        bad = judge(case, res)
        if bad:
            ctx.fail("api:getitem-after-compute-chunk-sizes", {"case": case, "what": bad[1], "program": describe(case)}, "m=d[(d<2)|(d>3)]; m.compute_chunk_sizes(); m[::-1] differs from NumPy (defect fixed by 61fa7aa is back)")

    # ---- dedicated probes of the documented families (print KNOWN-FINDING while they still fail)
    for sig, pc, what in PROBES:
        res = eval_case(pc)
        bad = judge(pc, res)
        ctx.count(("probe", sig))
        if bad:
            ctx.fail(sig, {"case": pc, "what": bad[1], "program": describe(pc)}, what)
        else:
            ctx.notes["probe_no_longer_fails." + sig] = ctx.notes.get("probe_no_longer_fails." + sig, 0) + 1

    # ---- systematic streams: mask-chunking grid, chained indexing, known/unknown mixes (harness/props_ext/c28_mixed.py)
    from harness.props_ext import c28_mixed

    c28_mixed.run_streams(ctx)

    # ---- random search
    NSEL = ctx.scale(70, 900)
    per_sel = ctx.scale(14, 40)
    unary_names = list(UNARY_OPS)
    for isel in range(NSEL):
        if ctx.elapsed() > ctx.scale(62, 520):
            ctx.notes["search_stopped_early_at_selection"] = isel
            break
        src = gen_source(rng)
        sel = gen_sel(rng, src)
        try:
            want = build_sel(sel, src, np)
        except Exception:
            continue
        want = np.asarray(want)
        opt0 = rng.random() < 0.5
        # (a) compute_chunk_sizes resolves to the true block sizes
        with warnings.catch_warnings():
            warnings.simplefilter("ignore")
            for opt in (opt0, not opt0):
                with dask.config.set({"array.optimize-graph": opt}):
                    casea = {"src": src, "sel": sel, "op": "compute_chunk_sizes", "phase": "resolve", "opt": opt}
                    try:
                        y = build_sel(sel, src, da)
                    except Exception as e:
                        # building the selection itself is refused (e.g. misaligned mask chunks): a refusal
                        ctx.count(("sel-refused", sel["kind"], type(e).__name__))
                        y = None
                        break
                    adv = y.chunks
                    unknown_axes = [i for i, c in enumerate(adv) if has_nan(c)]
                    true = block_shapes(y)
                    v0 = y.compute()
                    ctx.count(("sel", sel["kind"], len(unknown_axes), opt, any(0 in s for s in true.values())))
                    if not same(v0, want):
                        ctx.fail("selection:wrong-result", {"case": casea, "got": np.asarray(v0).tolist(), "want": want.tolist(), "program": describe(casea)}, "the selection itself differs from NumPy")
                        continue
                    for idx, shp in true.items():
                        for ax, (j, s) in enumerate(zip(idx, shp)):
                            c = adv[ax][j]
                            if not (isinstance(c, float) and math.isnan(c)) and int(c) != s:
                                ctx.fail("advertised-known-chunk-wrong", {"case": casea, "block": list(idx), "advertised": repr(adv), "true": list(shp), "program": describe(casea)}, "a chunk size advertised as known differs from the block")
                    y.compute_chunk_sizes()
                    res_chunks = y.chunks
                    okc = all(not has_nan(c) for c in res_chunks) and len(res_chunks) == want.ndim
                    if okc:
                        for idx, shp in true.items():
                            if tuple(res_chunks[ax][j] for ax, j in enumerate(idx)) != tuple(shp):
                                okc = False
                    if not okc:
                        ctx.fail("compute_chunk_sizes:sizes", {"case": casea, "got": repr(res_chunks), "true_block_shapes": {str(k): list(v) for k, v in true.items()}, "program": describe(casea)},
                                 "compute_chunk_sizes did not set the true per-block sizes")
                    elif tuple(y.shape) != want.shape or not same(y.compute(), want):
                        ctx.fail("compute_chunk_sizes:shape", {"case": casea, "got_shape": list(y.shape), "want_shape": list(want.shape), "program": describe(casea)}, "shape/values after compute_chunk_sizes differ from NumPy")
        if y is None or not unknown_axes:
            continue
        zero_chunk = any(0 in c for c in res_chunks)
        if want.size == 0:
            # zero-SIZE arrays are outside this check (ravel/repeat/... of empty arrays fail with known chunks too)
            ctx.notes["avoid.zero-size-selection"] = ctx.notes.get("avoid.zero-size-selection", 0) + 1
            continue
        u = rng.choice(unknown_axes)
        others = [i for i in range(want.ndim) if i not in unknown_axes]
        o = rng.choice(others) if others else None
        # (b)/(c) follow-on ops
        names = rng.sample(unary_names, min(per_sel, len(unary_names)))
        if o is not None:
            names += rng.sample(list(OTHER_AXIS_OPS), 3)
        cases = []
        for nm in names:
            for phase in ("before", "after"):
                if nm == "mask_again" and want.ndim > 1:
                    continue  # family unknown-ndmask-order (before) / dask reshape limits (after): dedicated probe
                if phase == "after" and zero_chunk and nm in ZERO_CHUNK_CLASS:
                    ctx.notes["avoid.resolved-zero-chunk"] = ctx.notes.get("avoid.resolved-zero-chunk", 0) + 1
                    continue  # families resolved-zero-chunk:*: dedicated probes
                cases.append({"src": src, "sel": sel, "op": nm, "phase": phase, "opt": rng.random() < 0.6, "u": u, "o": o})
        # binary: second selection of the same source (equal block counts), of a re-chunked source
        # (unequal counts), and a known partner
        if sel["kind"] not in ("unique",):
            for _ in range(2):
                sel_b = dict(sel)
                data = source_data(src)
                if sel["kind"] in ("mask_axis", "compress"):
                    v = (np.arange(data.shape[sel["axis"]], dtype=np.int64) * sel["vmul"]) % sel["vmod"]
                    sel_b["pred"] = rand_pred(rng, v) if rng.random() < 0.7 else sel["pred"]
                else:
                    sel_b["pred"] = rand_pred(rng, data) if rng.random() < 0.7 else sel["pred"]
                src_b = src
                if rng.random() < 0.4:
                    src_b = dict(src)
                    src_b["chunks"] = [list(c) for c in rand_chunks_nd(rng, tuple(src["shape"]))]
                    sel_b.pop("vchunks", None)
                nm = rng.choice(list(BINARY_OPS))
                zb = zero_chunk
                if not zb and nm in ZERO_CHUNK_CLASS:
                    try:
                        with warnings.catch_warnings():
                            warnings.simplefilter("ignore")
                            bb = build_sel(sel_b, src_b, da)
                            bb.compute_chunk_sizes()
                            zb = any(0 in c for c in bb.chunks)
                    except Exception:
                        zb = False
                b_res = None
                if nm in ELEMWISE_BINARY:
                    try:
                        with warnings.catch_warnings():
                            warnings.simplefilter("ignore")
                            bb = build_sel(sel_b, src_b, da)
                            bb.compute_chunk_sizes()
                            b_res = bb.chunks
                    except Exception:
                        b_res = None
                for phase in ("before", "after"):
                    if phase == "after" and zb and nm in ZERO_CHUNK_CLASS:
                        ctx.notes["avoid.resolved-zero-chunk"] = ctx.notes.get("avoid.resolved-zero-chunk", 0) + 1
                        continue
                    if phase == "before" and nm in ELEMWISE_BINARY and b_res != res_chunks:
                        # family unknown-elemwise-positional-blocks (true block sizes differ): dedicated probes
                        ctx.notes["avoid.positional-blocks"] = ctx.notes.get("avoid.positional-blocks", 0) + 1
                        continue
                    c = {"src": src, "sel": sel, "sel_b": sel_b, "op": nm, "phase": phase, "opt": rng.random() < 0.6, "u": u, "o": o}
                    if src_b is not src:
                        c["src_b"] = src_b
                    cases.append(c)
            if want.ndim == 1 and want.shape[0] > 0:
                n = want.shape[0]
                nblocks = len(adv[0])
                kc = list(gen.rand_chunks(rng, n))
                if rng.random() < 0.4:
                    kc = [int(c) for c in res_chunks[0]]  # aligned with the true block sizes
                elif rng.random() < 0.6 and nblocks <= n:
                    # same block count as the unknown operand
                    cuts = sorted(rng.sample(range(1, n), nblocks - 1)) if nblocks > 1 else []
                    kc = [b - a for a, b in zip([0] + cuts, cuts + [n])]
                for phase in ("before", "after"):
                    if phase == "after" and zero_chunk:
                        continue
                    if phase == "before" and (tuple(kc),) != tuple(tuple(c) for c in res_chunks) and len(kc) == nblocks:
                        ctx.notes["avoid.positional-blocks"] = ctx.notes.get("avoid.positional-blocks", 0) + 1
                        continue
                    cases.append({"src": src, "sel": sel, "known": {"n": n, "chunks": kc}, "op": rng.choice(sorted(ELEMWISE_BINARY)), "phase": phase,
                                  "opt": rng.random() < 0.6, "u": 0, "o": None})
        for case in cases:
            res = eval_case(case)
            outcome = "refused" if res["da"][0] == "raise" else "value"
            ctx.count((case["op"], case["phase"], outcome, sel["kind"] if outcome == "refused" else "", bool(case.get("sel_b")), bool(case.get("known"))))
            if res["da"][0] == "raise" and case["phase"] == "before":
                k = "refusals." + res["da"][1]
                ctx.notes[k] = ctx.notes.get(k, 0) + 1
            bad = judge(case, res)
            if not bad:
                continue
            sig, what = bad
            zc = zero_chunk
            if case.get("sel_b") and not zc:
                try:
                    bb = build_sel(case["sel_b"], case.get("src_b", src), da)
                    bb.compute_chunk_sizes()
                    zc = any(0 in c for c in bb.chunks)
                except Exception:
                    pass
            sig2 = classify(case, sig, zc)
            if sig2 == sig:
                case = minimise(case, sig)
                again = judge(case, eval_case(case))
                if again:
                    what = again[1]
            ctx.sample({"failing": describe(case)})
            ctx.fail(sig2, {"case": case, "what": what, "program": describe(case)}, what)


def check_resolve(case):
    """(signature, what) problems of the compute_chunk_sizes step of a selection (replay of phase 'resolve')."""
    import dask
    import dask_array as da

    src, sel = case["src"], case["sel"]
    out = []
    with warnings.catch_warnings():
        warnings.simplefilter("ignore")
        want = np.asarray(build_sel(sel, src, np))
        with dask.config.set({"array.optimize-graph": bool(case.get("opt", True))}):
            y = build_sel(sel, src, da)
            adv = y.chunks
            true = block_shapes(y)
            if not same(y.compute(), want):
                out.append(("selection:wrong-result", "the selection itself differs from NumPy"))
            for idx, shp in true.items():
                for ax, (j, sz) in enumerate(zip(idx, shp)):
                    c = adv[ax][j]
                    if not (isinstance(c, float) and math.isnan(c)) and int(c) != sz:
                        out.append(("advertised-known-chunk-wrong", f"block {idx}: advertised {adv}, true {shp}"))
            y.compute_chunk_sizes()
            rc = y.chunks
            ok = all(not has_nan(c) for c in rc) and len(rc) == want.ndim and all(
                tuple(rc[ax][j] for ax, j in enumerate(idx)) == tuple(shp) for idx, shp in true.items())
            if not ok:
                out.append(("compute_chunk_sizes:sizes", f"resolved chunks {rc} vs true block shapes {sorted(true.items())}"))
            elif tuple(y.shape) != want.shape or not same(y.compute(), want):
                out.append(("compute_chunk_sizes:shape", f"shape {y.shape} vs NumPy {want.shape}"))
    return out


def minimise_resolve(case, sig):
    """minimise() for a phase 'resolve' case (judged by check_resolve)"""
    def fails(c):
        try:
            return any(p[0] == sig for p in check_resolve(c))
        except Exception:
            return False

    return minimise(case, sig, fails)


def minimise(case, sig, fails=None):
    """Greedy shrink of a failing case (smaller source, single chunk per axis, simpler predicate)."""
    def fails0(c):
        try:
            b = judge(c, eval_case(c))
        except Exception:
            return False
        return bool(b) and b[0] == sig

    fails = fails or fails0

    best = case
    for _ in range(6):
        changed = False
        src = best["src"]
        for ax, n in enumerate(src["shape"]):
            if n > 1:
                s2 = dict(src)
                shp = list(src["shape"])
                shp[ax] = n - 1
                s2["shape"] = shp
                cks = [list(c) for c in src["chunks"]]
                c = cks[ax]
                c[-1] -= 1
                if c[-1] == 0 and len(c) > 1:
                    c.pop()
                s2["chunks"] = cks
                cand = dict(best)
                cand["src"] = s2
                cand.pop("src_b", None)
                if cand.get("sel", {}).get("vchunks"):
                    continue
                if cand.get("sel", {}).get("mchunks"):
                    sl = dict(cand["sel"])
                    mcs = [list(c) for c in sl["mchunks"]]
                    mcs[ax][-1] -= 1
                    if mcs[ax][-1] == 0 and len(mcs[ax]) > 1:
                        mcs[ax].pop()
                    sl["mchunks"] = mcs
                    cand["sel"] = sl
                if fails(cand):
                    best, changed = cand, True
                    break
        if not changed:
            break
    return best


def describe(case):
    """Human-readable program for a case dict."""
    s = case["src"]
    out = [f"x = da.from_array(source_data({{shape:{s['shape']}, mul:{s['mul']}, off:{s['off']}, mod:{s['mod']}}}), chunks={s['chunks']})"]
    out.append(f"a = select(x, {case['sel']})")
    if case.get("sel_b"):
        out.append(f"b = select({'x rechunked ' + str(case['src_b']['chunks']) if case.get('src_b') else 'x'}, {case['sel_b']})")
    if case.get("known"):
        out.append(f"b = da.from_array(np.arange({case['known']['n']})*10, chunks={case['known']['chunks']})")
    if case["phase"] == "after":
        out.append("a.compute_chunk_sizes()" + ("; b.compute_chunk_sizes()" if case.get("sel_b") else ""))
    if case.get("op") == "chain":
        out.append("result = a" + "".join("[" + ", ".join("..." if e[0] == "e" else str(e[1]) if e[0] == "i" else ":".join("" if v is None else str(v) for v in e[1:]) for e in st) + "]" for st in case["chain"])
                   + f" reduced by {case.get('red')}  [optimize-graph={case.get('opt', True)}]")
        return "; ".join(out)
    out.append(f"result = op[{case['op']}](a{', b' if case.get('sel_b') or case.get('known') else ''}; u={case.get('u')}, o={case.get('o')})  "
               f"[optimize-graph={case.get('opt', True)}, unify-policy={case.get('policy') or 'default'}]")
    return "; ".join(out)


def targeted(ctx):
    """Lift disagreeing guard inputs to API level: an accepted operation on an unknown-chunk array
    must still compute NumPy's result."""
    import dask_array as da

    tried = 0
    for d in ctx.disagreements[:40]:
        toks = d["request"].split()
        try:
            if toks[0] == "uk.slice" and d["impl"].startswith("ok"):
                # the implementation accepts an index the model refuses: run it on a real selection
                x = np.arange(8)
                dd = da.from_array(x, chunks=3)
                a = dd[dd % 3 != 0]
                from harness.core import p_slice

                idx = tuple(p_slice(t) if ":" in t else int(t) for t in toks[2:3])
                tried += 1
                got = a[idx].compute()
                want = x[x % 3 != 0][idx]
                if not same(got, want):
                    ctx.fail("guard-lift:slice", {"index": toks[2], "got": np.asarray(got).tolist(), "want": np.asarray(want).tolist()},
                             "an index accepted on an unknown axis computes a result different from NumPy")
            elif toks[0] in ("uk.mask_sizes", "uk.mask_positions"):
                cks = tuple(int(t) for t in toks[1].split(","))
                bits = np.array([c == "1" for c in toks[2]], dtype=bool) if toks[2] != "_" else np.zeros(0, bool)
                x = np.arange(len(bits))
                y = da.from_array(x, chunks=(cks,))[da.from_array(bits, chunks=(cks,))]
                true = block_shapes(y)
                y.compute_chunk_sizes()
                tried += 1
                if tuple(true[(i,)][0] for i in range(len(cks))) != tuple(y.chunks[0]) or not same(y.compute(), x[bits]):
                    ctx.fail("compute_chunk_sizes:sizes", {"chunks": cks, "mask": toks[2], "got": repr(y.chunks)}, "compute_chunk_sizes differs from the true block sizes")
        except Exception as e:
            ctx.notes["targeted_errors"] = ctx.notes.get("targeted_errors", 0) + 1
    ctx.notes["targeted_search"] = f"{tried} API-level replays of disagreeing guard inputs"


def run(ctx, replay=None):
    ctx.rule = (
        "correspondence: exhaustive small layouts with nan entries x index forms / layout pairs / operand sets / (chunking, mask) pairs; "
        "search: random (source shape<=3-d, chunking, data-dependent selection kind, predicate) x follow-on op x {before, after compute_chunk_sizes} "
        "x {optimized, unoptimized}; distinct by (op, phase, outcome, selection kind for refusals, operand kinds); "
        "systematic streams (props_ext/c28_mixed.py): full-rank mask grid = every (axes split in x) x (axes split in the mask) for 2-d and 3-d "
        "x mask kind (dask leaf / NumPy / re-chunked / expression of x / of another array) x form; mixes = every multi-input op x every "
        "known/unknown pattern {K,U}^2, sampled {K,U}^3, x {before, after, partially resolved}, same-shape ops with a known partner of the "
        "true shape chunked aligned / other block count / same count mis-aligned; chains = 2-3 chained basic indexings on the known axes of an "
        "array with an unknown axis x reduction x {before, after}; "
        "validity stream (props_ext/c28_validity.py): selections with adversarial per-block kept counts (first block keeps 1 / 0 / several, "
        "later blocks differ; every pattern of its PATTERNS table per run) x every operation whose validity or result shape depends on the "
        "length of the unknown axis (squeeze spellings, reshape, broadcast_to, integer / list / boolean indexing at 0, first-block count, L-1, L, "
        "-L-1, windows, per-element repeats, joins / contractions with known or unknown partners of the true / first block's / a wrong length, "
        "scalar conversions, ...) x {before, after, partially resolved}; NumPy's value or a refusal, and a refusal wherever NumPy raises; "
        "deviations shared by a plain array with the same blocks are not counted"
    )
    ctx.assumptions = [
        "a refusal is any exception raised at construction or compute time while sizes are unknown",
        "NumPy is the oracle for values and shapes; int64 data (exact); float results compared with rtol 1e-12",
        "unknown chunk sizes are np.nan objects (set semantics of tuples of nan rely on object identity, as in the code)",
    ]
    if replay is not None:
        case = replay.get("case", {}).get("case") or replay.get("case")
        ctx.count(("replay",))
        if case.get("stream"):
            from harness.props_ext import c28_mixed

            c28_mixed.replay(ctx, case, replay.get("sig"))
            return
        if case.get("phase") == "resolve":
            for sig, what in check_resolve(case)[:3]:
                ctx.fail(sig, {"case": case, "what": what, "program": describe(case)}, what)
            return
        res = eval_case(case)
        bad = judge(case, res)
        if bad and case.get("op") == "chain":
            from harness.props_ext import c28_mixed

            ctx.fail(c28_mixed.classify_chain(case, bad[0]), {"case": case, "what": bad[1], "program": describe(case)}, bad[1])
        elif bad:
            sig = classify(case, replay.get("sig") or bad[0], False)
            ctx.fail(sig, {"case": case, "what": bad[1], "program": describe(case)}, bad[1])
        return
    correspondence(ctx)
    search(ctx)
    if ctx.disagreements:
        targeted(ctx)
