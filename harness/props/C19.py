"""C19 — windowed and scan operations match their NumPy definitions.

Correspondence (model vs implementation, behavioural):
  * `sc.*`  : Python `range`, `ceil(log2)`, and the REAL layer wiring of
              `da.cumsum(..., method="sequential"|"blelloch")`: for every output block the
              expression it computes over named leaves (per-block scan `c<i>`, per-block total
              `b<i>`, identity `e`), recovered from `_layer()` by following task arguments
              (function identity, never key names), block counts 1..40, 1-D and 2-D.
  * `wn.*`  : `supports_native_sliding_window`, `SlidingWindowReduction.chunks/_block_plan/_layer`,
              `supports_native_moving_window`, `MovingWindowReduction._block_plan/_layer`,
              `ensure_minimum_chunksize`, `_get_overlap_rechunked_chunks`,
              `_overlap_internal_chunks`, `trim_internal` chunk arithmetic, boundary kinds as
              index maps — exhaustive over all chunkings of n ≤ 8 × all windows/sizes.
Search (on the real code; oracle = NumPy / bottleneck definitions, independent of the model):
  sliding_window_view alone and under reductions, bottleneck move_* through map_overlap,
  overlap+trim identity, map_overlap stencils vs np.pad, diff, gradient, cumsum/cumprod/
  nancumsum/nancumprod and a non-commutative generic cumreduction (forward fill), both methods.
  Extensions (harness/props_ext):
  * c19_edge — special cells AT BLOCK EDGES: numpy.ma inputs to cumsum/cumprod (exhaustive masks × chunkings of
    n ≤ 4, patterns "last cell of a block" / "whole block" / … in 1-D..3-D, all data dtypes, dtype=, axis=None),
    masked arrays through diff / sliding windows / a periodic stencil; NaN at block edges for nan-scans, forward
    fill, da.push (limit), bottleneck move_* and nan-reducers over windows; explicit dtype= × data dtype × method
    with a slice selecting later blocks; diff prepend=/append=; diff / gradient (coordinate arrays) / scans
    followed by slices; sliding_window_view(automatic_rechunk=False).
  * c19_seq — overlap-family calls IN SEQUENCE in this one process (map_overlap plain / new_axis= / drop_axis= /
    trim=False / two arrays / method form / allow_rechunk=False, overlap, trim_overlap, round trip, and the
    internal users sliding_window_view, gradient, bottleneck move_*), depth and boundary spelled as scalar /
    tuple / dict (partial, asymmetric) / per-array list / None, steps sharing or not sharing (ndim, depth,
    boundary), eager and lazy evaluation orders; each step vs its NumPy definition, arguments unchanged
    afterwards; failures confirmed (and order-dependent ones shortened) in fresh interpreters.
Targeted: every model/implementation disagreement is lifted to API level (same chunks /
window / block count) across all reducers / methods.
"""
from __future__ import annotations

import functools
import itertools
import math
import operator
import types
import warnings

import numpy as np

from harness import gen
from harness.core import err_name, f_list, f_ll

SWV = np.lib.stride_tricks.sliding_window_view

# refusals that the implementation documents (message text is part of the documentation)
DOCUMENTED_REFUSALS = (
    (ValueError, "is larger than your array"),  # ensure_minimum_chunksize: depth > axis length
    (ValueError, "Chunk size must be larger than edge_order"),  # gradient
    (NotImplementedError, "Asymmetric overlap is currently only implemented"),  # map_overlap
    (ValueError, "Overlap depth is larger than smallest chunksize"),  # allow_rechunk=False
)


def documented_refusal(e):
    return any(isinstance(e, c) and s in str(e) for c, s in DOCUMENTED_REFUSALS)


def tt(chunks):
    return tuple(tuple(int(c) for c in cs) for cs in chunks)


def f_opt(v):
    return "N" if v is None else str(int(v))


def f_dots(l):
    l = list(l)
    return "-" if not l else ".".join(str(int(v)) for v in l)


# =========================================================================== layer readers


def _axis_idx(key, axis):
    return key[1 + axis]


def canon_scan_layer(e):
    """Expression computed by every output block of a CumReduction / CumReductionBlelloch
    layer, along the scan axis, as `ok e0;e1;…` (the same vocabulary as `sc.wiring`)."""
    from dask.core import istask
    from dask.utils import apply
    from dask_array.reductions import _cumulative as CU

    dsk = e._layer()
    x = e.array
    axis = e.axis
    nb = x.numblocks
    blelloch = isinstance(e, CU.CumReductionBlelloch)
    xname = x._name
    lines = []
    others = list(itertools.product(*[range(n) if j != axis else [None] for j, n in enumerate(nb)]))
    for other in others:

        def off_ok(key):
            # block index = the first len(nb) integer components after the name (string tags such as
            # "extra" and trailing private counters are naming, not wiring)
            ints = [k for k in key[1:] if not isinstance(k, str)]
            return len(ints) >= len(nb) and all(o is None or o == k for o, k in zip(other, ints[: len(nb)]))

        def is_input(v):
            return isinstance(v, tuple) and len(v) == 1 + len(nb) and v[0] == xname and off_ok(v)

        def res(v, depth=0):
            if depth > 400:
                return "?deep"
            if istask(v):
                f = v[0]
                if f is e.binop and len(v) == 3:
                    return "(%s+%s)" % (res(v[1], depth + 1), res(v[2], depth + 1))
                if isinstance(f, functools.partial) and len(v) == 2 and is_input(v[1]):
                    if not blelloch and f.func is e.func and f.keywords.get("axis") == axis:
                        return "c%d" % _axis_idx(v[1], axis)
                    if blelloch and f.func is e.preop and f.keywords.get("axis") == axis and f.keywords.get("keepdims") is True:
                        return "b%d" % _axis_idx(v[1], axis)
                    return "?partial"
                if f is CU._cum_tail and len(v) == 6:
                    _, gi, slc, _ident, ax, key = v
                    want = (slice(None),) * axis + (slice(-1, None),) + (slice(None),) * (x.ndim - axis - 1)
                    inner = res(key, depth + 1)
                    if gi is operator.getitem and tuple(slc) == want and ax == axis and inner.startswith("c"):
                        return inner
                    return "?tail(%s)" % inner
                if f is apply and len(v) == 4 and v[1] is np.full_like:
                    shp = v[3].get("shape")
                    if shp is not None and shp[axis] == 1:
                        return "e"
                    return "?ident"
                return "?task:%s" % getattr(f, "__name__", type(f).__name__)
            if isinstance(v, tuple) and v in dsk:
                if not off_ok(v):
                    return "?offaxis"
                return res(dsk[v], depth + 1)
            if is_input(v):
                return "x%d" % _axis_idx(v, axis)
            return "?key"

        out = []
        for i in range(nb[axis]):
            idx = tuple(i if o is None else o for o in other)
            t = dsk.get((e._name,) + idx)
            if t is None:
                out.append("?missing")
                continue
            if blelloch:
                if istask(t) and t[0] is CU._prefixscan_first and len(t) == 5 and t[1] is e.func and is_input(t[2]) and _axis_idx(t[2], axis) == i and t[3] == axis:
                    out.append("-")
                elif istask(t) and t[0] is CU._prefixscan_combine and len(t) == 7 and t[1] is e.func and t[2] is e.binop and is_input(t[4]) and _axis_idx(t[4], axis) == i and t[5] == axis:
                    out.append(res(t[3]))
                else:
                    out.append("?out")
            else:
                out.append(res(t))
        lines.append("ok " + ";".join(out))
    if len(set(lines)) != 1:
        return lines[0] + " !lines-differ"
    return lines[0]


def _band_idx(keys, axis, other, nd):
    out = []
    for k in keys:
        idx = k[1:]
        if len(idx) != nd or any(j != axis and idx[j] != other[j if j < axis else j - 1] for j in range(nd)):
            return None
        out.append(idx[axis])
    return out


def canon_sliding_layer(s):
    """`i:outLen,bandOffset,<middle>,<band>;…` from SlidingWindowReduction._layer()."""
    dsk = s._layer()
    x = s.array
    axis = s.sliding_axis
    nd = x.ndim
    nb = x.numblocks
    lines = []
    for other in itertools.product(*[range(n) for j, n in enumerate(nb) if j != axis]):
        rows = []
        for i in range(nb[axis]):
            idx = list(other)
            idx.insert(axis, i)
            out_idx = list(idx)
            if s.keepdims:
                out_idx.insert(s.window_axis, 0)
            t = dsk.get((s._name,) + tuple(out_idx))
            if t is None:
                continue
            f, xkey, totals, band, out_len, bo = t
            if f is not s._reduce_func or xkey != (x._name,) + tuple(idx):
                rows.append("?task")
                continue
            mid = _band_idx(totals, axis, other, nd)
            bnd = _band_idx(band, axis, other, nd)
            ok_tot = all(k in dsk and dsk[k][0] is s._total_func and dsk[k][1] == (x._name,) + k[1:] for k in totals)
            if mid is None or bnd is None or not ok_tot or any(k[0] != x._name for k in band):
                rows.append("?deps")
                continue
            rows.append(f"{i}:{out_len},{bo},{f_dots(mid)},{f_dots(bnd)}")
        lines.append("ok " + (";".join(rows) if rows else "-"))
    if len(set(lines)) != 1:
        return lines[0] + " !lines-differ"
    return lines[0]


def canon_moving_layer(m):
    """`start,c,bandOffset,g,h,nTrunc,<middle>;…` from MovingWindowReduction (plan start/c, rest from _layer())."""
    dsk = m._layer()
    x = m.array
    axis = m.sliding_axis
    nd = x.ndim
    nb = x.numblocks
    plan = m._block_plan
    lines = []
    for other in itertools.product(*[range(n) for j, n in enumerate(nb) if j != axis]):
        rows = []
        for i in range(nb[axis]):
            idx = list(other)
            idx.insert(axis, i)
            t = dsk.get((m._name,) + tuple(idx))
            if t is None:
                rows.append("?missing")
                continue
            f, xkey, totals, band, n_trunc, bo = t
            if f is not m._reduce_func or xkey != (x._name,) + tuple(idx):
                rows.append("?task")
                continue
            mid = _band_idx(totals, axis, other, nd)
            bnd = _band_idx(band, axis, other, nd)
            ok_tot = all(k in dsk and dsk[k][0] is m._total_func and dsk[k][1] == (x._name,) + k[1:] for k in totals)
            if mid is None or bnd is None or not ok_tot or any(k[0] != x._name for k in band) or (bnd and bnd != list(range(bnd[0], bnd[-1] + 1))):
                rows.append("?deps")
                continue
            g = bnd[0] if bnd else None
            h = bnd[-1] if bnd else None
            start, c = plan[i][0], plan[i][1]
            rows.append(f"{start},{c},{bo},{f_opt(g)},{f_opt(h)},{n_trunc},{f_dots(mid)}")
        lines.append("ok " + ";".join(rows))
    if len(set(lines)) != 1:
        return lines[0] + " !lines-differ"
    return lines[0]


def find_node(expr, cls):
    for n in expr.walk():
        if isinstance(n, cls):
            return n
    return None


# =========================================================================== correspondence


def impl_call(fn, fmt):
    try:
        return fmt(fn())
    except (ValueError, TypeError, IndexError, ZeroDivisionError, AssertionError, NotImplementedError) as e:
        return err_name(e)


def correspondence(ctx):
    import dask_array as da
    from dask_array import _overlap as O
    from dask_array.reductions import _cumulative as CU
    from dask_array.reductions import _sliding_window as SW

    rng = ctx.rng
    NEX = 8
    ctx.extra["exhaustive_domain"] = (
        f"planner correspondence: all chunkings of n≤{NEX} × windows 0..n+2 (sliding/moving plans, guards, trim, "
        f"layer wiring) and × sizes 0..n+2 (ensure_minimum_chunksize, overlap rechunk rule); scan wiring: block counts 1..40 "
        f"both methods (1-D) + 2-D axis variants; search: see per-kind domains in `counts`"
    )

    # ---- python primitives of the scan model
    pairs = []
    for a in range(0, 6):
        for b in range(0, 14):
            for c in range(1, 5):
                pairs.append((f"sc.range {a} {b} {c}", "ok " + f_list(range(a, b, c))))
    for xv in list(range(1, 300)) + [2**k + d for k in range(8, 40) for d in (-1, 0, 1)]:
        pairs.append((f"sc.clog2 {xv}", f"ok {math.ceil(math.log2(xv))}"))
    ctx.correspond("py-range/clog2", pairs, branch_key=lambda r, m: (r.split()[0], m[:6]))

    # ---- scan layer wiring
    pairs = []
    NB = ctx.scale(40, 64)
    for n in range(1, NB + 1):
        x = da.from_array(np.arange(n), chunks=1)
        for method, tag in (("sequential", "seq"), ("blelloch", "blelloch")):
            y = da.cumsum(x, axis=0, method=method)
            e = find_node(y.expr.lower_completely(), (CU.CumReduction, CU.CumReductionBlelloch))
            pairs.append((f"sc.wiring {tag} {n}", canon_scan_layer(e) if e is not None else "err NoScanNode"))
    # ragged blocks, 2-D, both axes, other reducers (wiring must not depend on them)
    for _ in range(ctx.scale(60, 400)):
        shape = (rng.randint(1, 7), rng.randint(1, 7))
        chunks = tuple(gen.rand_chunks(rng, s) for s in shape)
        axis = rng.choice([0, 1, -1])
        fn = rng.choice([da.cumsum, da.cumprod, da.nancumsum, da.nancumprod])
        x = da.from_array(np.arange(shape[0] * shape[1], dtype=float).reshape(shape), chunks=chunks)
        for method, tag in (("sequential", "seq"), ("blelloch", "blelloch")):
            y = fn(x, axis=axis, method=method)
            e = find_node(y.expr.lower_completely(), (CU.CumReduction, CU.CumReductionBlelloch))
            nblk = len(chunks[axis])
            pairs.append((f"sc.wiring {tag} {nblk}", canon_scan_layer(e) if e is not None else "err NoScanNode"))
    ctx.correspond("scan-wiring", pairs, branch_key=lambda r, m: tuple(r.split()[1:]))

    # integer evaluation of the wiring (model run on data) vs NumPy on block totals
    pairs = []
    for n in list(range(0, 20)) + [rng.randint(20, 200) for _ in range(20)]:
        t = [rng.randint(-50, 50) for _ in range(n)]
        want = ["N"] + [str(v) for v in np.cumsum(t)[:-1].tolist()] if n else []
        pairs.append((f"sc.blelloch_offsets {f_list(t)}", "ok " + (",".join(want) if want else "_")))
    for _ in range(ctx.scale(60, 600)):
        n = rng.randint(1, 24)
        cks = gen.rand_chunks(rng, n)
        xs = [rng.randint(-9, 9) for _ in range(n)]
        cum = np.cumsum(xs).tolist()
        st = np.cumsum((0,) + tuple(cks)).tolist()
        blocks = [xs[a:b] for a, b in zip(st[:-1], st[1:])]
        wantb = [cum[a:b] for a, b in zip(st[:-1], st[1:])]
        pairs.append((f"sc.seq_blocks {f_ll(blocks)}", "ok " + f_ll(wantb)))
        pairs.append((f"sc.blelloch_blocks {f_ll(blocks)}", "ok " + f_ll(wantb)))
    ctx.correspond("scan-model-vs-numpy", pairs, branch_key=lambda r, m: (r.split()[0], len(r) // 16))

    # ---- sliding / moving planners
    dt = np.dtype("float64")
    cases = []
    for n in range(1, NEX + 1):
        for cks in gen.compositions(n):
            for w in range(0, n + 3):
                cases.append((cks, w))
    for _ in range(ctx.scale(300, 6000)):
        n = rng.choice([9, 12, 17, 30, 64, 200])
        cks = gen.rand_chunks(rng, n, maxparts=24)
        w = rng.choice([2, 3, 5, rng.randint(1, n + 1), max(cks) + 1, min(cks) + 1, n])
        cases.append((cks, w))
    pairs = []
    arr_cache = {}
    for cks, w in cases:
        cl = f_list(cks)
        pairs.append((f"wn.supports_sliding {cl} {w}", impl_call(lambda: SW.supports_native_sliding_window(tuple(cks), w), lambda r: f"ok {int(bool(r))}")))
        pairs.append((f"wn.supports_moving {cl} {w}", impl_call(lambda: SW.supports_native_moving_window(tuple(cks), w), lambda r: f"ok {int(bool(r))}")))
        if w < 1:
            continue
        x = arr_cache.get(cks)
        if x is None:
            x = arr_cache[cks] = da.from_array(np.zeros(sum(cks)), chunks=(cks,))
        s = SW.SlidingWindowReduction(x.expr, w, 0, 1, False, "sum", dt)
        pairs.append((f"wn.block_plan {cl} {w}", impl_call(lambda: s._block_plan, lambda r: "ok " + ";".join(",".join(map(str, row)) for row in r))))
        pairs.append((f"wn.out_chunks {cl} {w}", impl_call(lambda: s.chunks[0], lambda r: "ok " + f_list(r))))
        pairs.append((f"wn.sliding_layer {cl} {w}", impl_call(lambda: canon_sliding_layer(s), lambda r: r)))
        m = SW.MovingWindowReduction(x.expr, w, None, 0, "nansum", dt)
        pairs.append((f"wn.moving_plan {cl} {w}", impl_call(lambda: canon_moving_layer(m), lambda r: r)))
    ctx.correspond("sliding/moving-plan", pairs, branch_key=lambda r, m: (r.split()[0], m[:14], min(len(r.split()[1]) // 4, 6)))

    # 2-D layers (other axes must only be carried along)
    pairs = []
    for _ in range(ctx.scale(40, 300)):
        shape = (rng.randint(2, 7), rng.randint(2, 7))
        chunks = tuple(gen.rand_chunks(rng, s) for s in shape)
        axis = rng.choice([0, 1])
        w = rng.randint(1, shape[axis] + 1)
        x = da.from_array(np.zeros(shape), chunks=chunks)
        kd = rng.random() < 0.3
        s = SW.SlidingWindowReduction(x.expr, w, axis, 2, kd, "max", dt)
        pairs.append((f"wn.sliding_layer {f_list(chunks[axis])} {w}", impl_call(lambda: canon_sliding_layer(s), lambda r: r)))
        m = SW.MovingWindowReduction(x.expr, w, 1, axis, "nanmean", dt)
        pairs.append((f"wn.moving_plan {f_list(chunks[axis])} {w}", impl_call(lambda: canon_moving_layer(m), lambda r: r)))
    ctx.correspond("sliding/moving-layer-2d", pairs, branch_key=lambda r, m: (r.split()[0], m[:10]))

    # ---- overlap chunk helpers
    pairs = []
    ch_cases = []
    for n in range(1, NEX + 1):
        for cks in gen.compositions(n):
            ch_cases.append(cks)
    for n in range(1, 5):
        for cks in gen.compositions(n, zeros=True, maxparts=4):
            if 0 in cks:
                ch_cases.append(cks)
    for cks in ch_cases:
        n = sum(cks)
        for size in range(0, n + 3):
            pairs.append((f"wn.min_chunksize {size} {f_list(cks)}", impl_call(lambda: O.ensure_minimum_chunksize(size, tuple(cks)), lambda r: "ok " + f_list(r))))
    for _ in range(ctx.scale(500, 8000)):
        n = rng.choice([9, 12, 17, 30, 100])
        cks = gen.rand_chunks(rng, n, zeros=0.1, maxparts=20)
        size = rng.choice([1, 2, 3, 5, rng.randint(0, n + 2), max(cks), min(cks) + 1])
        pairs.append((f"wn.min_chunksize {size} {f_list(cks)}", impl_call(lambda: O.ensure_minimum_chunksize(size, tuple(cks)), lambda r: "ok " + f_list(r))))
    ctx.correspond("ensure_minimum_chunksize", pairs, branch_key=lambda r, m: (m[:3], min(len(m) // 4, 8), r.split()[1] == "0"))

    pairs = []
    for cks in ch_cases:
        if 0 in cks:
            continue
        n = sum(cks)
        xs = types.SimpleNamespace(chunks=(tuple(cks),))
        for before in range(0, min(n, 4) + 1):
            for after in range(0, min(n, 4) + 1):
                for bn in (0, 1):
                    if before != after and not bn:
                        continue
                    d = before if before == after else (before, after)
                    pairs.append((f"wn.rechunked {f_list(cks)} {before} {after} {bn}", impl_call(
                        lambda: O._get_overlap_rechunked_chunks(xs, {0: d}, {0: "none" if bn else "reflect"})[0], lambda r: "ok " + f_list(r))))
                if len(pairs) < 40000:
                    pairs.append((f"wn.internal_chunks {f_list(cks)} {before} {after}", impl_call(
                        lambda: O._overlap_internal_chunks((tuple(cks),), {0: (before, after)})[0], lambda r: "ok " + f_list(r))))
    ctx.correspond("overlap-chunk-rules", pairs, branch_key=lambda r, m: (r.split()[0], m[:8]))

    # trim_internal chunk arithmetic + boundary index maps (need real arrays; small)
    pairs = []
    for n in range(2, 7):
        for cks in gen.compositions(n):
            if rng.random() > ctx.scale(0.35, 1.0):
                continue
            for (l, r, bn) in ((1, 1, 1), (1, 1, 0), (0, 1, 1), (2, 0, 1), (1, 2, 1)):
                big = tuple(c + l + r for c in cks)
                x = da.from_array(np.zeros(sum(big)), chunks=(big,))
                d = l if l == r else (l, r)
                pairs.append((f"wn.trim_chunks {f_list(big)} {l} {r} {bn}", impl_call(
                    lambda: O.trim_internal(x, {0: d}, {0: "none" if bn else "periodic"}).chunks[0], lambda r_: "ok " + f_list(r_))))
    FILL = -7
    for n in range(1, 7):
        x = np.arange(n)
        for depth in range(1, n + 1):
            for kind in ("periodic", "reflect", "nearest", "constant"):
                for cks in ((n,), (1,) * n):
                    d = da.from_array(x, chunks=(cks,))

                    def go():
                        r = O.boundaries(d, {0: depth}, {0: FILL if kind == "constant" else kind}).compute()
                        return "ok " + ",".join("N" if v == FILL else str(int(v)) for v in r.tolist())

                    pairs.append((f"wn.boundary {kind} {n} {depth}", impl_call(go, lambda r: r)))
    ctx.correspond("trim/boundary-maps", pairs, branch_key=lambda r, m: (r.split()[0], r.split()[1], m[:8]))


# =========================================================================== search (real code vs NumPy)


def mk_data(shape, dtype, dseed, nan=0.0):
    rng = np.random.default_rng(int(dseed))
    if dtype == "int":
        return rng.integers(-4, 5, size=shape).astype(np.int64)
    if dtype == "bool":
        return rng.integers(0, 2, size=shape).astype(bool)
    x = rng.integers(-20, 21, size=shape).astype(np.float64) / 4.0
    if nan:
        x[rng.random(size=shape) < nan] = np.nan
    return x


def same(got, want, exact):
    got = np.asarray(got)
    want = np.asarray(want)
    if got.shape != want.shape:
        return False
    if exact:
        return bool(np.array_equal(got, want))
    return bool(np.allclose(got, want, rtol=1e-9, atol=1e-9, equal_nan=True))


def brief(a):
    a = np.asarray(a)
    return a.tolist() if a.size <= 64 else {"shape": list(a.shape), "head": a.ravel()[:16].tolist()}


def _sten(b, axis):
    """3-point sum along `axis`, truncated at the ends of whatever array it is given."""
    b = np.asarray(b)
    s = b.copy()
    sl = [slice(None)] * b.ndim
    lo = list(sl)
    hi = list(sl)
    lo[axis] = slice(1, None)
    hi[axis] = slice(None, -1)
    s[tuple(lo)] += b[tuple(hi)]
    s[tuple(hi)] += 2 * b[tuple(lo)]
    return s


def sten_all(b, axes):
    for ax in axes:
        b = _sten(b, ax)
    return b


def sten_r(b, axes, radii):
    """Asymmetric stencil of radius `radii[j]` along `axes[j]` (so the whole halo of depth = radius is
    read), truncated at the ends of whatever array it is given."""
    b = np.asarray(b)
    for ax, r in zip(axes, radii):
        s = b.copy()
        for k in range(1, int(r) + 1):
            if k >= b.shape[ax]:
                break
            lo = [slice(None)] * b.ndim
            hi = [slice(None)] * b.ndim
            lo[ax] = slice(k, None)
            hi[ax] = slice(None, -k)
            s[tuple(lo)] += (k + 1) * b[tuple(hi)]
            s[tuple(hi)] += (2 * k + 3) * b[tuple(lo)]
        b = s
    return b


def _ffill_block(x, axis=0, dtype=None):
    x = np.asarray(x, dtype=float)
    x = np.moveaxis(x, axis, -1).copy()
    for j in range(1, x.shape[-1]):
        m = np.isnan(x[..., j])
        x[..., j][m] = x[..., j - 1][m]
    return np.moveaxis(x, -1, axis)


def _last_valid(x, axis=0, keepdims=True):
    x = np.asarray(x, dtype=float)
    if x.shape[axis] == 0:
        # like np.sum on an empty block: the identity of the merge (NaN = "nothing valid yet"), keepdims
        shp = list(x.shape)
        shp[axis] = 1
        return np.full(shp, np.nan)
    f = _ffill_block(x, axis=axis)
    idx = [slice(None)] * f.ndim
    idx[axis] = slice(-1, None)
    return f[tuple(idx)]


def _fill_last(a, b):
    return np.where(~np.isnan(b), b, a)


PAD_MODE = {"periodic": "wrap", "reflect": "symmetric", "nearest": "edge"}


def check_case(ctx, case):
    """Run one search case on the real code; ctx.fail on a property failure. The case dict alone
    determines the input (data from `dseed`)."""
    import dask
    import dask_array as da
    from dask_array import _overlap as O

    kind = case["kind"]
    if kind == "ovpipe":
        from harness.props_ext import c19_pipe

        return c19_pipe.check(ctx, case)
    if kind in ("grad", "gdiff"):
        from harness.props_ext import c19_gradient

        return c19_gradient.check(ctx, case)
    if kind == "ovseq":
        from harness.props_ext import c19_seq

        return c19_seq.replay(ctx, case)
    if kind in ("mcum", "mwin"):
        from harness.props_ext import c19_edge

        return c19_edge.check(ctx, case)
    if kind == "ovaxes":
        from harness.props_ext import c19_axes

        return c19_axes.check(ctx, case)
    shape = tuple(case["shape"])
    chunks = tt(case["chunks"])
    dtype = case.get("dtype", "int")
    x = mk_data(shape, dtype, case.get("dseed", 0), case.get("nan", 0.0))
    if case.get("prodsafe"):
        # running products that stay exactly representable in every result dtype used
        prng = np.random.default_rng(int(case.get("dseed", 0)) + 17)
        x = prng.choice(np.array([2, -2, 3, -1, 1] if dtype == "int" else [2.0, -2.0, 0.5, -0.5, -1.0, 4.0]), size=shape).astype(x.dtype)
    if case.get("np_dtype"):
        t = np.dtype(case["np_dtype"])
        x = (np.abs(x) if t.kind == "u" else x).astype(t)
    for cell in case.get("nan_cells") or ():
        x[tuple(cell)] = np.nan
    exact = dtype in ("int", "bool")
    index = None if case.get("index") is None else tuple(slice(*i) for i in case["index"])
    sig = kind
    got = want = None
    phase = "oracle"
    try:
        with warnings.catch_warnings():
            warnings.simplefilter("ignore")
            d = da.from_array(x, chunks=chunks)
            if kind == "swv":
                window = tuple(case["window"])
                axis = case["axis"]
                axis_t = None if axis is None else tuple(axis)
                red = case.get("reducer")
                kd = bool(case.get("keepdims", False))
                sig = f"swv:{red or 'view'}"
                if axis_t is not None and len(axis_t) == 1 and len(window) == 1:
                    wa, aa = window[0], axis_t[0]
                else:
                    wa, aa = window, axis_t
                v = SWV(x, wa, axis=aa)
                want = v if red is None else getattr(np, red)(v, axis=-1, keepdims=kd)
                phase = "impl"
                if case.get("automatic_rechunk", True):
                    r = da.sliding_window_view(d, wa, axis=aa)
                else:
                    sig += ":no-automatic-rechunk"
                    r = da.sliding_window_view(d, wa, axis=aa, automatic_rechunk=False)
                if red is not None:
                    r = getattr(da, red)(r, axis=-1, keepdims=kd)
                got = r.compute()
                exact = exact and red not in ("mean", "nanmean", "var", "std")
            elif kind == "swvm":
                # multi-axis windows: distinct, negative and REPEATED axes (NumPy allows axis=(0, 0), (-1, 1))
                window = tuple(int(w) for w in case["window"])
                axis_t = tuple(int(a) for a in case["axis"])
                red = case.get("reducer")
                sig = f"swv-multi:{red or 'view'}"
                v = SWV(x, window, axis=axis_t)
                wax = tuple(range(v.ndim - len(window), v.ndim))
                want = v if red is None else getattr(np, red)(v, axis=wax)
                phase = "impl"
                r = da.sliding_window_view(d, window, axis=axis_t)
                if red is not None:
                    r = getattr(da, red)(r, axis=wax)
                meta_bad = None
                if tuple(r.shape) != want.shape:
                    meta_bad = f"declared shape {tuple(r.shape)} != NumPy shape {want.shape}"
                elif tuple(sum(c) for c in r.chunks) != want.shape:
                    meta_bad = f"advertised chunks {r.chunks} do not sum to shape {want.shape}"
                got = r.compute()
                if meta_bad is not None and same(got, want, exact):
                    c = dict(case)
                    c["meta"] = meta_bad
                    ctx.fail(sig + ":meta", c, "declared shape / chunks differ from the NumPy shape")
                    return "bad"
                exact = exact and red not in ("mean",)
            elif kind == "mo_slice":
                # map_overlap (periodic etc.) followed by unit-step slices, some strictly inside the halo
                depth = {int(k): int(v) for k, v in case["depth"]}
                boundary = {int(k): v for k, v in case["boundary"]}
                axes = sorted(k for k, v in depth.items() if v != 0)
                index = tuple(slice(a, b) for a, b in case["index"])
                sig = "map_overlap:slice"
                padded = x
                sl = []
                for ax in range(x.ndim):
                    dep = depth.get(ax, 0)
                    b = boundary.get(ax, "none")
                    if dep == 0 or b == "none":
                        sl.append(slice(None))
                        continue
                    pw = [(0, 0)] * x.ndim
                    pw[ax] = (dep, dep)
                    padded = np.pad(padded, pw, mode=PAD_MODE[b]) if b in PAD_MODE else np.pad(padded, pw, mode="constant", constant_values=b)
                    sl.append(slice(dep, -dep))
                radii = [depth[ax] for ax in axes]
                want = sten_r(padded, axes, radii)[tuple(sl)][index]
                phase = "impl"
                r = da.map_overlap(sten_r, d, depth=depth, boundary=boundary, dtype=x.dtype, axes=axes, radii=radii)[index]
                got = r.compute()
                if tuple(r.shape) != want.shape and same(got, want, exact):
                    c = dict(case)
                    c["meta"] = f"declared shape {tuple(r.shape)} != {want.shape}"
                    ctx.fail(sig + ":meta", c, "declared shape differs")
                    return "bad"
            elif kind == "move":
                import bottleneck as bn

                fn = getattr(bn, case["func"])
                w = int(case["window"])
                mc = case.get("min_count")
                ax = int(case["axis"])
                sig = f"move:{case['func']}"
                want = fn(x, w, min_count=mc, axis=ax)
                phase = "impl"
                r = da.map_overlap(fn, d, depth={ax: (w - 1, 0)}, boundary="none", window=w, min_count=mc, axis=ax, dtype=float)
                got = r.compute()
            elif kind in ("overlap_id", "stencil"):
                depth = {int(k): (tuple(v) if isinstance(v, (list, tuple)) else int(v)) for k, v in case["depth"]}
                boundary = {int(k): v for k, v in case["boundary"]}
                axes = sorted(k for k, v in depth.items() if v != 0 and v != (0, 0))
                if kind == "overlap_id":
                    sig = "overlap:trim-identity"
                    want = x
                    phase = "impl"
                    g = da.overlap(d, depth=depth, boundary=boundary)
                    got = O.trim_internal(g, depth, boundary).compute()
                    if same(got, want, exact):
                        sig = "map_overlap:identity"
                        got = da.map_overlap(lambda b: b, d, depth=depth, boundary=boundary, dtype=x.dtype).compute()
                else:
                    sig = "map_overlap:stencil"
                    padded = x
                    sl = []
                    for ax in range(x.ndim):
                        dep = depth.get(ax, 0)
                        b = boundary.get(ax, "none")
                        if dep == 0 or dep == (0, 0) or b == "none":
                            sl.append(slice(None))
                            continue
                        pw = [(0, 0)] * x.ndim
                        pw[ax] = (dep, dep)
                        if b in PAD_MODE:
                            padded = np.pad(padded, pw, mode=PAD_MODE[b])
                        else:
                            padded = np.pad(padded, pw, mode="constant", constant_values=b)
                        sl.append(slice(dep, -dep))
                    radii = [depth[ax] for ax in axes]
                    want = sten_r(padded, axes, radii)[tuple(sl)]
                    phase = "impl"
                    got = da.map_overlap(sten_r, d, depth=depth, boundary=boundary, dtype=x.dtype, axes=axes, radii=radii).compute()
            elif kind == "diff":
                sig = "diff"
                kw = {}
                for name in ("prepend", "append"):
                    v = case.get(name)
                    if isinstance(v, dict):
                        shp = list(shape)
                        shp[case["axis"]] = int(v["arr"])
                        kw[name] = mk_data(tuple(shp), dtype, case.get("dseed", 0) + (3 if name == "append" else 5))
                    elif v is not None:
                        kw[name] = v
                if kw:
                    sig = "diff:prepend/append"
                want = np.diff(x, n=case["n"], axis=case["axis"], **kw)
                phase = "impl"
                r = da.diff(d, n=case["n"], axis=case["axis"], **kw)
                if index is not None:
                    sig += ":slice"
                    r, want = r[index], want[index]
                got = r.compute()
                if tuple(r.shape) != want.shape and same(got, want, exact):
                    ctx.fail(sig + ":meta", dict(case, meta=f"declared shape {tuple(r.shape)} != {want.shape}"), "declared shape differs")
                    return "bad"
            elif kind == "gradient":
                sig = f"gradient:edge{case['edge_order']}"
                ax = case["axis"]
                if case["spacing"] == "coords":
                    crng = np.random.default_rng(case.get("dseed", 0) + 1)
                    sp = np.cumsum(crng.integers(1, 4, size=shape[ax])).astype(float) / 2.0
                else:
                    sp = float(case["spacing"])
                xf = x.astype(float)
                want = np.gradient(xf, sp, axis=ax, edge_order=case["edge_order"])
                phase = "impl"
                r = da.gradient(d, sp, axis=ax, edge_order=case["edge_order"])
                if index is not None:
                    sig = "gradient:coords:slice" if case["spacing"] == "coords" else "gradient:slice"
                    r, want = r[index], want[index]
                got = r.compute()
                exact = False
            elif kind == "cum":
                fn = case["func"]
                method = case["method"]
                ax = case["axis"]
                sig = f"cum:{fn}:{method}"
                if fn == "ffill":
                    from dask_array.reductions import cumreduction

                    want = _ffill_block(x, axis=ax)
                    phase = "impl"
                    r = cumreduction(_ffill_block, _fill_last, np.nan, d, axis=ax, dtype=float, method=method, preop=_last_valid)
                    if index is not None:
                        sig += ":slice"
                        r, want = r[index], want[index]
                    got = r.compute()
                else:
                    kw = {} if case.get("out_dtype") is None else {"dtype": np.dtype(case["out_dtype"])}
                    want = getattr(np, fn)(x, axis=ax, **kw)
                    phase = "impl"
                    r = getattr(da, fn)(d, axis=ax, method=method, **kw)
                    if index is not None:
                        # a slice of later blocks only: every block must be right on its own
                        sig += ":slice"
                        r, want = r[index], want[index]
                    got = r.compute()
                    if same(got, want, exact) and (np.asarray(got).dtype != want.dtype or r.dtype != want.dtype):
                        c = dict(case)
                        c["dtypes"] = {"computed": str(np.asarray(got).dtype), "advertised": str(r.dtype), "numpy": str(want.dtype)}
                        ctx.fail(f"cum:{fn}:{method}:dtype", c, "the dtype of the computed blocks / the advertised dtype differs from NumPy's")
                        return "bad"
            elif kind == "push":
                import bottleneck as bn

                n_, ax = case["n"], case["axis"]
                sig = "push"
                if n_ == 0:
                    sig = "push:n0"
                elif ax < 0 and n_ is not None:
                    sig = "push:negative-axis"
                want = bn.push(x, axis=ax) if n_ is None else bn.push(x, n_, ax)
                phase = "impl"
                r = da.push(d, n_, ax)
                if index is not None:
                    sig += ":slice"
                    r, want = r[index], want[index]
                got = r.compute()
            else:
                raise KeyError(kind)
    except Exception as e:  # noqa: BLE001
        if phase == "oracle":
            # NumPy / bottleneck itself rejects the input: nothing is required of the implementation
            return "oracle-rejects"
        if documented_refusal(e):
            ctx.notes["documented_refusals"] = ctx.notes.get("documented_refusals", 0) + 1
            return "refused"
        c = dict(case)
        c["error"] = f"{type(e).__name__}: {str(e)[:300]}"
        ctx.fail(sig + ":raises", c, "the operation raises on a valid input instead of computing the NumPy result")
        return "raised"
    if not same(got, want, exact):
        c = dict(case)
        c["got"] = brief(got)
        c["want"] = brief(want)
        ctx.fail(sig, c, "result differs from the NumPy definition")
        return "bad"
    return "ok"


def numpy_ok(case):
    """False when NumPy itself rejects the input (then nothing is required of the implementation)."""
    if case["kind"] == "swv":
        shape = tuple(case["shape"])
        window = tuple(case["window"])
        axis = case["axis"]
        axes = range(len(shape)) if axis is None else axis
        need = {}
        for a, w in zip(axes, window):
            need[a] = need.get(a, 0) + w - 1
        return all(shape[a] - dp >= 1 for a, dp in need.items())
    return True


def chunk_class(chunks, axis, w):
    c = chunks[axis]
    return (len(c) > 1, min(c) < w - 1 if c else False, (w > max(c)) if c else False, len(c) > 3)


def search(ctx):
    from dask_array.reductions import _sliding_window as SW

    rng = ctx.rng
    ex_n = ctx.scale(7, 8)
    REDS = ["sum", "max", "min", "mean", "prod"]
    NANREDS = ["nansum", "nanmax", "nanmin", "nanmean", "nanprod"]
    stats = ctx.notes
    k = 0
    import time as _time

    _lap = [_time.time()]

    def lap(name):
        now = _time.time()
        stats["t." + name + "_s"] = round(now - _lap[0], 1)
        _lap[0] = now

    def run(case, key):
        if not numpy_ok(case):
            return
        r = check_case(ctx, case)
        ctx.count((case["kind"],) + tuple(key) + (r,))
        stats["search." + case["kind"]] = stats.get("search." + case["kind"], 0) + 1
        if r == "ok" and rng.random() < 0.0005:
            ctx.sample(case)

    # ---- S1 sliding_window_view, 1-D exhaustive
    nbase = 0
    for n in range(1, ex_n + 1):
        for cks in gen.compositions(n):
            for w in range(1, n + 1):
                nbase += 1
                if ctx.tier != "thorough" and n == ex_n and (nbase + ctx.seed) % 2:
                    # quick tier: every other (chunking, window) of the largest n, the half alternating with the seed (every
                    # (reducer family, native?, chunk class) of the full enumeration is still met; thorough runs all of n ≤ 8)
                    continue
                k += 1
                base = {"kind": "swv", "shape": [n], "chunks": [list(cks)], "window": [w], "axis": [0], "dseed": k}
                native = SW.supports_native_sliding_window(cks, w)
                cc = chunk_class((cks,), 0, w)
                reds = [None] + (REDS if ctx.tier == "thorough" else [REDS[(k + k // 5) % 5]])
                for red in reds:
                    run(dict(base, reducer=red, dtype="int"), (red, native) + cc)
                if ctx.tier == "thorough" or k % 2 == 0:
                    nr = NANREDS[(k // 2) % 5]
                    run(dict(base, reducer=nr, dtype="float", nan=0.3), (nr, native) + cc)
                if k % 7 == 0:
                    run(dict(base, reducer=rng.choice(["any", "all"]), dtype="bool"), ("anyall", native) + cc)
                if k % 5 == 0:
                    run(dict(base, reducer=rng.choice(REDS), dtype="int", keepdims=True), ("keepdims", native) + cc)
    lap("S1")
    # ---- S1b larger 1-D and 2-D random, windows spanning many blocks
    for _ in range(ctx.scale(250, 5000)):
        k += 1
        if rng.random() < 0.5:
            n = rng.choice([9, 12, 17, 30, 64])
            cks = (gen.rand_chunks(rng, n, maxparts=20),)
            shape = (n,)
            ax = 0
        else:
            shape = (rng.randint(1, 7), rng.randint(1, 8))
            cks = tuple(gen.rand_chunks(rng, s) for s in shape)
            ax = rng.choice([0, 1])
        n = shape[ax]
        w = rng.choice([1, 2, 3, rng.randint(1, n), min(n, max(cks[ax]) + 1), min(n, 2 * max(cks[ax]) + 1), n])
        red = rng.choice([None] + REDS + NANREDS)
        case = {"kind": "swv", "shape": list(shape), "chunks": [list(c) for c in cks], "window": [w], "axis": [ax], "dseed": k,
                "reducer": red, "dtype": "float" if (red or "").startswith("nan") or rng.random() < 0.3 else "int",
                "nan": 0.25 if (red or "").startswith("nan") else 0.0, "keepdims": rng.random() < 0.2 and red is not None}
        run(case, (red, len(shape), SW.supports_native_sliding_window(cks[ax], w)) + chunk_class(cks, ax, w))
    # multi-axis windows (view alone and reduced over the last window axis)
    for _ in range(ctx.scale(60, 1000)):
        k += 1
        shape = (rng.randint(2, 6), rng.randint(2, 7))
        cks = tuple(gen.rand_chunks(rng, s) for s in shape)
        w = (rng.randint(1, shape[0]), rng.randint(1, shape[1]))
        red = rng.choice([None, None, "sum", "max"])
        axis = rng.choice([None, [0, 1], [1, 0]])
        if axis == [1, 0]:
            w = (w[1], w[0])
        case = {"kind": "swv", "shape": list(shape), "chunks": [list(c) for c in cks], "window": list(w), "axis": axis, "dseed": k, "reducer": red, "dtype": "int"}
        run(case, ("multi", red))

    # multi-axis windows incl. negative and repeated axes (mixed spellings), 2-D and 3-D, alone and reduced
    # over all window axes; shape, advertised chunks and values are compared
    for _ in range(ctx.scale(260, 4000)):
        k += 1
        nd = rng.choice([2, 2, 3])
        shape = tuple(rng.randint(3, 7) if nd == 2 else rng.randint(2, 5) for _ in range(nd))
        cks = tuple(gen.rand_chunks(rng, s_) for s_ in shape)
        style = rng.choice(["distinct", "repeat", "repeat", "mixed-spelling", "negative", "triple"])
        if style == "distinct":
            axs = rng.sample(range(nd), rng.randint(2, nd))
        elif style == "negative":
            axs = [a - nd for a in rng.sample(range(nd), rng.randint(1, nd))]
        elif style == "repeat":
            a = rng.randrange(nd)
            axs = [a, a] + ([rng.randrange(nd)] if rng.random() < 0.3 else [])
        elif style == "mixed-spelling":
            a = rng.randrange(nd)
            axs = [a - nd, a] if rng.random() < 0.5 else [a, a - nd]
            if rng.random() < 0.3:
                axs.insert(rng.randint(0, 2), rng.randrange(nd))
        else:
            a = rng.randrange(nd)
            axs = [a, a - nd, a]
        win = []
        room = {a % nd: shape[a % nd] for a in axs}
        for a in axs:
            w = rng.randint(1, max(1, min(3, room[a % nd])))
            room[a % nd] -= w - 1
            win.append(w)
        red = rng.choice([None, None, "sum", "max", "min"])
        case = {"kind": "swvm", "shape": list(shape), "chunks": [list(c) for c in cks], "window": win, "axis": axs,
                "reducer": red, "dtype": "int", "dseed": k}
        run(case, (style, nd, red, len(axs), any(len(c) > 1 for c in cks)))

    # map_overlap with a wrapping/padding boundary, depth ≥ 2, then unit-step slices that start/stop strictly
    # inside the halo and cull blocks (the slice is pushed through MapOverlap by the optimizer)
    for _ in range(ctx.scale(160, 2500)):
        k += 1
        nd = rng.choice([1, 1, 2])
        shape = tuple(rng.randint(6, 14) for _ in range(nd))
        cks = tuple(gen.rand_chunks(rng, s_, maxparts=6) for s_ in shape)
        depth, bnd, index = [], [], []
        for ax in range(nd):
            dep = rng.choice([2, 2, 3, 4]) if ax == 0 or rng.random() < 0.5 else 0
            dep = min(dep, shape[ax] // 2)
            b = rng.choice(["periodic", "periodic", "periodic", "reflect", "nearest", "none", 5])
            n_ = shape[ax]
            mode = rng.choice(["halo-start", "halo-stop", "halo-both", "interior", "edge", "full"])
            lo, hi = 0, n_
            if dep >= 2 and mode in ("halo-start", "halo-both"):
                lo = rng.randint(1, dep - 1)
            if dep >= 2 and mode in ("halo-stop", "halo-both"):
                hi = n_ - rng.randint(1, dep - 1)
            if mode == "interior":
                lo = rng.randint(0, n_ - 1)
                hi = rng.randint(lo + 1, n_)
            if mode == "edge":
                lo, hi = rng.choice([(0, rng.randint(1, n_)), (rng.randint(0, n_ - 1), n_)])
            if mode in ("halo-start",) and hi - lo > 2 and rng.random() < 0.6:
                hi = rng.randint(lo + 1, n_ - 1)  # cull trailing blocks
            if mode in ("halo-stop",) and hi - lo > 2 and rng.random() < 0.6:
                lo = rng.randint(1, hi - 1)
            depth.append([ax, dep])
            bnd.append([ax, b])
            index.append([lo, hi])
        case = {"kind": "mo_slice", "shape": list(shape), "chunks": [list(c) for c in cks], "depth": depth, "boundary": bnd,
                "index": index, "dtype": "int", "dseed": k}
        run(case, (nd, tuple(str(b[1]) for b in bnd), tuple(0 < i[0] < dv[1] for i, dv in zip(index, depth)),
                   tuple(n_ - dv[1] < i[1] < n_ for i, dv, n_ in zip(index, depth, shape))))

    lap("S1b")
    # ---- S2 bottleneck move_* through map_overlap
    MOVES = ["move_sum", "move_mean", "move_min", "move_max"]
    for n in range(2, ctx.scale(6, 8) + 1):
        for cks in gen.compositions(n):
            for w in range(1, n + 1):
                k += 1
                for mc in (None, 1):
                    case = {"kind": "move", "shape": [n], "chunks": [list(cks)], "window": w, "min_count": mc, "axis": 0,
                            "func": MOVES[(k + (mc or 0)) % 4], "dtype": "float", "nan": 0.25, "dseed": k}
                    run(case, (case["func"], mc, SW.supports_native_moving_window(cks, w)) + chunk_class((cks,), 0, w))
    for _ in range(ctx.scale(150, 3000)):
        k += 1
        shape = (rng.randint(1, 6), rng.randint(2, 12))
        cks = tuple(gen.rand_chunks(rng, s) for s in shape)
        ax = rng.choice([0, 1])
        n = shape[ax]
        w = rng.choice([1, 2, rng.randint(1, n), min(n, max(cks[ax]) + 1), n])
        mc = rng.choice([None, 1, max(1, w // 2), w])
        case = {"kind": "move", "shape": list(shape), "chunks": [list(c) for c in cks], "window": w, "min_count": mc, "axis": ax,
                "func": rng.choice(MOVES), "dtype": "float", "nan": rng.choice([0.0, 0.2, 0.6]), "dseed": k}
        run(case, (case["func"], mc is None, 2, SW.supports_native_moving_window(cks[ax], w)) + chunk_class(cks, ax, w))

    lap("S2")
    # ---- S3 overlap / map_overlap, every boundary kind, blocks smaller than depth
    BOUNDS = ["periodic", "reflect", "nearest", "none", 7]
    for n in range(1, ctx.scale(5, 7) + 1):
        for cks in gen.compositions(n):
            for depth in range(1, n + 1):
                for b in BOUNDS:
                    k += 1
                    if ctx.tier != "thorough" and (k % 2) and len(cks) > 1 and n > 3:
                        continue
                    base = {"shape": [n], "chunks": [list(cks)], "depth": [[0, depth]], "boundary": [[0, b]], "dtype": "int", "dseed": k}
                    key = (str(b), min(cks) < depth, len(cks) > 1, depth == n)
                    run(dict(base, kind="overlap_id"), key)
                    run(dict(base, kind="stencil"), key)
            # asymmetric depth (boundary none only; other boundaries are a documented refusal)
            for l, r_ in ((1, 0), (0, 2), (2, 1)):
                if max(l, r_) <= n:
                    k += 1
                    base = {"shape": [n], "chunks": [list(cks)], "depth": [[0, [l, r_]]], "boundary": [[0, "none"]], "dtype": "int", "dseed": k}
                    run(dict(base, kind="overlap_id"), ("asym", min(cks) < max(l, r_), len(cks) > 1))
    for _ in range(ctx.scale(120, 3000)):
        k += 1
        shape = (rng.randint(1, 6), rng.randint(1, 7))
        cks = tuple(gen.rand_chunks(rng, s) for s in shape)
        depth = []
        bnd = []
        for ax in range(2):
            dd = rng.choice([0, 1, 1, 2, rng.randint(0, shape[ax])])
            b = rng.choice(BOUNDS)
            if b == "none" and rng.random() < 0.3 and shape[ax] >= 2:
                dd = [rng.randint(0, 2), rng.randint(0, 2)]
            depth.append([ax, dd])
            bnd.append([ax, b])
        base = {"shape": list(shape), "chunks": [list(c) for c in cks], "depth": depth, "boundary": bnd, "dtype": rng.choice(["int", "float"]), "dseed": k}
        key = (2, tuple(str(b[1]) for b in bnd), any(isinstance(dv[1], list) for dv in depth))
        run(dict(base, kind="overlap_id"), key)
        if not any(isinstance(dv[1], list) for dv in depth):
            run(dict(base, kind="stencil"), key)

    lap("S3")
    # ---- S4 diff / gradient
    for _ in range(ctx.scale(150, 3000)):
        k += 1
        nd = rng.choice([1, 2])
        shape = tuple(rng.randint(1, 9) for _ in range(nd))
        cks = tuple(gen.rand_chunks(rng, s) for s in shape)
        ax = rng.randrange(-nd, nd)
        case = {"kind": "diff", "shape": list(shape), "chunks": [list(c) for c in cks], "n": rng.choice([0, 1, 1, 2, 3]), "axis": ax, "dtype": rng.choice(["int", "float"]), "dseed": k}
        run(case, (case["n"], nd, len(cks[ax]) > 1))
    for _ in range(ctx.scale(150, 3000)):
        k += 1
        nd = rng.choice([1, 2])
        eo = rng.choice([1, 2])
        shape = tuple(rng.randint(eo + 1, 10) for _ in range(nd))
        ax = rng.randrange(0, nd)
        cl = []
        for j, s in enumerate(shape):
            if j == ax and rng.random() < 0.85:
                # chunks the implementation accepts (every chunk ≥ edge_order + 1), else a documented refusal
                parts = []
                left = s
                while left > 0:
                    c = rng.randint(eo + 1, max(eo + 1, min(left, 5)))
                    if left - c < eo + 1 and left - c != 0:
                        c = left
                    parts.append(c)
                    left -= c
                cl.append(parts)
            else:
                cl.append(list(gen.rand_chunks(rng, s)))
        case = {"kind": "gradient", "shape": list(shape), "chunks": cl, "axis": ax, "edge_order": eo,
                "spacing": rng.choice(["coords", 1.0, 0.5, 2.0]), "dtype": rng.choice(["int", "float"]), "dseed": k}
        run(case, (eo, case["spacing"] == "coords", nd, len(cl[ax]) > 1))

    lap("S4")
    # ---- S5 cumulative scans, both methods; exhaustive chunkings n ≤ 8
    FUNCS = ["cumsum", "cumprod", "nancumsum", "nancumprod", "ffill"]
    for n in range(1, 9):
        for cks in gen.compositions(n):
            k += 1
            for method in ("sequential", "blelloch"):
                fs = FUNCS if ctx.tier == "thorough" or n <= 6 else [FUNCS[k % 5], "ffill"]
                for fn in fs:
                    isf = fn.startswith("nan") or fn == "ffill"
                    case = {"kind": "cum", "func": fn, "method": method, "shape": [n], "chunks": [list(cks)], "axis": 0,
                            "dtype": "float" if isf else "int", "nan": 0.3 if isf else 0.0, "dseed": k}
                    run(case, (fn, method, len(cks), len(cks) & (len(cks) - 1) == 0))
    for nb in list(range(9, 41)) + [rng.randint(41, 130) for _ in range(ctx.scale(4, 40))]:
        k += 1
        for method in ("sequential", "blelloch"):
            for fn in ("cumsum", "ffill"):
                case = {"kind": "cum", "func": fn, "method": method, "shape": [nb], "chunks": [[1] * nb], "axis": 0,
                        "dtype": "float" if fn == "ffill" else "int", "nan": 0.4 if fn == "ffill" else 0.0, "dseed": k}
                run(case, (fn, method, "unit", nb))
    for _ in range(ctx.scale(200, 4000)):
        k += 1
        nd = rng.choice([1, 2, 2, 3])
        shape = tuple(rng.randint(1, 9 if nd < 3 else 4) for _ in range(nd))
        cks = tuple(gen.rand_chunks(rng, s, zeros=0.1 if nd == 1 else 0.0) for s in shape)
        fn = rng.choice(FUNCS)
        isf = fn.startswith("nan") or fn == "ffill" or rng.random() < 0.3
        ax = rng.randrange(-nd, nd)
        if fn in ("cumsum", "cumprod") and rng.random() < 0.15:
            ax = None
        case = {"kind": "cum", "func": fn, "method": rng.choice(["sequential", "blelloch"]), "shape": list(shape), "chunks": [list(c) for c in cks],
                "axis": ax, "dtype": "float" if isf else "int", "nan": 0.3 if isf and fn != "cumsum" and fn != "cumprod" else 0.0, "dseed": k}
        run(case, (fn, case["method"], nd, ax is None, any(0 in c for c in cks)))

    lap("S5")
    # ---- S5b special cells at block edges (masked arrays, NaN), explicit dtype=, prepend/append, slices after the operation
    from harness.props_ext import c19_edge

    for case, key in c19_edge.cases(ctx, 3 * 10**6):
        run(case, key)

    lap("S5b")
    # ---- S5c axis bookkeeping of the direct map_overlap path (drop_axis / new_axis / chunks=, several inputs)
    from harness.props_ext import c19_axes

    c19_axes.search(ctx)
    lap("S5c")
    # ---- S6 overlap-family calls in sequence in this one process (LAST: a call that poisons later calls must not
    # make the single-call streams above unreplayable); failures are confirmed in a fresh interpreter
    import time as _time

    from harness.props_ext import c19_seq

    t0 = _time.time()
    c19_seq.search(ctx)
    stats["t.ovseq_s"] = round(_time.time() - t0, 1)
    # the chunked map_overlap pipeline against its global meaning (Props/C19Overlap.lean; ovp.*)
    from harness.props_ext import c19_pipe

    t0 = _time.time()
    c19_pipe.run(ctx)
    stats["t.ovpipe_s"] = round(_time.time() - t0, 1)
    # gradient / diff block plans (Props/C19Gradient.lean; grd.*)
    from harness.props_ext import c19_gradient

    t0 = _time.time()
    c19_gradient.run(ctx)
    stats["t.gradient_s"] = round(_time.time() - t0, 1)


# =========================================================================== targeted search


def targeted(ctx):
    """Lift every model/implementation disagreement to API level."""
    tried = 0
    k = 10**6
    REDS = ["sum", "max", "min", "mean", "prod", "nansum", "nanmean"]
    seen = set()
    budget = ctx.scale(600, 6000)
    for d in ctx.disagreements[:60]:
        if tried >= budget:
            break
        toks = d["request"].split()
        fam = toks[0]
        try:
            if fam == "sc.wiring" or fam in ("sc.steps", "sc.clog2", "sc.range", "sc.blelloch_offsets"):
                n = int(toks[2]) if fam == "sc.wiring" else (int(toks[1]) + 1 if fam in ("sc.steps", "sc.clog2") else 8)
                for nb in sorted({max(1, n - 1), n, n + 1, 2 * n, 2 * n + 1}):
                    if ("sc", nb) in seen or nb > 300:
                        continue
                    seen.add(("sc", nb))
                    for method in ("sequential", "blelloch"):
                        for fn in ("cumsum", "cumprod", "ffill"):
                            for cks in ([1] * nb, [2] * nb, [1 + (j % 3) for j in range(nb)]):
                                k += 1
                                isf = fn == "ffill"
                                check_case(ctx, {"kind": "cum", "func": fn, "method": method, "shape": [sum(cks)], "chunks": [cks], "axis": 0,
                                                 "dtype": "float" if isf else "int", "nan": 0.4 if isf else 0.0, "dseed": k})
                                tried += 1
            elif fam.startswith("wn.") and fam in ("wn.supports_sliding", "wn.block_plan", "wn.out_chunks", "wn.sliding_layer"):
                cks = [int(t) for t in toks[1].split(",")]
                w = int(toks[2])
                n = sum(cks)
                for ww in sorted({max(1, w - 1), w, w + 1}):
                    if ww > n or ("sw", tuple(cks), ww) in seen:
                        continue
                    seen.add(("sw", tuple(cks), ww))
                    for red in REDS:
                        k += 1
                        isf = red.startswith("nan")
                        check_case(ctx, {"kind": "swv", "shape": [n], "chunks": [cks], "window": [ww], "axis": [0], "reducer": red,
                                         "dtype": "float" if isf else "int", "nan": 0.3 if isf else 0.0, "dseed": k})
                        check_case(ctx, {"kind": "swv", "shape": [2, n], "chunks": [[1, 1], cks], "window": [ww], "axis": [1], "reducer": red,
                                         "dtype": "float" if isf else "int", "nan": 0.3 if isf else 0.0, "dseed": k, "keepdims": True})
                        tried += 2
            elif fam in ("wn.supports_moving", "wn.moving_plan"):
                cks = [int(t) for t in toks[1].split(",")]
                w = int(toks[2])
                n = sum(cks)
                for ww in sorted({max(1, w - 1), w, w + 1}):
                    if ww > n or ("mv", tuple(cks), ww) in seen:
                        continue
                    seen.add(("mv", tuple(cks), ww))
                    for fn in ("move_sum", "move_mean", "move_min", "move_max"):
                        for mc in (None, 1):
                            k += 1
                            check_case(ctx, {"kind": "move", "shape": [n], "chunks": [cks], "window": ww, "min_count": mc, "axis": 0, "func": fn,
                                             "dtype": "float", "nan": 0.25, "dseed": k})
                            tried += 1
            elif fam in ("wn.min_chunksize", "wn.rechunked", "wn.internal_chunks", "wn.trim_chunks", "wn.boundary"):
                if fam == "wn.min_chunksize":
                    size, cks = int(toks[1]), [int(t) for t in toks[2].split(",")]
                    depths = [max(0, size - 1), size]
                elif fam == "wn.boundary":
                    n, dep = int(toks[2]), int(toks[3])
                    cks, depths = [1] * n, [dep]
                else:
                    cks = [int(t) for t in toks[1].split(",")]
                    depths = sorted({int(toks[2]), int(toks[3])})
                n = sum(cks)
                if n == 0 or 0 in cks or ("ov", tuple(cks), tuple(depths)) in seen:
                    continue
                seen.add(("ov", tuple(cks), tuple(depths)))
                for dep in depths:
                    if 1 <= dep <= n:
                        for b in ("periodic", "reflect", "nearest", "none", 7):
                            k += 1
                            base = {"shape": [n], "chunks": [cks], "depth": [[0, dep]], "boundary": [[0, b]], "dtype": "int", "dseed": k}
                            check_case(ctx, dict(base, kind="overlap_id"))
                            check_case(ctx, dict(base, kind="stencil"))
                            tried += 2
                    if 1 <= dep + 1 <= n:
                        k += 1
                        check_case(ctx, {"kind": "swv", "shape": [n], "chunks": [cks], "window": [dep + 1], "axis": [0], "reducer": None, "dtype": "int", "dseed": k})
                        check_case(ctx, {"kind": "swv", "shape": [n], "chunks": [cks], "window": [dep + 1], "axis": [0], "reducer": "sum", "dtype": "int", "dseed": k})
                        tried += 2
        except Exception as e:  # noqa: BLE001
            ctx.notes["targeted_errors"] = ctx.notes.get("targeted_errors", 0) + 1
            ctx.notes["targeted_last_error"] = repr(e)[:200]
    ctx.notes["targeted_search"] = f"{tried} API-level cases built from the disagreeing planner/wiring inputs (all reducers / methods / boundaries, neighbouring windows and block counts)"


# =========================================================================== entry


def run(ctx, replay=None):
    import dask

    dask.config.set(scheduler="sync")
    ctx.rule = (
        "correspondence: exhaustive small domain (all chunkings of n ≤ 8 × all windows/sizes; block counts 1..40) + seeded random "
        "larger inputs; distinct = (command, model output prefix, size class). search: one case = one API call on concrete data "
        "compared with the NumPy/bottleneck definition; distinct = (kind, reducer/method/boundary, native-path?, #blocks>1, "
        "chunk<depth, window>block, outcome); edge streams: distinct = (stream, function, method, cell pattern relative to the "
        "blocks, data dtype, dtype=, rank, sliced?, outcome); sequences: one case = 1..6 overlap-family calls made one after the "
        "other in this process, distinct = (entry point, variant, depth spelling, boundary spelling, outcome); axis bookkeeping of the direct "
        "map_overlap path: a fixed grid (rank 2-4 x dropped axis/axes x spelling incl. negatives, new-axis positions, both, chunks=, trim=False, "
        "second input of lower rank) + seeded random, distinct = (rank, drop spelling and sign, dropped position class, new position class, "
        "axes after the dropped one differ?, chunks=, trim, second input, outcome)"
    )
    ctx.exhaustive = True
    ctx.assumptions += [
        "NumPy kernels (ufunc.accumulate/reduce, np.cumsum, np.pad, sliding_window_view) and bottleneck are the reference, not verified",
        "ArrayOverlapLayer (dask.layers), rechunk and concatenate are exercised end to end only (C14/C12 own them)",
        "float results compared with rtol/atol 1e-9 (search only); integer and boolean results compared exactly",
        "unknown (nan) chunk sizes are outside the model (the guards refuse them); the Rust records layers (_frisky_layer) are not built here",
        "consumers that embed the advertised chunks above a native sliding-window rewrite (broadcast_to/repeat/setitem; DESIGN §8.8) are not generated",
        "history independence is searched, not proved: sequences of ≤ 6 overlap-family calls per case (plus everything the run made before) "
        "against a fresh interpreter; other process state (config, caches outside dask_array._overlap) is not varied",
        "masked-array results are compared on class, mask, unmasked values and dtype; the payload under the mask is unspecified",
    ]
    if replay is not None:
        case = replay.get("case", replay)
        if isinstance(case, dict) and "kind" in case:
            case = {k: v for k, v in case.items() if k not in ("got", "want", "error")}
            r = check_case(ctx, case)
            ctx.count(("replay", r))
            ctx.notes["replay_outcome"] = r
            return
    import time

    t0 = time.time()
    correspondence(ctx)
    ctx.notes["t.correspondence_s"] = round(time.time() - t0, 1)
    t0 = time.time()
    search(ctx)
    ctx.notes["t.search_s"] = round(time.time() - t0, 1)
    if ctx.disagreements and not ctx.failures:
        # (when the search already holds concrete failing inputs the verdict is decided)
        t0 = time.time()
        targeted(ctx)
        ctx.notes["t.targeted_s"] = round(time.time() - t0, 1)
