"""C27 — transfer estimates are well-formed.

Correspondence: Lean models `movedNum` / `stageTransfer` (Model/Rechunk.lean) vs
dask_array._expr.moved_fraction / dask_array._rechunk._rechunk_stage_transfer on the same inputs.
Search (oracle independent of the model):
  (a) layout pairs: 0 <= moved_fraction <= 1, == 0 for pure splits and identical layouts;
      stage estimate 0 <= min <= max, (0,0) for identical layouts;
  (b) every node of raw / simplified / lowered / fused / materialized expression trees of seeded
      generated programs: transfer_bytes is a pair with 0 <= min <= max, NaN only when a chunk size
      of the node or of one of its inputs is unknown; a Rechunk to identical chunks and every node
      whose own layer consists of Alias tasks only report (0, 0).
  (c) class coverage: the classes that DEFINE transfer_bytes are enumerated from the source tree on every run
      (harness/props_ext/c27_catalog.py) together with all ArrayExpr subclasses; a catalog stream (rechunk with
      method=tasks/p2p by kwarg and by config, thresholds, block-size limits, balance, over layouts large enough for
      multi-stage plans; shuffle/take/fancy indexing; overlap with every boundary kind; reshape; store; from_* sources;
      creation; random; linalg; routines) is walked in raw/simplified/lowered form (fused/materialized too when the
      tree is small) under several configurations; which classes were reached is reported in the evidence.
      The walker tolerates nodes whose `dependencies()` needs an optional package (P2PRechunk -> distributed):
      the node's own estimate is judged and the walk continues through its array operands.
  (d) dense metadata-only streams (harness/props_ext/c27_consistency.py): generic `da.blockwise` label patterns (every
      1-/2-operand index pattern over {i,j,k} x every output subset, sampled 3-operand patterns, 1-4 blocks per label:
      operands that are contracted AND broadcast at once, concatenate, new_axes, adjust_chunks, literals, repeated
      operands) and RAW rechunk nodes for every rechunk keyword and target form (balance, method, threshold,
      block_size_limit; tuples / ints / -1 / None / "auto" / dict / scalar; x.rechunk, da.rechunk, the Rechunk node with
      the symbolic target), each also on an input already at the settled layout (same-chunks fixed point).
      Internal consistency: a Rechunk / TasksRechunk node's estimate equals that of the node built directly from
      (input chunks -> node.chunks) with the same planner keywords.
  (e) index multisets and operand multiplicities (harness/props_ext/c27_multiset.py): every Shuffle node met by any
      stream in any phase is compared with a brute-force count over (input chunks, output chunks, indexer) -- min = rows
      of each output chunk outside its largest source contribution (repeats included), max = touched source blocks whole
      + pieces of multi-source chunks, as the implementation's comments define them -- and with the same sums read off
      the node's real task layer; single-source output chunks move 0 under min; the estimate is invariant under
      permutation of rows within an output chunk.  A stream of take / x[list] / x[ndarray] / vindex / da.shuffle /
      x.shuffle programs with repeated, all-equal, unsorted, every-block-once, single-block, interleaved, boundary,
      negative, empty index lists over ragged layouts (single-row and zero-length blocks), rank 1-3, every axis; and of
      concatenate / stack of the same array k times, broadcast_to, tile, repeat, block (Stack / Concatenate: max <=
      bytes of the input blocks the layer references).
Targeted: disagreeing helper inputs are lifted to `da.from_array(...).rechunk(...)` nodes.
"""
from __future__ import annotations

import itertools
import math
import numbers
import warnings

import numpy as np

from harness import gen
from harness.core import err_name, f_list, f_ll

REFUSALS = (ValueError, NotImplementedError)
RTOL = 1e-9


# ------------------------------------------------------------------ canonicalisers

def canon_moved(result, src, dst):
    """Canonical `ok <num> <total>` for moved_fraction's float.

    The implementation returns moved/total where `moved` is an integer-valued float and
    `total` an int, both exact below 2**53 (we keep totals < 2**40).  IEEE division is
    deterministic, so the model's (num, total) corresponds to the float EXACTLY iff
    num/total == result (Python int/int true division is correctly rounded, like
    float/float of the same exactly-representable operands).  We recover the numerator as
    round(result*total) (relative error 2**-53, so the nearest integer is unambiguous for
    total < 2**52) and then verify it with the exact equality; if that verification fails the
    float is reported verbatim, which shows up as a disagreement (never silently accepted).
    """
    total = sum(src)
    if isinstance(result, float) and math.isnan(result):
        return "ok nan"
    if total == 0:
        return f"ok 0 0" if result == 0 else f"ok float:{result!r}"
    num = round(result * total)
    if num / total == result:
        return f"ok {num} {total}"
    return f"ok float:{result!r}"


def canon_stage(res):
    lo, hi = res
    if any(isinstance(v, float) and math.isnan(v) for v in (lo, hi)):
        return "ok nan nan"
    # integer-valued floats (products of ints, exact below 2**53)
    if float(lo).is_integer() and float(hi).is_integer():
        return f"ok {int(lo)} {int(hi)}"
    return f"ok float:{lo!r},{hi!r}"


def impl_call(fn, fmt):
    try:
        return fmt(fn())
    except (IndexError, ValueError, TypeError, ZeroDivisionError, AssertionError, NotImplementedError) as e:
        return err_name(e)


# ------------------------------------------------------------------ layouts

def layouts_exhaustive(nmax, zmax):
    """All layouts (ordered compositions) of n <= nmax; with zero-length blocks for n <= zmax (<= 4 parts)."""
    out = {}
    for n in range(0, nmax + 1):
        ls = list(gen.compositions(n))
        if n <= zmax:
            ls += [c for c in gen.compositions(n, zeros=True, maxparts=4) if 0 in c]
        out[n] = list(dict.fromkeys(ls))
    return out


def groupings(rng, dst, k=None):
    """A random grouping of dst into consecutive runs (possibly empty when zeros are allowed)."""
    gs = []
    i = 0
    while i < len(dst):
        j = rng.randint(i + 1, len(dst))
        gs.append(dst[i:j])
        i = j
    return gs


def all_groupings(dst):
    n = len(dst)
    if n == 0:
        yield []
        return
    for mask in range(1 << (n - 1)):
        gs, cur = [], [dst[0]]
        for i in range(n - 1):
            if mask >> i & 1:
                gs.append(tuple(cur))
                cur = [dst[i + 1]]
            else:
                cur.append(dst[i + 1])
        gs.append(tuple(cur))
        yield gs


# ------------------------------------------------------------------ property (a): layout pairs

def check_moved(ctx, MF, src, dst, kind):
    try:
        r = MF(tuple(src), tuple(dst))
    except Exception as e:  # the helper has no documented refusal on integer layouts
        ctx.fail("moved_fraction:raises", {"fn": "moved_fraction", "src": list(src), "dst": list(dst), "error": repr(e)},
                 "moved_fraction raises on a pair of layouts")
        return None
    bad = None
    if not isinstance(r, numbers.Real) or math.isnan(r):
        bad = ("moved_fraction:not-a-number", "moved_fraction does not return a number")
    elif r < -1e-12 or r > 1 + 1e-12:
        bad = ("moved_fraction:range", "moved_fraction outside [0, 1]")
    elif kind == "same" and abs(r) > 1e-12:
        bad = ("moved_fraction:identical-nonzero", "identical layouts report a non-zero moved fraction")
    elif kind == "split" and abs(r) > 1e-12:
        bad = ("moved_fraction:split-nonzero", "a pure split reports a non-zero moved fraction")
    if bad:
        ctx.fail(bad[0], {"fn": "moved_fraction", "src": list(src), "dst": list(dst), "kind": kind, "got": r}, bad[1])
    ctx.count(("mf", kind, r == 0, r == 1, 0 in src or 0 in dst, min(len(src), 4), min(len(dst), 4)))
    return r


def wellformed_pair(lo, hi):
    """None if (lo, hi) is a well-formed non-NaN estimate, else a short reason."""
    if not (isinstance(lo, numbers.Real) and isinstance(hi, numbers.Real)):
        return "not-numbers"
    lo, hi = float(lo), float(hi)
    if math.isnan(lo) or math.isnan(hi):
        return "nan"
    if math.isinf(lo) or math.isinf(hi):
        return "infinite"
    scale = max(1.0, abs(hi), abs(lo))
    if lo < -RTOL * scale or hi < -RTOL * scale:
        return "negative"
    if lo > hi + RTOL * scale:
        return "min>max"
    return None


def check_stage(ctx, ST, old, new, itemsize, kind):
    try:
        lo, hi = ST(old, new, itemsize)
    except Exception as e:
        ctx.fail("stage_transfer:raises", {"fn": "_rechunk_stage_transfer", "old": old, "new": new, "itemsize": itemsize, "error": repr(e)},
                 "_rechunk_stage_transfer raises on layouts of the same axes")
        return
    why = wellformed_pair(lo, hi)
    if why is None and kind == "same" and (abs(lo) > 0 or abs(hi) > 0):
        why = "identical-nonzero"
    if why:
        ctx.fail(f"stage_transfer:{why}", {"fn": "_rechunk_stage_transfer", "old": old, "new": new, "itemsize": itemsize, "got": [lo, hi]},
                 f"rechunk stage estimate is not well-formed ({why})")
    ctx.count(("st", kind, len(old), lo == 0, lo == hi, any(0 in c for c in old + new)))


def search_layouts(ctx, MF, ST, LAY):
    rng = ctx.rng
    # exhaustive: all pairs of layouts of the same n
    for n, ls in LAY.items():
        for src in ls:
            check_moved(ctx, MF, src, src, "same")
            check_stage(ctx, ST, (src,), (src,), 8, "same")
            for dst in ls:
                check_moved(ctx, MF, src, dst, "pair")
                check_stage(ctx, ST, (src,), (dst,), 8, "pair")
        # every pure split: dst grouped into consecutive runs, src = run sums
        for dst in ls:
            if len(dst) <= 5:
                for gs in all_groupings(dst):
                    src = tuple(sum(g) for g in gs)
                    check_moved(ctx, MF, src, dst, "split")
    # 2-D / 3-D exhaustive small (factorisation over axes)
    small = [(s, d) for n in range(0, 4) for s in LAY[n] for d in LAY[n] if len(s) <= 3 and len(d) <= 3]
    for (s0, d0) in small:
        for (s1, d1) in rng.sample(small, ctx.scale(12, 60)):
            check_stage(ctx, ST, (s0, s1), (d0, d1), rng.choice([1, 4, 8]), "pair")
    # random large
    for _ in range(ctx.scale(3000, 40000)):
        n = rng.choice([1, 2, 7, 30, 100, 1000, 10**4, 10**6])
        src = gen.rand_chunks(rng, n, zeros=0.15, maxparts=14)
        dst = gen.rand_chunks(rng, n, zeros=0.15, maxparts=14)
        check_moved(ctx, MF, src, dst, "pair")
        gs = groupings(rng, dst)
        if rng.random() < 0.2:
            gs.insert(rng.randint(0, len(gs)), ())  # an empty src block
        check_moved(ctx, MF, tuple(sum(g) for g in gs), dst, "split")
        check_moved(ctx, MF, dst, dst, "same")
    for _ in range(ctx.scale(2000, 30000)):
        rank = rng.randint(0, 3)
        old, new = [], []
        for _ax in range(rank):
            n = rng.choice([0, 1, 2, 5, 17, 100, 1000])
            old.append(gen.rand_chunks(rng, n, zeros=0.15, maxparts=10))
            new.append(gen.rand_chunks(rng, n, zeros=0.15, maxparts=10))
        it = rng.choice([1, 2, 4, 8, 16])
        check_stage(ctx, ST, tuple(old), tuple(new), it, "pair")
        check_stage(ctx, ST, tuple(old), tuple(old), it, "same")
    # unknown sizes: NaN in, NaN out for the stage helper; moved_fraction stays a number in [0, 1] or NaN
    nan = math.nan
    for old, new in [(((nan, nan),), ((nan, nan),)), (((2, 2), (nan,)), ((4,), (nan,))), (((nan, 3),), ((3, nan),))]:
        lo, hi = ST(old, new, 8)
        ctx.count(("st", "nan"))
        if not (math.isnan(lo) and math.isnan(hi)) and wellformed_pair(lo, hi) is not None:
            ctx.fail("stage_transfer:unknown-sizes", {"fn": "_rechunk_stage_transfer", "old": repr(old), "new": repr(new), "got": [lo, hi]},
                     "stage estimate with unknown sizes is neither NaN nor a well-formed pair")
    for src, dst in [((nan, nan), (nan, nan)), ((nan, 2), (2, nan)), ((1, 2), (nan,))]:
        r = MF(src, dst)
        ctx.count(("mf", "nan"))
        if not (math.isnan(r) or 0 <= r <= 1):
            ctx.fail("moved_fraction:unknown-sizes", {"fn": "moved_fraction", "src": repr(src), "dst": repr(dst), "got": r},
                     "moved_fraction with unknown sizes is neither NaN nor in [0, 1]")


# ------------------------------------------------------------------ correspondence

def correspondence(ctx, MF, ST, LAY):
    rng = ctx.rng
    pairs = []
    for n, ls in LAY.items():
        for src in ls:
            for dst in ls:
                pairs.append((f"rc.moved_num {f_list(src)} {f_list(dst)}", impl_call(lambda: MF(src, dst), lambda r: canon_moved(r, src, dst))))
    # unequal totals: documented early return 0.0
    for _ in range(ctx.scale(200, 2000)):
        src = gen.rand_chunks(rng, rng.randint(1, 30), zeros=0.1, maxparts=8)
        dst = gen.rand_chunks(rng, rng.randint(1, 30), zeros=0.1, maxparts=8)
        pairs.append((f"rc.moved_num {f_list(src)} {f_list(dst)}", impl_call(lambda: MF(src, dst), lambda r: canon_moved(r, src, dst))))
    for _ in range(ctx.scale(4000, 60000)):
        n = rng.choice([1, 2, 7, 30, 100, 1000, 10**4, 10**6, 10**9])
        src = gen.rand_chunks(rng, n, zeros=0.15, maxparts=14)
        dst = gen.rand_chunks(rng, n, zeros=0.15, maxparts=14)
        pairs.append((f"rc.moved_num {f_list(src)} {f_list(dst)}", impl_call(lambda: MF(src, dst), lambda r: canon_moved(r, src, dst))))
    ctx.correspond("moved_fraction", pairs, branch_key=lambda req, model: (model.split()[1:2] == ["0"], len(req) // 12))

    pairs = []
    for n, ls in LAY.items():
        for old in ls:
            for new in ls:
                pairs.append((f"rc.stage_transfer {f_ll([old])} {f_ll([new])} 8", impl_call(lambda: ST((old,), (new,), 8), canon_stage)))
    small = [(s, d) for n in range(0, 4) for s in LAY[n] for d in LAY[n] if len(s) <= 3 and len(d) <= 3]
    for (s0, d0) in small:
        for (s1, d1) in rng.sample(small, ctx.scale(6, 40)):
            it = rng.choice([1, 4, 8])
            pairs.append((f"rc.stage_transfer {f_ll([s0, s1])} {f_ll([d0, d1])} {it}", impl_call(lambda: ST((s0, s1), (d0, d1), it), canon_stage)))
    for _ in range(ctx.scale(3000, 40000)):
        rank = rng.randint(1, 3)
        old, new = [], []
        for _ax in range(rank):
            n = rng.choice([0, 1, 2, 5, 17, 100, 1000, 10**4])
            old.append(gen.rand_chunks(rng, n, zeros=0.15, maxparts=10))
            new.append(gen.rand_chunks(rng, n, zeros=0.15, maxparts=10))
        it = rng.choice([1, 2, 4, 8, 16])
        o, nw = tuple(old), tuple(new)
        pairs.append((f"rc.stage_transfer {f_ll(o)} {f_ll(nw)} {it}", impl_call(lambda: ST(o, nw, it), canon_stage)))
    ctx.correspond("_rechunk_stage_transfer", pairs, branch_key=lambda req, model: (model.split()[1:2] == ["0"], req.count(";"), len(req) // 16))


# ------------------------------------------------------------------ property (b): expression trees

def _enc_index(idx):
    out = []
    for i in idx:
        if i is None:
            out.append(["n"])
        elif isinstance(i, slice):
            out.append(["s", i.start, i.stop, i.step])
        else:
            out.append(["i", int(i)])
    return out


def _dec_index(enc):
    out = []
    for e in enc:
        if e[0] == "n":
            out.append(None)
        elif e[0] == "s":
            out.append(slice(e[1], e[2], e[3]))
        else:
            out.append(int(e[1]))
    return tuple(out)


def _tt(x):
    return tuple(tuple(int(v) for v in c) for c in x)


def apply_step(da, a, step):
    """Apply one recorded step to array `a` (pure function of the step data)."""
    op = step[0]
    if op == "scalar":
        return a * 2 + 1
    if op == "selfadd":
        return a + a
    if op == "astype":
        return a.astype("f8")
    if op == "add_src":
        shape = tuple(sum(c) for c in step[1])
        b = da.from_array(np.arange(int(np.prod(shape)), dtype="i8").reshape(shape) + 1, chunks=_tt(step[1]))
        return a + b
    if op == "add_vec":
        n = sum(step[1])
        return a + da.from_array(np.arange(n, dtype="i8"), chunks=(tuple(step[1]),))
    if op == "transpose":
        return a.transpose(tuple(step[1]))
    if op == "getitem":
        return a[_dec_index(step[1])]
    if op == "rechunk":
        kw = step[2] if len(step) > 2 and isinstance(step[2], dict) else {}
        return a.rechunk(_tt(step[1]), **kw)
    if op == "config":
        return a
    if op in ("rechunk_spec", "rechunk_raw"):
        from harness.props_ext import c27_consistency as CONS

        return CONS.apply_rechunk_step(da, a, step)
    if op in ("ms_index", "ms_mult"):
        from harness.props_ext import c27_multiset as MS

        return MS.apply_ms_step(da, a, step)
    if op == "reduce":
        _, name, axis, split_every, keepdims = step
        axis = tuple(axis) if isinstance(axis, list) else axis
        return getattr(da, name)(a, axis=axis, split_every=split_every, keepdims=keepdims)
    if op == "concat":
        return da.concatenate([a, a + 1], axis=step[1])
    if op == "stack":
        return da.stack([a, a + 1], axis=step[1])
    if op == "cumsum":
        return da.cumsum(a, axis=step[1], method=step[2])
    if op == "sliding":
        return da.sliding_window_view(a, step[1], axis=step[2]).sum(-1)
    if op == "mask":
        with warnings.catch_warnings():
            warnings.simplefilter("ignore")
            return a[a > step[1]]
    if op == "map_blocks":
        return a.map_blocks(_double)
    if op == "map_overlap":
        return a.map_overlap(_ident, depth=step[1], boundary="none")
    if op == "take":
        return da.take(a, list(step[2]), axis=step[1])
    if op == "reshape":
        return a.reshape(tuple(step[1]))
    if op == "dotvec":
        n = sum(step[1])
        v = da.from_array(np.arange(n, dtype="i8"), chunks=(tuple(step[1]),))
        return da.tensordot(a, v, axes=([a.ndim - 1], [0]))
    if op == "broadcast_to":
        return da.broadcast_to(a, (step[1],) + tuple(a.shape))
    raise KeyError(op)


def _double(b):
    return b * 2


def _ident(b):
    return b


def prog_config(prog):
    """The configuration a program is built AND inspected under (a ["config", {...}] step anywhere in it)."""
    cfg = {}
    for step in prog:
        if step and step[0] == "config":
            cfg.update(step[1])
    return cfg


def build(da, prog):
    """Pure function of the program (call it inside `dask.config.set(prog_config(prog))`)."""
    src = prog[0]
    if src[0] == "catalog":
        from harness.props_ext import c27_catalog as CAT

        with warnings.catch_warnings():
            warnings.simplefilter("ignore")
            a = CAT.build_catalog(da, src[1], src[2])[src[3]]
    elif src[0] == "blockwise":
        from harness.props_ext import c27_consistency as CONS

        with warnings.catch_warnings():
            warnings.simplefilter("ignore")
            a = CONS.build_blockwise(da, src[1])
    elif src[0] == "zeros":
        a = da.zeros(tuple(src[1]), chunks=_tt(src[2]), dtype=src[3] if len(src) > 3 else "i8")
    else:
        shape = tuple(sum(c) for c in src[1])
        a = da.from_array(np.arange(int(np.prod(shape)), dtype=src[2]).reshape(shape), chunks=_tt(src[1]))
    for step in prog[1:]:
        a = apply_step(da, a, step)
    return a


def run_program(ctx, da, prog, seen, y=None):
    """Build (unless given) and check a program under its own configuration."""
    import dask

    with dask.config.set(prog_config(prog)), warnings.catch_warnings():
        warnings.simplefilter("ignore")  # PerformanceWarning / balance warnings of deliberately awkward layouts
        if y is None:
            y = build(da, prog)
        t_ = ctx.elapsed()
        check_program(ctx, da, prog, y, seen)
        if ctx.elapsed() - t_ > 2.0:
            ctx.extra.setdefault("slow_programs", [])
            if len(ctx.extra["slow_programs"]) < 5:
                ctx.extra["slow_programs"].append({"seconds": round(ctx.elapsed() - t_, 1), "program": prog if len(repr(prog)) < 600 else repr(prog)[:600]})


def gen_step(rng, a):
    """Propose one step for array `a` (metadata only)."""
    nd = a.ndim
    known = not any(math.isnan(s) for s in a.shape)
    shape = a.shape
    ops = ["scalar", "selfadd", "astype", "map_blocks"]
    if nd >= 1:
        ops += ["mask", "reduce", "reduce", "concat", "stack", "cumsum", "transpose"]
    if known and nd >= 1:
        ops += ["add_src", "add_vec", "getitem", "getitem", "rechunk", "rechunk", "sliding", "map_overlap", "take", "reshape", "dotvec", "broadcast_to"]
    op = rng.choice(ops)
    if op in ("mask", "reshape") and nd >= 2 and known and 0 in shape:
        # generator exclusion (not a C27 matter): reshape / boolean-mask flattening of a zero-size n-D array with
        # several blocks raises TypeError in reshape_rechunk at construction, e.g.
        # da.from_array(np.zeros((3, 0)), chunks=((1, 1, 1), (0,))).reshape((0,))
        op = "scalar"
    if op in ("scalar", "selfadd", "astype", "map_blocks"):
        return [op]
    if op == "mask":
        return ["mask", rng.randint(0, 10)]
    if op == "transpose":
        perm = list(range(nd))
        rng.shuffle(perm)
        return ["transpose", perm]
    if op == "reduce":
        name = rng.choice(["sum", "max", "mean", "min"])
        if rng.random() < 0.3:
            axis = None
        else:
            k = rng.randint(1, nd)
            axis = sorted(rng.sample(range(nd), k))
            axis = axis[0] if len(axis) == 1 else axis
        return ["reduce", name, axis, rng.choice([None, 2, 2, 3, 4]), rng.random() < 0.3]
    if op in ("concat",):
        return ["concat", rng.randrange(nd)]
    if op == "stack":
        return ["stack", rng.randint(0, nd)]
    if op == "cumsum":
        return ["cumsum", rng.randrange(nd), rng.choice(["sequential", "sequential", "blelloch"])]
    if op == "add_src":
        return ["add_src", [list(gen.rand_chunks(rng, int(s), maxparts=6)) for s in shape]]
    if op == "add_vec":
        return ["add_vec", list(gen.rand_chunks(rng, int(shape[-1]), maxparts=6))]
    if op == "rechunk":
        step = ["rechunk", [list(gen.rand_chunks(rng, int(s), maxparts=8)) for s in shape]]
        if rng.random() < 0.3:
            kw = {"method": rng.choice(["p2p", "p2p", "tasks"])}
            if rng.random() < 0.3:
                kw["balance"] = True
            if rng.random() < 0.3:
                kw["threshold"] = rng.choice([1, 2, 1000])
            step.append(kw)
        return step
    if op == "getitem":
        idx = []
        for s in shape:
            s = int(s)
            r = rng.random()
            if r < 0.2 and s > 0:
                idx.append(rng.randint(-s, s - 1))
            elif r < 0.35:
                idx.append(slice(None))
            else:
                idx.append(gen.rand_slice(rng, s, steps=(None, 1, 1, 2, 3, -1, -2)))
        if rng.random() < 0.2:
            idx.insert(rng.randint(0, len(idx)), None)
        return ["getitem", _enc_index(idx)]
    if op == "sliding":
        ax = rng.randrange(nd)
        if int(shape[ax]) < 2:
            return ["scalar"]
        return ["sliding", rng.randint(1, min(int(shape[ax]), 5)), ax]
    if op == "map_overlap":
        return ["map_overlap", rng.randint(1, 2)]
    if op == "take":
        ax = rng.randrange(nd)
        s = int(shape[ax])
        if s == 0:
            return ["scalar"]
        return ["take", ax, [rng.randint(-s, s - 1) for _ in range(rng.randint(1, 2 * s))]]
    if op == "reshape":
        size = int(np.prod([int(s) for s in shape]))
        cands = [[size]] + [[d, size // d] for d in range(1, size + 1) if size % d == 0][:6]
        return ["reshape", rng.choice(cands)]
    if op == "dotvec":
        return ["dotvec", list(gen.rand_chunks(rng, int(shape[-1]), maxparts=5))]
    if op == "broadcast_to":
        return ["broadcast_to", rng.randint(1, 3)]
    return ["scalar"]


def gen_program(ctx, da, cfg=None):
    """Seeded program: a source plus up to 5 steps; a step refused at CONSTRUCTION
    (ValueError / NotImplementedError) is dropped and counted.  With `cfg`, built under that configuration
    (recorded as a trailing ["config", cfg] step)."""
    if cfg:
        import dask

        with dask.config.set(cfg):
            prog, a = gen_program(ctx, da)
        return prog + [["config", cfg]], a
    rng = ctx.rng
    shape = gen.rand_shape(rng, maxrank=3, maxdim=9, allow_zero=True)
    chunks = [list(gen.rand_chunks(rng, s, zeros=0.05, maxparts=6)) for s in shape]
    prog = [["from_array", chunks, "i8"]]
    a = build(da, prog)
    for _ in range(rng.randint(1, 5)):
        step = gen_step(rng, a)
        try:
            b = apply_step(da, a, step)
            b.chunks, b.dtype  # metadata only
        except REFUSALS:
            ctx.notes["construction_refusals"] = ctx.notes.get("construction_refusals", 0) + 1
            continue
        except Exception as e:  # noqa: BLE001 - a step that cannot be constructed at all is C01's business, not a transfer estimate
            k = "construction_errors." + type(e).__name__
            ctx.notes[k] = ctx.notes.get(k, 0) + 1
            continue
        if b.ndim > 4 or (b.size == b.size and b.size > 5000):
            continue
        prog.append(step)
        a = b
    return prog, a


def _has_nan(chunks):
    return any(isinstance(c, float) and math.isnan(c) for dim in chunks for c in dim)


REACHED = {}  # node class name -> set of phases (per process; reported in the evidence)
DEPS_IMPORT_ERRORS = {}  # class name -> count of dependencies() calls that needed a missing optional package
PROBE_FAILS = {}  # direct same-chunks probe: class name -> programs on which it reported a non-zero estimate
DENSE_FAILS = {}  # dense streams (check_raw): signature -> failures so far (first 4 recorded)
HEAVY_TASKS = 3000 # above this many tasks in some node's layer, graph-building phases / layer oracles are skipped


def safe_deps(node, ArrayExpr):
    """node.dependencies(); when that needs an optional package that is not installed (P2PRechunk imports
    `distributed` to compute its pre-chunked input) fall back to the node's array operands, so that the node's own
    estimate can still be judged and the walk continues below it."""
    try:
        return list(node.dependencies())
    except ImportError:
        DEPS_IMPORT_ERRORS[type(node).__name__] = DEPS_IMPORT_ERRORS.get(type(node).__name__, 0) + 1
        out = []
        for op in node.operands:
            if isinstance(op, ArrayExpr):
                out.append(op)
            elif isinstance(op, (list, tuple)):
                out.extend(o for o in op if isinstance(o, ArrayExpr))
        return out


def walk_tolerant(e, ArrayExpr):
    """Every distinct node of the tree (like Expr.walk, but through safe_deps)."""
    stack, names = [e], set()
    while stack:
        node = stack.pop()
        name = getattr(node, "_name", None)
        if name is None or (type(node), name) in names:
            continue
        names.add((type(node), name))
        yield node
        try:
            stack.extend(d for d in safe_deps(node, ArrayExpr) if hasattr(d, "_name"))
        except Exception:  # noqa: BLE001 - an ill-formed node: judged (and noted) by check_node
            continue


def node_unknown(node, ArrayExpr):
    """Some chunk size of the node or of one of its direct array inputs is unknown."""
    if _has_nan(node.chunks):
        return True
    for dep in safe_deps(node, ArrayExpr):
        if isinstance(dep, ArrayExpr) and _has_nan(dep.chunks):
            return True
    return False


def _nblocks(node):
    n = 1
    for k in node.numblocks:
        n *= k
    return n


def check_node(ctx, node, prog, phase, ArrayExpr, Alias, seen, light=False):
    cls = type(node).__name__
    # (class, name): RootAlias deliberately carries the RAW root's name, a different node with its own estimate
    if (cls, node._name) in seen:
        return
    seen.add((cls, node._name))
    case = {"program": prog, "phase": phase, "node_class": cls}
    try:
        # the node's own metadata must exist before its estimate can be judged: a rewritten tree whose
        # `chunks` raises (layout-drift rewrites, see C02/C03/C08) is ill-formed for reasons that are not C27's
        unknown = node_unknown(node, ArrayExpr)
        node.numblocks, node.dtype
        for dep in safe_deps(node, ArrayExpr):
            if isinstance(dep, ArrayExpr):
                dep.numblocks, dep.nbytes
    except Exception as e:
        k = f"illformed_nodes_skipped.{phase}.{type(e).__name__}"
        ctx.notes[k] = ctx.notes.get(k, 0) + 1
        ctx.extra.setdefault("illformed_node_examples", [])
        if len(ctx.extra["illformed_node_examples"]) < 3:
            ctx.extra["illformed_node_examples"].append({"program": prog, "phase": phase, "node_class": cls, "error": repr(e)[:200]})
        return
    try:
        tb = node.transfer_bytes
    except Exception as e:
        sig = f"node:raises:{cls}:{type(e).__name__}"
        if cls == "Blockwise" and isinstance(e, TypeError) and "unhashable" in str(e) and any(isinstance(i, list) for i in node.args[1::2]):
            # narrow, stable class: Blockwise built with *list* index operands (tensordot, ...) ->
            # `(arg._name, ind) in seen` hashes a list
            sig = "node:raises:Blockwise:unhashable-list-index"
        ctx.fail(sig, dict(case, error=repr(e)), "transfer_bytes raises on a node of a valid expression tree")
        ctx.count(("node", phase, cls, "raises"))
        return
    if not (isinstance(tb, tuple) and len(tb) == 2):
        ctx.fail(f"node:not-a-pair:{cls}", dict(case, got=repr(tb)), "transfer_bytes is not a (min, max) pair")
        return
    lo, hi = tb
    REACHED.setdefault(cls, set()).add(phase)
    case["chunks"] = repr(node.chunks) if _nblocks(node) <= 64 else f"<{node.numblocks} blocks>"
    case["got"] = [repr(lo), repr(hi)]
    why = wellformed_pair(lo, hi)
    if why == "nan":
        # a NaN component is allowed only with unknown sizes; the other component must still be sane
        if not unknown:
            ctx.fail(f"node:nan-with-known-sizes:{cls}", case, "transfer_bytes is NaN although all chunk sizes of the node and its inputs are known")
        else:
            other = [float(v) for v in (lo, hi) if not math.isnan(float(v))]
            if any(v < 0 or math.isinf(v) for v in other):
                ctx.fail(f"node:negative:{cls}", case, "transfer_bytes has a negative/infinite component")
        ctx.count(("node", phase, cls, "nan"))
        return
    if why:
        ctx.fail(f"node:{why}:{cls}", case, f"transfer_bytes is not well-formed ({why})")
    if unknown:
        ctx.notes["nodes_unknown_sizes_finite_estimate"] = ctx.notes.get("nodes_unknown_sizes_finite_estimate", 0) + 1
    # alias oracle (independent of transfer_bytes): a node whose own layer consists of Alias tasks only
    # a rechunk (of any flavour) found in a tree whose target chunks equal its input's chunks moves nothing
    if "Rechunk" in cls and not unknown:
        try:
            same = tuple(node.chunks) == tuple(node.array.chunks)
        except Exception:  # noqa: BLE001
            same = False
        if same:
            ctx.count(("node-same-rechunk", cls, phase))
            if float(lo) != 0 or float(hi) != 0:
                ctx.fail(f"same-rechunk:nonzero:{cls}", case, "a rechunk node whose chunks equal its input's chunks reports a non-zero transfer estimate")
    # internal consistency: the estimate describes the layout change input chunks -> node.chunks (whatever the raw
    # target operand, balance, dict / "auto" / int specs said before they were settled)
    if cls in ("Rechunk", "TasksRechunk") and not unknown and node_graph_cost(node) <= HEAVY_TASKS:
        from harness.props_ext import c27_consistency as CONS

        CONS.rechunk_consistency(ctx, node, case, lo, hi)
    # index multisets: brute-force and task-layer oracles for every Shuffle node (harness/props_ext/c27_multiset.py)
    if cls == "Shuffle" and not unknown and why is None:
        from harness.props_ext import c27_multiset as MS

        MS.judge_shuffle(ctx, node, case, lo, hi)
    if cls in ("Stack", "Concatenate") and not unknown and why is None:
        from harness.props_ext import c27_multiset as MS

        MS.judge_fetch_bound(ctx, node, case, lo, hi, ArrayExpr)
    is_alias = False
    if not light and phase in ("lowered", "lowered-raw", "fused", "materialized") and cls != "FromArray" and node_graph_cost(node) <= HEAVY_TASKS:
        try:
            # pure alias routing: EVERY task of the layer is an Alias and every alias points outside the layer
            # (private helper tasks such as rechunk-split getitems or the flattened-mask getitems disqualify it)
            layer = node._layer()
            vals = list(layer.values())
            is_alias = bool(vals) and all(isinstance(v, Alias) and v.target not in layer for v in vals)
        except Exception:
            is_alias = False
    if is_alias and (float(lo) != 0 or float(hi) != 0):
        ctx.fail(f"node:alias-nonzero:{cls}", case, "a node whose layer is pure Alias routing reports a non-zero transfer estimate")
    ctx.count(("node", phase, cls, float(lo) == 0, float(lo) == float(hi), is_alias, unknown))


def trees_of(ctx, y, ArrayExpr):
    """([(phase, expression)], light) for raw and optimized forms, the way _collection/_materialize obtain them.
    `light` (some node of the metadata-only forms is heavy): no fusion / materialization / layer oracles, which
    build task graphs."""
    from dask_array._materialize import _lower, _materialize

    out = [("raw", y.expr)]

    def attempt(phase, fn):
        try:
            e = fn()
        except Exception as ex:  # optimisation failures belong to C02/C08, not to C27
            k = f"optimize_raises.{phase}.{type(ex).__name__}"
            ctx.notes[k] = ctx.notes.get(k, 0) + 1
            return None
        out.append((phase, e))
        return e

    attempt("simplified", lambda: y.expr.simplify())
    attempt("lowered-raw", lambda: _lower(y.expr, optimize_graph=False))
    low = attempt("lowered", lambda: y.expr.simplify().lower_completely())
    attempt("optimized", lambda: y.expr.optimize(fuse=False))
    light = any(is_heavy(e, ArrayExpr) for _ph, e in out)
    if not light:
        if low is not None:
            attempt("fused", lambda: low.fuse())
        attempt("materialized", lambda: _materialize(y.expr))
    return out, light


def node_graph_cost(node):
    """A cheap upper estimate of the number of tasks in the node's own layer: its blocks; for rechunk-like nodes
    the number of (old block, new block) crossings, prod over axes of (old blocks + new blocks)."""
    n = _nblocks(node)
    if "Rechunk" in type(node).__name__:
        try:
            c = 1
            for o, nw in zip(node.array.chunks, node.chunks):
                c *= len(o) + len(nw)
            n = max(n, c)
        except Exception:  # noqa: BLE001
            pass
    return n


def is_heavy(e, ArrayExpr):
    """Some node of the tree would have a layer of more than HEAVY_TASKS tasks."""
    try:
        return any(isinstance(n, ArrayExpr) and node_graph_cost(n) > HEAVY_TASKS for n in walk_tolerant(e, ArrayExpr))
    except Exception:  # noqa: BLE001
        return True


def check_raw(ctx, prog, y, seen):
    """Metadata-only check of the RAW tree of `y` (no optimisation, no graph): used by the dense streams."""
    from dask._task_spec import Alias
    from dask_array._expr import ArrayExpr

    n0 = len(ctx.failures)
    for node in walk_tolerant(y.expr, ArrayExpr):
        if isinstance(node, ArrayExpr):
            check_node(ctx, node, prog, "raw", ArrayExpr, Alias, seen, True)
    # a class-wide defect fails on hundreds of the dense cases: the first few per signature are recorded, the rest counted
    for f in ctx.failures[n0:]:
        DENSE_FAILS[f["sig"]] = DENSE_FAILS.get(f["sig"], 0) + 1
        if DENSE_FAILS[f["sig"]] > 4:
            ctx.failures.remove(f)
            ctx.notes[f"dense_streams.further_failures.{f['sig']}"] = DENSE_FAILS[f["sig"]] - 4


def check_program(ctx, da, prog, y, seen):
    from dask._task_spec import Alias
    from dask_array._expr import ArrayExpr
    from dask_array._rechunk import P2PRechunk, Rechunk, TasksRechunk

    trees, light = trees_of(ctx, y, ArrayExpr)
    if light:
        ctx.notes["programs_metadata_phases_only"] = ctx.notes.get("programs_metadata_phases_only", 0) + 1
    for phase, e in trees:
        for node in walk_tolerant(e, ArrayExpr):
            if isinstance(node, ArrayExpr):
                check_node(ctx, node, prog, phase, ArrayExpr, Alias, seen, light or phase in ("raw", "simplified"))
    # the collection reports its root's estimate
    try:
        same = tuple(map(repr, y.transfer_bytes)) == tuple(map(repr, y.expr.transfer_bytes))
    except Exception:
        same = True  # already reported by check_node
    if not same:
        ctx.fail("array:transfer_bytes-differs-from-root", {"program": prog}, "Array.transfer_bytes differs from its root expression's")
    # a rechunk to the same chunks moves nothing
    if not _has_nan(y.chunks):
        for name, mk in (("Rechunk", lambda: Rechunk(y.expr, y.chunks)), ("TasksRechunk", lambda: TasksRechunk(y.expr, y.chunks, None, None)),
                         ("Rechunk-p2p", lambda: Rechunk(y.expr, y.chunks, None, None, None, "p2p")), ("P2PRechunk", lambda: P2PRechunk(y.expr, y.chunks))):
            try:
                tb = tuple(mk().transfer_bytes)
            except Exception as ex:
                ctx.fail(f"same-rechunk:raises:{name}", {"program": prog, "probe": f"{name}(y.expr, y.chunks)", "error": repr(ex)},
                         "transfer_bytes of a rechunk to identical chunks raises")
                continue
            ctx.count(("same-rechunk", name, y.ndim, any(0 in c for c in y.chunks)))
            if not (tb[0] == 0 and tb[1] == 0):
                # the direct probe runs on every program: a class-wide defect is recorded for the first few programs only
                PROBE_FAILS[name] = PROBE_FAILS.get(name, 0) + 1
                if PROBE_FAILS[name] > 3:
                    ctx.notes[f"same-rechunk.nonzero.{name}.further_programs"] = PROBE_FAILS[name] - 3
                    continue
                ctx.fail(f"same-rechunk:nonzero:{name}", {"program": prog, "probe": f"{name}(y.expr, y.chunks)", "chunks": repr(y.chunks), "got": list(map(repr, tb))},
                         "a rechunk to identical chunks reports a non-zero transfer estimate")
        # pure-alias wrapper
        f = y.freeze_chunks()
        tb = tuple(f.expr.transfer_bytes)
        ctx.count(("alias-wrapper", type(f.expr).__name__))
        if type(f.expr).__name__ == "ChunksFreeze" and not (tb[0] == 0 and tb[1] == 0):
            ctx.fail("alias:ChunksFreeze-nonzero", {"program": prog, "probe": "y.freeze_chunks()", "got": list(map(repr, tb))}, "ChunksFreeze reports a non-zero estimate")


# programs of the classes found on the unchanged tree (dedicated probes: run on every seed so that the
# signature is reported deterministically -> KNOWN-FINDING line once listed, silent once fixed)
PROBES = [
    # balance=True keeps a rechunk to identical chunks alive through lowering; with method="p2p" (kwarg or config) the
    # lowered P2PRechunk (chunks == input chunks) reports max = input nbytes
    [["zeros", [8], [[4, 4]], "i8"], ["rechunk", [[4, 4]], {"balance": True, "method": "p2p"}]],
    [["zeros", [8, 8], [[4, 4], [4, 4]], "i8"], ["rechunk", [[4, 4], [4, 4]], {"balance": True}], ["config", {"array.rechunk.method": "p2p"}]],
    # Blockwise.transfer_bytes hashes the (list) index operand built by tensordot/dot/vdot: TypeError
    [["from_array", [[3]], "i8"], ["dotvec", [3]]],
    # BooleanIndexFlattened: layer is pure Alias routing but the default estimate reports max = input nbytes
    [["from_array", [[2, 2]], "i8"], ["mask", 1]],
    [["from_array", [[1, 1], [1, 1]], "i8"], ["mask", 1]],
]


def search_trees(ctx):
    import dask_array as da
    from harness.props_ext import c27_catalog as CAT

    seen = set()
    for prog in PROBES:
        run_program(ctx, da, prog, seen)
    nprog = ctx.scale(1500, 20000)
    budget = ctx.scale(22, 300)
    t0 = ctx.elapsed()
    done = 0
    under_cfg = {}
    for i in range(nprog):
        if ctx.elapsed() - t0 > budget:
            break
        # every 4th program is built, lowered and inspected under a non-default configuration (rechunks inserted by
        # lowering -- chunk unification, reshape, overlap -- then become P2PRechunk / multi-stage TasksRechunk nodes)
        cfg = CAT.rand_config(ctx.rng) if i % 4 == 3 else {}
        prog, y = gen_program(ctx, da, cfg)
        run_program(ctx, da, prog, seen, y)
        done += 1
        if cfg:
            k = ",".join(f"{a.split('.')[-1]}={b}" for a, b in sorted(cfg.items()))
            under_cfg[k] = under_cfg.get(k, 0) + 1
        if done % 50 == 1:
            ctx.sample({"program": prog, "root": type(y.expr).__name__, "transfer_bytes": list(map(repr, y.expr.transfer_bytes))})
    ctx.notes["programs"] = done
    ctx.notes["programs_under_config"] = under_cfg
    multistage_rechunk_stream(ctx, da, seen)
    catalog_stream(ctx, da, seen, CAT)
    import sys

    from harness.props_ext import c27_consistency as CONS

    me = sys.modules[__name__]
    t_ = ctx.elapsed()
    CONS.blockwise_stream(ctx, da, me, seen)
    ctx.notes["blockwise_stream_seconds"] = round(ctx.elapsed() - t_, 1)
    t_ = ctx.elapsed()
    CONS.rechunk_kw_stream(ctx, da, me, seen)
    ctx.notes["rechunk_kw_stream_seconds"] = round(ctx.elapsed() - t_, 1)
    from harness.props_ext import c27_multiset as MS

    MS.multiset_stream(ctx, da, me, seen)
    ctx.notes["distinct_nodes_checked"] = len(seen)
    coverage_report(ctx, CAT)


def multistage_rechunk_stream(ctx, da, seen):
    """Rechunk nodes whose plan has several stages (the estimate sums over plan_rechunk's stages):
    large fan-in merges/splits at the default configuration and moderate ones under small
    array.rechunk.degree-limit / threshold / chunk-size, with method None / tasks / p2p.  Well-formedness of every
    node of the raw and lowered trees; the number of planned stages is recorded."""
    import dask
    from dask_array._rechunk import plan_rechunk

    rng = ctx.rng
    cases = [((400,), ((1,) * 400,), ((400,),), {}, None), ((400,), ((400,),), ((1,) * 400,), {}, None),
             ((400,), ((1,) * 400,), ((400,),), {}, "p2p"), ((400,), ((400,),), ((1,) * 400,), {}, "p2p")]
    for _ in range(ctx.scale(60, 600)):
        nd = rng.choice([1, 1, 2])
        shape = tuple(rng.choice([16, 24, 32, 64]) for _ in range(nd))
        def lay(n, kind):
            if kind == "fine":
                c = rng.choice([1, 2])
                return (c,) * (n // c)
            if kind == "coarse":
                return (n,) if rng.random() < 0.5 else (n // 2, n - n // 2)
            return gen.rand_chunks(rng, n, maxparts=8)
        kinds = [rng.choice(["fine", "coarse", "rand"]) for _ in range(nd)]
        old = tuple(lay(n, k) for n, k in zip(shape, kinds))
        new = tuple(lay(n, {"fine": "coarse", "coarse": "fine", "rand": "rand"}[k]) for n, k in zip(shape, kinds))
        cfg = {"array.rechunk.degree-limit": rng.choice([2, 3, 4, 8, 100]), "array.rechunk.threshold": rng.choice([1, 4, 32]),
               "array.chunk-size": rng.choice(["64B", "1KiB", "128MiB"])}
        if rng.random() < 0.25:
            cfg["array.rechunk.method"] = rng.choice(["p2p", "tasks"])
        cases.append((shape, old, new, cfg, rng.choice([None, None, "tasks", "p2p"])))
    stages_seen = {}
    for shape, old, new, cfg, method in cases:
        prog = [["zeros", list(shape), [list(c) for c in old], "i8"], ["rechunk", [list(c) for c in new], {"method": method}], ["config", cfg]]
        try:
            with dask.config.set(cfg), warnings.catch_warnings():
                warnings.simplefilter("ignore")
                y = build(da, prog)
                nst = len(plan_rechunk(old, new, 8))
                stages_seen[nst] = stages_seen.get(nst, 0) + 1
                ctx.count(("multistage", min(nst, 4), len(shape), method))
                check_program(ctx, da, prog, y, seen)
        except Exception as e:  # noqa: BLE001
            ctx.fail("multistage-rechunk:raises:" + type(e).__name__, {"program": prog, "error": repr(e)[:200]}, "building/inspecting a multi-stage rechunk raises")
    ctx.notes["multistage_rechunk_stage_histogram"] = {str(k): v for k, v in sorted(stages_seen.items())}


def catalog_stream(ctx, da, seen, CAT):
    """Class-coverage stream (see harness/props_ext/c27_catalog.py): every family, every variant of a family in
    every run (stratified), seeded parameters, a seeded configuration; each output array of a builder is a program
    `[["catalog", family, params, out], ["config", cfg]]` checked like any other program."""
    import dask

    rng = ctx.rng
    reps = ctx.scale(1, 6)
    budget = ctx.scale(26, 200)
    t0 = ctx.elapsed()
    plan = []
    for fam, (g, _b, weight, variants) in CAT.CATALOG.items():
        for v in variants:
            plan += [(fam, v)] * max(1, round(weight * reps))
    # seeded order so that a budget cut does not always hit the same families
    rng.shuffle(plan)
    built = {}
    plan_stage_hist = {}
    for fam, v in plan:
        if ctx.elapsed() - t0 > budget:
            ctx.notes["catalog_budget_cut"] = ctx.notes.get("catalog_budget_cut", 0) + 1
            continue
        params = CAT.CATALOG[fam][0](rng, v)
        cfg = CAT.rand_config(rng)
        key = f"{fam}.{v}" if v is not None else fam
        try:
            with dask.config.set(cfg), warnings.catch_warnings():
                warnings.simplefilter("ignore")
                outs = CAT.build_catalog(da, fam, params)
                for o in outs:
                    o.chunks, o.dtype
        except ImportError as e:  # optional dependency (scipy, distributed, ...) needed at construction
            k = f"catalog_needs_optional_package.{key}.{getattr(e, 'name', None) or type(e).__name__}"
            ctx.notes[k] = ctx.notes.get(k, 0) + 1
            continue
        except REFUSALS:
            ctx.notes["catalog_construction_refusals"] = ctx.notes.get("catalog_construction_refusals", 0) + 1
            ctx.extra.setdefault("catalog_refusals", {})
            ctx.extra["catalog_refusals"][key] = ctx.extra["catalog_refusals"].get(key, 0) + 1
            continue
        except Exception as e:  # noqa: BLE001 - a catalog entry that cannot be constructed is not a transfer-estimate matter
            k = f"catalog_construction_errors.{key}.{type(e).__name__}"
            ctx.notes[k] = ctx.notes.get(k, 0) + 1
            ctx.extra.setdefault("catalog_construction_error_examples", {})
            ctx.extra["catalog_construction_error_examples"].setdefault(k, {"family": fam, "params": params, "config": cfg, "error": repr(e)[:200]})
            continue
        built[key] = built.get(key, 0) + 1
        for i, y in enumerate(outs):
            prog = [["catalog", fam, params, i], ["config", cfg]]
            ctx.count(("catalog", fam, v, bool(cfg.get("array.rechunk.method"))))
            if fam == "rechunk_big":
                try:
                    with dask.config.set(cfg):
                        nst = CAT.planned_stages(da, params)
                    plan_stage_hist[nst] = plan_stage_hist.get(nst, 0) + 1
                    ctx.count(("catalog-stages", min(nst, 5), params["method"], cfg.get("array.rechunk.method")))
                except Exception:  # noqa: BLE001
                    pass
            run_program(ctx, da, prog, seen, y)
    ctx.notes["catalog_cases_built"] = sum(built.values())
    ctx.extra["catalog_built_per_variant"] = built
    ctx.notes["catalog_rechunk_big_stage_histogram"] = {str(k): v for k, v in sorted(plan_stage_hist.items())}


def coverage_report(ctx, CAT):
    """Which classes were reached by the node search of this run (enumerated from the source on every run)."""
    definers = CAT.defining_classes()
    subs = CAT.arrayexpr_subclasses()
    names = {c.__name__ for c in subs}
    # classes that define transfer_bytes and are expression classes (the collection `Array` only forwards)
    expr_definers = sorted(n for n in definers if n in names or n == "ArrayExpr")
    reached_definers = {}
    for c in subs:
        if c.__name__ in REACHED:
            d = CAT.definer_of(c)
            reached_definers.setdefault(d, set()).add(c.__name__)
    missing = [d for d in expr_definers if d not in reached_definers]
    ctx.extra["transfer_bytes_definers"] = {
        "enumerated_from_source": definers,
        "expression_classes": expr_definers,
        "reached": {d: sorted(v) for d, v in sorted(reached_definers.items()) if d in expr_definers},
        "unreached": missing,
    }
    unreached_cls = sorted(names - set(REACHED))
    ctx.extra["arrayexpr_subclasses"] = {
        "total": len(names), "reached": len(names & set(REACHED)),
        "reached_phases": {k: sorted(v) for k, v in sorted(REACHED.items())},
        "unreached": unreached_cls,
    }
    ctx.notes["transfer_bytes_definers_reached"] = f"{len(expr_definers) - len(missing)}/{len(expr_definers)}"
    ctx.notes["arrayexpr_subclasses_reached"] = f"{len(names & set(REACHED))}/{len(names)}"
    if missing:
        ctx.notes["transfer_bytes_definers_UNREACHED"] = ",".join(missing)
    if DEPS_IMPORT_ERRORS:
        ctx.notes["dependencies_needing_optional_package_tolerated"] = dict(DEPS_IMPORT_ERRORS)
    for d in expr_definers:
        if d in reached_definers:
            ctx.count(("definer-reached", d))


# ------------------------------------------------------------------ targeted search

def p_list(tok):
    return () if tok == "_" else tuple(int(t) for t in tok.split(","))


def p_ll(tok):
    return () if tok == "-" else tuple(p_list(t) for t in tok.split(";"))


def lift_rechunk(ctx, old, new, what):
    """from_array(zeros(shape), chunks=old).rechunk(new): the Rechunk node and its lowered forms."""
    import dask_array as da
    from dask._task_spec import Alias
    from dask_array._expr import ArrayExpr

    shape = tuple(sum(c) for c in old)
    if tuple(sum(c) for c in new) != shape or int(np.prod(shape, dtype=object)) > 10**6 or any(len(c) == 0 for c in old + new):
        return 0
    try:
        x = da.from_array(np.zeros(shape, dtype="i8"), chunks=old)
        y = x.rechunk(new)
    except REFUSALS:
        return 0
    prog = [["from_array", [list(c) for c in old], "i8"], ["rechunk", [list(c) for c in new]]]
    check_program(ctx, da, prog, y, set())
    return 1


def targeted(ctx, MF, ST):
    tried = 0
    for d in ctx.disagreements[:60]:
        toks = d["request"].split()
        try:
            if toks[0] == "rc.moved_num":
                src, dst = p_list(toks[1]), p_list(toks[2])
                check_moved(ctx, MF, src, dst, "same" if src == dst else "pair")
                for gs in itertools.islice(all_groupings(dst), 64):
                    check_moved(ctx, MF, tuple(sum(g) for g in gs), dst, "split")
                for gs in itertools.islice(all_groupings(src), 64):
                    check_moved(ctx, MF, tuple(sum(g) for g in gs), src, "split")
                tried += lift_rechunk(ctx, (src,), (dst,), "moved_num")
            elif toks[0] == "rc.stage_transfer":
                old, new, it = p_ll(toks[1]), p_ll(toks[2]), int(toks[3])
                check_stage(ctx, ST, old, new, it, "same" if old == new else "pair")
                check_stage(ctx, ST, old, old, it, "same")
                check_stage(ctx, ST, new, new, it, "same")
                tried += lift_rechunk(ctx, old, new, "stage")
                tried += lift_rechunk(ctx, new, old, "stage")
        except Exception as e:
            ctx.fail("targeted:raises", {"request": d["request"], "error": repr(e)}, "API-level replay of a disagreeing helper input raises")
    ctx.notes["targeted_search"] = f"{tried} API-level from_array(...).rechunk(...) replays of disagreeing helper inputs (+ neighbours at helper level)"


# ------------------------------------------------------------------ entry

def run(ctx, replay=None):
    import dask_array as da
    from dask_array._expr import moved_fraction as MF
    from dask_array._rechunk import _rechunk_stage_transfer as ST

    ctx.rule = (
        "layouts: all pairs of layouts of n <= N (ordered compositions; zero-length blocks for n <= Z, <= 4 parts), every "
        "grouping of a layout as a pure split, small 2-D products, + seeded random large layouts; expression nodes: seeded "
        "programs (from_array + <= 5 ops) walked in raw/simplified/lowered/fused/materialized form, each distinct node "
        "(by class and expression name) checked once, every 4th program under a non-default configuration "
        "(array.rechunk.method/degree-limit/threshold/chunk-size); multi-stage rechunks with method None/tasks/p2p; a class-coverage "
        "catalog (harness/props_ext/c27_catalog.py: every variant of rechunk-big/chain/auto, shuffle, take, overlap, reshape, store, "
        "sources, random, linalg, routines in every run, seeded parameters and configuration, large layouts walked in the "
        "metadata-only phases); the classes defining transfer_bytes are enumerated from the source and the reached ones reported; "
        "dense raw-tree streams (harness/props_ext/c27_consistency.py): da.blockwise over every 1-/2-operand label pattern x output subset "
        "x block grid (1-4 blocks per label; sampled 3-operand patterns; contraction+broadcast on one operand, concatenate, new_axes, "
        "adjust_chunks, literal / repeated operands) and raw rechunk nodes for every keyword (balance, method, threshold, block_size_limit) "
        "and target form (tuples/ints/-1/None/auto/dict/scalar; method, function, positional, raw node), each repeated on an input already "
        "at the settled layout; every Rechunk/TasksRechunk node is compared with the node built directly from (input chunks -> node.chunks); "
        "index multisets (harness/props_ext/c27_multiset.py): every (multiset kind x construction route) pair and every fixed ragged layout x "
        "repeat kind in every run + seeded cases, each Shuffle node judged by a brute-force count and by its task layer; operand "
        "multiplicities (same array k times into concatenate/stack/block, broadcast_to, tile, repeat); "
        "a case class is (helper, kind, zero/equal flags, size class) or (phase, node class, min==0, min==max, alias, unknown-sizes) "
        "or (catalog family, variant, config-method)"
    )
    ctx.assumptions = [
        "integer layouts with totals < 2**40: the float sums/products in moved_fraction/_rechunk_stage_transfer are exact, so "
        "integer model and float implementation are compared exactly (the final division is reproduced bit-for-bit)",
        "per-class formulas other than Rechunk/moved_fraction (default, Blockwise, PartialReduce, slices, overlap, scans, "
        "sliding windows, Shuffle) are covered by the node search only, not by a Lean model",
        "NaN direction checked: NaN => an unknown chunk size on the node or a direct input (unknown sizes need not give NaN, "
        "e.g. BooleanIndex reads inputs of known size)",
        "nodes whose dependencies() needs an uninstalled optional package (P2PRechunk -> distributed) are judged on their own "
        "estimate and walked through their array operands; their fused/materialized forms cannot be built here (noted as "
        "optimize_raises.*.ModuleNotFoundError); scipy-only classes (LU*, Lstsq*, SolveTriangular) and non-tree helpers "
        "(ConcatenateArrayChunks inside SetItem's layer, FinalizeComputeArray) are not reached",
    ]
    if replay is not None:
        case = replay.get("case", replay)
        if "program" in case:
            run_program(ctx, da, case["program"], set())
        elif case.get("fn") == "moved_fraction":
            check_moved(ctx, MF, tuple(case["src"]), tuple(case["dst"]), case.get("kind", "pair"))
        elif case.get("fn") == "_rechunk_stage_transfer":
            old, new = _tt(case["old"]), _tt(case["new"])
            check_stage(ctx, ST, old, new, case["itemsize"], "same" if old == new else "pair")
        return

    NEX = ctx.scale(6, 8)
    ZEX = ctx.scale(4, 5)
    LAY = layouts_exhaustive(NEX, ZEX)
    ctx.exhaustive = True
    ctx.extra["exhaustive_domain"] = (
        f"moved_fraction/_rechunk_stage_transfer (1-D): all pairs of layouts of n<={NEX} (with zero-length blocks: n<={ZEX}, <=4 parts); "
        f"all groupings (pure splits) of every such layout with <=5 blocks; random beyond"
    )
    correspondence(ctx, MF, ST, LAY)
    search_layouts(ctx, MF, ST, LAY)
    search_trees(ctx)
    if ctx.disagreements:
        targeted(ctx, MF, ST)
