"""C06 — Equal names denote equal arrays.

Proof side   Props/C06.lean: name-determines-denotation over a free-term model of names, cache
             soundness, and the coverage premise DECIDED over Generated/NameTables.lean, which
             `translate` regenerates from the current source tree (harness/translate/names.py).
Tie + search (this file), all on the real code, in ONE process per run:
  (a) a name -> content REGISTRY: `Expr.__new__` is wrapped (from this process only) so that every
      ArrayExpr instance ever constructed -- user nodes, simplify/lower/fuse products, instances the
      singleton registry discards, unpickled nodes -- is recorded.  After every step the registry
      must be a FUNCTION name -> (shape, chunks, dtype); two differently-built nodes with one name
      are additionally computed (each from clean registries) and their values compared.  Histories
      mix fresh programs, rebuilt programs, programs extending others, near-duplicates differing
      in ONE parameter, random arrays, persisted graphs; graphs of different collections are merged
      and shared keys must hold equal block values.
  (b) perturbation of every operand of the nodes seen: content changed => name changed
      (validates the generated tables, in particular the `nonSemantic` exceptions).
  (c) when the Lean obligation over the table is broken: targeted search on exactly the uncovered
      (class, operand) pairs for two nodes with one name and different arrays.
The oracle is NumPy / direct recomputation; no model output is used in the search.
"""
from __future__ import annotations

import collections
import copy
import json
import math
import os
import re
import subprocess
import sys

import numpy as np

from harness import core, programs

KNOWN_EXC = (
    "Missing dependency",  # swv-layout-drift
    "adjust_chunks specified with",  # swv-layout-drift
    "Chunks do not add up to shape",  # take-through-broadcast
    "zero-size array to reduction",  # min/max on empty
    "from_graph cannot find output block",
)


def translate(ctx):
    from harness.translate import names

    rows, sites, changed = names.generate(write=True)
    ctx.extra["generated"] = {
        "table": "lean/DaskArrayModel/Generated/NameTables.lean",
        "classes": len(rows),
        "custom_tokenizers": sorted({r["name"] for r in rows if r["tokenizer_owner"] != "Expr"}),
        "unstable_sites": len(sites),
        "rewritten_this_run": bool(changed),
    }
    ctx._name_rows = rows


# ----------------------------------------------------------------------------- content

def canon_chunks(chunks):
    return tuple(tuple("nan" if (isinstance(c, float) and math.isnan(c)) else int(c) for c in dim) for dim in chunks)


def cheap(node):
    """(shape, chunks, dtype) of a node from ITS OWN operands, or None when not computable."""
    try:
        ch = canon_chunks(node.chunks)
        shape = tuple("nan" if "nan" in dim else sum(dim) for dim in ch)
        return (shape, ch, str(np.dtype(node.dtype)))
    except Exception:
        return None


def same_values(a, b):
    a = np.asarray(a)
    b = np.asarray(b)
    if a.shape != b.shape or a.dtype != b.dtype:
        return False
    if a.dtype.kind in "fc":
        return bool(np.array_equal(a, b, equal_nan=True))
    return bool(np.array_equal(a, b))


def show_operand(o):
    from dask._expr import Expr

    if isinstance(o, Expr):
        return f"<{type(o).__name__} {o._name}>"
    if isinstance(o, np.ndarray):
        return f"<ndarray shape={o.shape} dtype={o.dtype} head={o.ravel()[:8].tolist()}>"
    return repr(o)[:120]


def brief(v, limit=40):
    a = np.asarray(v)
    return {"shape": list(a.shape), "dtype": str(a.dtype), "head": a.ravel()[:limit].tolist()}


# ----------------------------------------------------------------------------- registry

class Entry:
    __slots__ = ("node", "skey", "cheap", "vals", "where")

    def __init__(self, node, skey, where):
        self.node = node
        self.skey = skey
        self.cheap = cheap(node)
        self.vals = None
        self.where = where


class Registry:
    PINS = ("RootAlias", "FromGraph")

    def __init__(self, ctx, value_budget):
        self.ctx = ctx
        self.pending = []
        self.last_raw = None
        self.by_name = {}
        self.value_budget = value_budget
        self.stats = collections.Counter()
        self.pair_classes = collections.Counter()
        self._orig = None

    # ---- hook
    def install(self):
        from dask._expr import Expr
        from dask_array._expr import ArrayExpr

        self._Expr = Expr
        self._orig = Expr.__dict__["__new__"]
        orig = Expr.__new__
        reg = self

        def patched(cls, *a, **k):
            inst = orig(cls, *a, **k)
            if isinstance(inst, ArrayExpr):
                reg.pending.append(inst)
                reg.last_raw = inst
            return inst

        Expr.__new__ = staticmethod(patched)

    def uninstall(self):
        if self._orig is not None:
            self._Expr.__new__ = self._orig
            self._orig = None

    # ---- singleton registries / lowering cache: snapshot, clear, restore
    @staticmethod
    def _caches():
        from dask._expr import SingletonExpr
        from dask_array import _materialize

        out = [_materialize._LOWER_CACHE]
        seen = set()
        stack = [SingletonExpr]
        while stack:
            c = stack.pop()
            if c in seen:
                continue
            seen.add(c)
            d = c.__dict__.get("_instances")
            if d is not None:
                out.append(d)
            stack.extend(c.__subclasses__())
        return out

    def isolated(self, fn):
        """Run fn() with EMPTY singleton registries and lowering cache, then restore them exactly.
        The registries are SWAPPED for fresh empty ones (cheap: no copying) and the very same dict objects are
        put back afterwards; registries created on a class while fn ran are removed again."""
        import weakref

        from dask._expr import SingletonExpr
        from dask_array import _materialize

        classes = []
        seen = set()
        stack = [SingletonExpr]
        while stack:
            c = stack.pop()
            if c in seen:
                continue
            seen.add(c)
            classes.append(c)
            stack.extend(c.__subclasses__())
        saved = [(c, c.__dict__["_instances"]) for c in classes if "_instances" in c.__dict__]
        had = {c for c, _ in saved}
        saved_lower = _materialize._LOWER_CACHE
        keep_pending = self.pending
        self.pending = []
        try:
            for c, _d in saved:
                setattr(c, "_instances", weakref.WeakValueDictionary())
            _materialize._LOWER_CACHE = weakref.WeakValueDictionary()
            return fn()
        finally:
            for c in classes:
                if c not in had and "_instances" in c.__dict__:
                    try:
                        delattr(c, "_instances")
                    except Exception:
                        pass
            for c, d in saved:
                setattr(c, "_instances", d)
            _materialize._LOWER_CACHE = saved_lower
            # nodes built while isolated are rebuilt computations of known nodes; not part of the history
            self.pending = keep_pending

    # ---- structure key
    @staticmethod
    def opkey(o):
        from dask._expr import Expr
        from dask.tokenize import _tokenize_deterministic

        if isinstance(o, Expr):
            return ("E", o._name)
        try:
            return ("L", _tokenize_deterministic(o))
        except Exception:
            return ("I", id(o))

    def skey(self, inst):
        return (type(inst).__name__, tuple(self.opkey(o) for o in inst.operands))

    # ---- values
    def values(self, entry, unoptimized=False):
        if entry.vals is not None:
            return entry.vals
        import dask
        from dask_array._new_collection import new_collection

        def go():
            cfg = {"scheduler": "sync"}
            if unoptimized:
                cfg["array.optimize-graph"] = False
            with dask.config.set(cfg):
                return np.asarray(new_collection(entry.node).compute())

        try:
            entry.vals = ("ok", self.isolated(go))
        except Exception as e:  # computing a node is not what this property is about
            entry.vals = ("err", f"{type(e).__name__}: {str(e)[:120]}")
            self.stats["value-exc"] += 1
        return entry.vals

    # ---- the check
    def drain(self, where):
        """Process every instance created since the last call; returns conflicts (list of dict)."""
        conflicts = []
        batch, self.pending = self.pending, []
        self.stats["instances"] += len(batch)
        for inst in batch:
            try:
                name = inst._name
                sk = self.skey(inst)
            except Exception:
                self.stats["unkeyable"] += 1
                continue
            ents = self.by_name.setdefault(name, [])
            if any(e.skey == sk for e in ents):
                self.stats["same-structure"] += 1
                continue
            e = Entry(inst, sk, where)
            if ents and len(ents) < 6:
                for old in ents:
                    c = self.compare(name, old, e)
                    if c:
                        conflicts.append(c)
                        break
            if len(ents) < 6:
                ents.append(e)
        self.ctx.notes["registry_names"] = len(self.by_name)
        return conflicts

    def compare(self, name, a, b):
        ka, kb = a.skey[0], b.skey[0]
        self.pair_classes[tuple(sorted((ka, kb)))] += 1
        self.ctx.count(("registry-pair",) + tuple(sorted((ka, kb))))
        self.ctx.traces += 1
        if a.cheap is None or b.cheap is None:
            self.stats["pair-uncomputable-meta"] += 1
            return None
        if a.cheap != b.cheap:
            return self.describe(name, a, b, "shape/chunks/dtype differ")
        if self.value_budget <= 0:
            self.stats["pair-values-skipped(budget)"] += 1
            return None
        self.value_budget -= 1
        pin_a, pin_b = ka in self.PINS, kb in self.PINS
        va = self.values(a, unoptimized=(pin_b and not pin_a))
        vb = self.values(b, unoptimized=(pin_a and not pin_b))
        if va[0] != "ok" or vb[0] != "ok":
            self.stats["pair-values-uncomputable"] += 1
            return None
        self.stats["pair-values-compared"] += 1
        if not same_values(va[1], vb[1]):
            return self.describe(name, a, b, "block values differ", va[1], vb[1])
        return None

    def describe(self, name, a, b, what, va=None, vb=None):
        def d(e, v):
            out = {"class": e.skey[0], "created_during": e.where, "content": e.cheap, "operands": [show_operand(o) for o in e.node.operands]}
            try:
                out["tree"] = "\n".join(e.node._tree_repr_lines())[:600]
            except Exception:
                pass
            if v is not None:
                out["values"] = brief(v)
            return out

        return {"name": name, "what": what, "a": d(a, va), "b": d(b, vb)}


# ------------------------------------------------------------------ extended program DSL

def apply_step(step, env, m, da_mode):
    """programs.apply_step plus ops local to this check (astype)."""
    if step["op"] == "astype":
        return env[step["args"][0]].astype(step["dtype"])
    return programs.apply_step(step, env, m, da_mode)


def run_np(prog):
    env = {}
    for st in prog:
        env[st["out"]] = apply_step(st, env, np, False)
    return env


def run_da(prog):
    import dask_array as da

    env = {}
    for st in prog:
        env[st["out"]] = apply_step(st, env, da, True)
    return env


def replay_gen(rng, prog, **kw):
    """A ProgGen whose state is `prog` (so that it can be extended by further random steps)."""
    g = programs.ProgGen(rng, **kw)
    for st in prog:
        st = {k: copy.deepcopy(v) for k, v in st.items() if k != "out"}
        if st["op"] == "astype":
            return None
        try:
            g.add(st)
        except programs._Skip:  # ProgGen.add's magnitude guard: not replayable as a generator state
            return None
    return g


def mutate_one(rng, prog):
    """A near-duplicate: the same program with ONE parameter of ONE step changed (validated with NumPy).
    Returns (prog', index, description) or None."""
    ref = run_np(prog)
    for _ in range(12):
        i = rng.randrange(len(prog))
        st = copy.deepcopy(prog[i])
        op = st["op"]
        shape_in = ref[st["args"][0]].shape if st.get("args") else None
        what = None
        if op == "src":
            k = rng.choice(["chunks", "off", "mul"])
            if k == "chunks":
                st["chunks"] = [list(c) for c in programs.rand_chunks_nd(rng, tuple(st["shape"]))]
            elif k == "off":
                st["off"] = st.get("off", 0) + rng.choice([-1, 1])
            else:
                st["mul"] = {1: 3, 3: 7, 7: 1}.get(st.get("mul", 1), 1)
            what = f"src.{k}"
        elif op == "getitem":
            idx = st["index"]
            cand = [j for j, e in enumerate(idx) if isinstance(e, int) or (isinstance(e, list) and e and e[0] in ("s", "l"))]
            if not cand:
                continue
            j = rng.choice(cand)
            e = idx[j]
            if isinstance(e, int):
                idx[j] = e + rng.choice([-1, 1])
            elif e[0] == "s":
                k = rng.choice([1, 2])
                e[k] = (0 if k == 1 else 1) if e[k] is None else e[k] + rng.choice([-1, 1])
            else:
                k = rng.randrange(len(e[1]))
                e[1][k] += rng.choice([-1, 1])
            what = "getitem.bound"
        elif op == "reduce":
            k = rng.choice(["axis", "keepdims", "split_every", "fn"])
            if k == "axis":
                nd = len(shape_in)
                st["axis"] = rng.choice([a for a in list(range(nd)) + [None] if a != st["axis"]] or [None])
            elif k == "keepdims":
                st["keepdims"] = not st["keepdims"]
            elif k == "split_every":
                st["split_every"] = rng.choice([s for s in (None, 2, 3, 4) if s != st.get("split_every")])
            else:
                st["fn"] = rng.choice([f for f in programs.REDUCE if f != st["fn"]])
            what = f"reduce.{k}"
        elif op == "rechunk":
            st["chunks"] = [list(c) for c in programs.rand_chunks_nd(rng, shape_in)]
            what = "rechunk.chunks"
        elif op == "roll":
            k = rng.choice(["shift", "axis"])
            if k == "shift":
                st["shift"] += rng.choice([-1, 1])
            else:
                st["axis"] = (st["axis"] + 1) % max(1, len(shape_in))
            what = f"roll.{k}"
        elif op == "cumsum":
            k = rng.choice(["axis", "method"])
            if k == "axis":
                st["axis"] = (st["axis"] + 1) % len(shape_in)
            else:
                st["method"] = "blelloch" if st.get("method") == "sequential" else "sequential"
            what = f"cumsum.{k}"
        elif op == "transpose":
            ax = st["axes"]
            a, b = rng.sample(range(len(ax)), 2)
            ax[a], ax[b] = ax[b], ax[a]
            what = "transpose.axes"
        elif op in ("concatenate", "flip", "diff", "squeeze"):
            st["axis"] = (st["axis"] + 1) % max(1, len(shape_in))
            what = f"{op}.axis"
        elif op in ("stack", "expand_dims"):
            if isinstance(st["axis"], list):
                # tuple-axis expand_dims: move to the single-axis form on another position
                st["axis"] = (st["axis"][0] + 1) % (len(shape_in) + 1)
            else:
                st["axis"] = (st["axis"] + 1) % (len(shape_in) + 1)
            what = f"{op}.axis"
        elif op == "clip":
            k = rng.choice(["lo", "hi"])
            st[k] += rng.choice([-1, 1])
            what = f"clip.{k}"
        elif op == "swv_reduce":
            k = rng.choice(["window", "fn", "axis"])
            if k == "window":
                st["window"] = max(1, st["window"] + rng.choice([-1, 1]))
            elif k == "fn":
                st["fn"] = rng.choice([f for f in ("sum", "max", "min") if f != st["fn"]])
            else:
                st["axis"] = (st["axis"] + 1) % len(shape_in)
            what = f"swv_reduce.{k}"
        elif op == "map_blocks":
            st["fn"] = rng.choice([f for f in programs.BLOCK_FUNCS if f != st["fn"]])
            what = "map_blocks.fn"
        elif op in programs.UNARY:
            st["op"] = rng.choice([f for f in programs.UNARY if f != op])
            what = "unary.op"
        elif op in programs.BINARY:
            st["op"] = rng.choice([f for f in programs.BINARY if f != op])
            what = "binary.op"
        elif op == "broadcast_to":
            st["shape"][0] += 1
            what = "broadcast_to.shape"
        elif op == "repeat":
            st["repeats"] += 1
            what = "repeat.repeats"
        elif op == "astype":
            st["dtype"] = rng.choice([d for d in ("int64", "int32", "float64") if d != st["dtype"]])
            what = "astype.dtype"
        else:
            continue
        cand = prog[:i] + [st] + copy.deepcopy(prog[i + 1:])
        try:
            with np.errstate(all="ignore"):
                run_np(cand)
        except Exception:
            continue
        return cand, i, what
    return None


def multi_window(rng):
    """Several WINDOWS of one source pushed through the same chain of rechunk / slice steps (equal window shape, equal
    target chunks), all alive at once and finally combined: the hand-built names of reads that absorbed a
    rechunk and a region (`FromArray._with_chunks` / `_accept_slice`) must keep every window apart.
    Returns (program, [window roots])."""
    nw = rng.choice([2, 2, 3])
    w = rng.randint(2, 8)
    rows = w * nw + rng.choice([0, 0, 1, 3])
    rank2 = rng.random() < 0.6
    shape = (rows, rng.randint(1, 4)) if rank2 else (rows,)
    prog = []

    def add(st):
        st["out"] = f"v{len(prog) + 1}"
        prog.append(st)
        return st["out"]

    src = add({"op": "src", "shape": list(shape), "chunks": [list(c) for c in programs.rand_chunks_nd(rng, shape)],
               "mul": rng.choice([1, 3]), "off": rng.randint(-3, 3), "mod": rng.choice([1 << 40, 11])})
    pattern = rng.choice(["RSR", "RSR", "RSR", "SR", "RS", "RSRSR", "RSRSR", "SRS", "SRSR", "S"])
    wshape = (w,) + shape[1:]
    sub = (rng.randint(0, w - 1),)
    sub = (sub[0], rng.randint(sub[0] + 1, w))
    sshape = (sub[1] - sub[0],) + shape[1:]
    # the chunk targets are drawn ONCE: every window goes through the same chain
    targets = {0: [list(c) for c in programs.rand_chunks_nd(rng, shape)], 1: [list(c) for c in programs.rand_chunks_nd(rng, wshape)],
               2: [list(c) for c in programs.rand_chunks_nd(rng, sshape)]}
    shared_first = rng.random() < 0.5  # one rechunked node shared by all windows, or one per window (same name anyway)
    first = None
    roots = []
    for i in range(nw):
        cur = src
        level = 0  # 0: full array, 1: window, 2: sub-window
        for k, ch in enumerate(pattern):
            if ch == "R":
                if level == 0 and k == 0 and shared_first and first is not None:
                    cur = first
                    continue
                cur = add({"op": "rechunk", "args": [cur], "chunks": copy.deepcopy(targets[level])})
                if level == 0 and k == 0 and first is None:
                    first = cur
            else:
                if level == 0:
                    idx = [["s", i * w, (i + 1) * w, None]]
                else:
                    idx = [["s", sub[0], sub[1], None]]
                level += 1
                cur = add({"op": "getitem", "args": [cur], "index": idx})
        roots.append(cur)
    comb = rng.choice(["add", "concatenate", "stack", "none"])
    if comb == "add":
        cur = roots[0]
        for r in roots[1:]:
            cur = add({"op": "add", "args": [cur, r]})
    elif comb == "concatenate":
        add({"op": "concatenate", "args": list(roots), "axis": 0})
    elif comb == "stack":
        add({"op": "stack", "args": roots[:2], "axis": 0})
    return prog, roots


def _window_probe(rows, cols, src_chunks, c1, w, c2, comb):
    shape = [rows, cols]
    prog = [{"op": "src", "shape": shape, "chunks": src_chunks, "mul": 1, "off": 0, "mod": 1 << 40, "out": "v1"},
            {"op": "rechunk", "args": ["v1"], "chunks": c1, "out": "v2"}]
    roots = []
    for i in range(rows // w):
        a = f"v{len(prog) + 1}"
        prog.append({"op": "getitem", "args": ["v2"], "index": [["s", i * w, (i + 1) * w, None]], "out": a})
        b = f"v{len(prog) + 1}"
        prog.append({"op": "rechunk", "args": [a], "chunks": c2, "out": b})
        roots.append(b)
    if comb == "add":
        prog.append({"op": "add", "args": roots[:2], "out": f"v{len(prog) + 1}"})
    else:
        prog.append({"op": "concatenate", "args": roots, "axis": 0, "out": f"v{len(prog) + 1}"})
    return prog, roots


# dedicated probes run at the start of every history (regressions that once escaped the random programs):
# x.rechunk((8,6))[0:16].rechunk((4,6)) and [16:32] of one from_array source, alive together (hand-built read names)
FIXED_PROBES = [
    _window_probe(32, 6, [[4] * 8, [6]], [[8] * 4, [6]], 16, [[4] * 4, [6]], "add"),
    _window_probe(12, 2, [[3] * 4, [2]], [[6, 6], [1, 1]], 4, [[2, 2], [2]], "concatenate"),
]


def add_astype(rng, prog):
    """Append / insert a dtype conversion (the DSL of programs.py is int64 only)."""
    prog = copy.deepcopy(prog)
    v = rng.choice([st["out"] for st in prog])
    prog.append({"op": "astype", "args": [v], "dtype": rng.choice(["int32", "float64"]), "out": f"t{len(prog)}"})
    return prog


def known_family(e):
    s = str(e)
    return any(k in s for k in KNOWN_EXC) or isinstance(e, NotImplementedError)


# --------------------------------------------------------------------------- fresh process

EVAL_SNIPPET = r"""
import json, sys
import numpy as np
sys.path.insert(0, {verif!r})
from harness.props import C06
req = json.loads(sys.stdin.read())
out = {{}}
try:
    env = C06.run_da(req["prog"])
    x = env[req["var"]]
    import dask
    with dask.config.set(scheduler="sync"):
        r = np.asarray(x.compute())
    out = {{"ok": True, "name": x.name, "chunks": [list(map(str, c)) for c in x.chunks], "dtype": str(r.dtype), "shape": list(r.shape), "values": r.ravel().tolist()}}
except Exception as e:
    out = {{"ok": False, "error": type(e).__name__ + ": " + str(e)[:200]}}
print(json.dumps(out))
"""


def child_env(hashseed=None):
    env = dict(os.environ)
    if str(core.REPO) != "/repo":
        env["PYTHONPATH"] = str(core.REPO) + (os.pathsep + env["PYTHONPATH"] if env.get("PYTHONPATH") else "")
    if hashseed is not None:
        env["PYTHONHASHSEED"] = str(hashseed)
    env["PYTHONDONTWRITEBYTECODE"] = "1"
    return env


def fresh_eval(prog, var):
    p = subprocess.run(
        [sys.executable, "-c", EVAL_SNIPPET.format(verif=str(core.VERIF))],
        input=json.dumps({"prog": prog, "var": var}), capture_output=True, text=True, timeout=300, env=child_env(), cwd=str(core.VERIF),
    )
    try:
        return json.loads(p.stdout.strip().splitlines()[-1])
    except Exception:
        return {"ok": False, "error": "child failed: " + p.stderr[-300:]}


# ------------------------------------------------------------------------------ the run

def run(ctx, replay=None):
    import dask

    rng = ctx.rng
    ctx.rule = (
        "histories of DSL programs built and computed in one process in random order: fresh random programs (25 ops, rank<=3, "
        "dims<=6, random chunkings), the same program rebuilt from fresh source objects, programs extending another program, "
        "near-duplicates differing in ONE parameter (slice bound, axis, keepdims, split_every, chunks, dtype, rechunk target, roll "
        "shift, source offset, function), random arrays differing in ONE of seed/size/chunks/bounds, persisted collections; "
        "near-duplicate PAIRS per public call family (harness/props_ext/c06_pairs*.py: ~85 families over the expression classes reachable "
        "from the public API; base call + one-parameter variants incl. weights / where / out / lock / meta / name / token, literal variants "
        "-0.0/0.0, True/1/1.0/np.float32(1), NaN payloads, tuple vs list, bit generators; both build orders, computed separately and in one "
        "merged dask.compute); "
        "OPERAND ORDERS (harness/props_ext/c06_order.py): ~120 binary / n-ary call families (operators, every binary ufunc, where / clip / "
        "choose / select, stack / concatenate / block, map_blocks / blockwise / apply_gufunc, dot / outer / tensordot / einsum, chains) with the "
        "operands swapped / rotated, operand kinds dask|ndarray|scalar, on 16 data recipes for which commutative operations are NOT symmetric "
        "(unicode / object strings, tuples, signed zeros, NaN payloads, mixed dtypes, masked arrays, matrices); one name => NumPy-identical "
        "arrays, values separately / merged / stacked equal the value alone; "
        "CONFIGURATIONS (harness/props_ext/c06_config.py): ~100 calls whose planning reads the configuration (chunks='auto' / byte specs in "
        "sources, creation and every spelling of rechunk, reshape, operands to unify, tree reductions, overlap, indexing) x every option read "
        "lazily (enumerated from the source; keys actually read are recorded per call) x every value of its domain: alone, with the earlier "
        "builds alive, after gc; all observations must form a function name -> (chunks, dtype), values equal the value alone; "
        "GRAPH KEYS (harness/props_ext/c06_shared_keys.py): ~45 families of layers with internal task keys (scans, tree / arg reductions, top-k, "
        "overlap, rechunk, shuffle / take, reshape, store-free io, histogram, percentile, contractions) x every keyword: optimized and rewrite-free "
        "graphs of all members pooled, every key shared by two members executed in each graph and compared; dask.compute(a, b) and da.stack([a, b]) "
        "equal the separate computes; USER-PINNED NAMES: every name= API x pushdown triggers (slices, takes, rechunk, transposes, broadcast, reshape, "
        "reductions, chains): values vs NumPy under extent-hiding consumers, no node / graph key keeps the user's name on another array; "
        "a case is distinct by (registry pair of classes) / (near-duplicate parameter kind) / (perturbed class, operand) / (family, parameter)"
    )
    ctx.assumptions = [
        "dask.tokenize is collision-free on distinct inputs (names are a free term algebra in the model)",
        "AST approximation of the translator: `tokenized` = operands the name reads on every path, `semantic` = operands any semantic member may read",
        "classes listed in Props/C06.lean `optOut` (pinned / hand-built names) are covered by the run-time registry only",
    ]
    ctx.extra["trusted_base"] = [
        "C06: `tokenize` never collides (SHA/MD5-style hashing is not modelled); the translator's AST reading of /repo "
        "(harness/translate/names.py), validated every run by the perturbation test and the registry",
    ]
    ctx._run_t0 = ctx.elapsed()
    if replay is not None:
        return run_replay(ctx, replay)

    NPROG = ctx.scale(50, 500)
    reg = Registry(ctx, value_budget=ctx.scale(120, 1500))
    phases = ctx.notes.setdefault("phase_seconds", {})

    def timed(label, t):
        phases[label] = round(ctx.elapsed() - t, 1)

    # the CONFIGURATION dimension (harness/props_ext/c06_config.py): the same call under every value of every lazily
    # read option, alone / with the first alive / after gc.  Runs BEFORE the registry hook is installed: the hook keeps
    # every expression alive, and "after garbage collection" must be real here.
    from harness.props_ext import c06_config, c06_order

    t = ctx.elapsed()
    with dask.config.set(scheduler="sync"):
        c06_config.run(ctx, reg)
    timed("config", t)
    reg.install()
    try:
        with dask.config.set(scheduler="sync"):
            t = ctx.elapsed()
            history(ctx, reg, NPROG)
            timed("history", t)
            random_family(ctx, reg)
            for c in reg.drain("random-family"):
                report_conflict(ctx, c, None)
            # near-duplicate pairs per public call family (weights / where / out / literal variants -0.0, True/1/1.0,
            # tuple vs list, bit generators, ...), both build orders, separate and merged computes
            from harness.props_ext import c06_pairs

            t = ctx.elapsed()
            c06_pairs.run(ctx, reg)
            timed("pairs", t)
            t = ctx.elapsed()
            perturbation(ctx, reg, targeted=None)
            timed("perturbation", t)
            # the OPERAND-ORDER dimension (harness/props_ext/c06_order.py): every binary / n-ary call family with its operands
            # in every order, on data for which "commutative" operations are not symmetric
            t = ctx.elapsed()
            c06_order.run(ctx, reg)
            timed("order", t)
            # GRAPH KEYS and USER-PINNED names (harness/props_ext/c06_shared_keys.py): keys shared by the graphs of two calls
            # differing in one keyword denote one computation; rewrite products never keep a user's name
            from harness.props_ext import c06_shared_keys

            t = ctx.elapsed()
            c06_shared_keys.run(ctx, reg)
            timed("shared_keys", t)
            if ctx.audit.get("broken"):
                targeted(ctx, reg)
    finally:
        reg.uninstall()
    ctx.notes["registry"] = dict(reg.stats)
    ctx.notes["registry_same_name_pairs_by_class"] = {"+".join(k): v for k, v in reg.pair_classes.most_common(25)}


def since(ctx):
    """seconds since run() started (the Lean build before it does not eat the search budget)"""
    return ctx.elapsed() - getattr(ctx, "_run_t0", 0.0)


def report_conflict(ctx, c, history_progs):
    sig = "registry:one-name-two-arrays:" + ("meta" if c["what"].startswith("shape") else "values")
    case = dict(c)
    if history_progs is not None:
        case["history"] = history_progs
    ctx.fail(sig, case, f"two nodes with _name {c['name']!r}: {c['what']}")


def history(ctx, reg, nprog):
    rng = ctx.rng
    built = []  # dict(prog, env, ref, kind)
    progs_json = []
    todo = []  # pending compute / merge actions
    kinds = collections.Counter()
    GEN = dict(avoid=("swv-consumer",), zero_axes=0)

    def build(prog, kind, twin=None, together=None):
        try:
            with np.errstate(all="ignore"):
                ref = run_np(prog)
        except Exception:
            return None
        try:
            env = run_da(prog)
        except Exception as e:
            ctx.notes["build_exc"] = ctx.notes.get("build_exc", 0) + 1
            if not known_family(e):
                ctx.notes.setdefault("build_exc_samples", []).append(f"{type(e).__name__}: {str(e)[:100]}")
                ctx.notes["build_exc_samples"] = ctx.notes["build_exc_samples"][-5:]
            return None
        rec = {"prog": prog, "env": env, "ref": ref, "kind": kind, "id": len(built)}
        built.append(rec)
        progs_json.append(prog)
        kinds[kind] += 1
        for c in reg.drain(f"build#{rec['id']}({kind})"):
            report_conflict(ctx, c, progs_json[-6:])
        # program-level: each variable's advertised content must be what NumPy says
        for v, x in env.items():
            r = ref[v]
            if tuple(x.shape) != r.shape and not any(isinstance(s, float) for s in x.shape):
                ctx.notes["advertised_shape_mismatch"] = ctx.notes.get("advertised_shape_mismatch", 0) + 1
        vs = list(env)
        for v in rng.sample(vs, min(len(vs), 2)) + [vs[-1]]:
            todo.append(("compute", rec["id"], v))
        if twin is not None:
            # programs sharing sources / subtrees: their graphs share keys
            todo.append(("merge", rec["id"], twin["id"]))
        elif len(built) > 1 and rng.random() < 0.3:
            todo.append(("merge", rec["id"], rng.randrange(len(built) - 1)))
        if rng.random() < 0.15:
            todo.append(("persist", rec["id"], vs[-1]))
        if together:
            todo.append(("together", rec["id"], list(together)))
        return rec

    def act(a):
        kind, i, v = a
        rec = built[i]
        if kind == "compute":
            x = rec["env"][v]
            ctx.count(("compute", rec["kind"]))
            try:
                got = np.asarray(x.compute())
            except Exception as e:
                ctx.notes["compute_exc"] = ctx.notes.get("compute_exc", 0) + 1
                if not known_family(e):
                    ctx.notes.setdefault("compute_exc_samples", []).append(f"{type(e).__name__}: {str(e)[:100]}")
                    ctx.notes["compute_exc_samples"] = ctx.notes["compute_exc_samples"][-5:]
                got = None
            for c in reg.drain(f"compute#{i}.{v}"):
                report_conflict(ctx, c, progs_json[max(0, i - 3): i + 1])
            if got is not None:
                want = rec["ref"][v]
                if got.shape != want.shape or not np.array_equal(got, want, equal_nan=True):
                    value_mismatch(ctx, rec, v, got, want, progs_json[: i + 1])
        elif kind == "together":
            compute_together(ctx, reg, rec, v, progs_json[max(0, i - 2): i + 1])
        elif kind == "merge":
            merge_graphs(ctx, reg, rec, built[v])
        elif kind == "persist":
            persist_family(ctx, reg, rec, v)

    for prog, roots in FIXED_PROBES:
        ctx.count(("fixed-probe", len(roots)))
        rec = build(copy.deepcopy(prog), "fixed-probe", together=list(roots))
    while todo:
        act(todo.pop(0))
    # schedule: sources of programs are shared on purpose (same shape/chunks/data => same from_array name)
    while len(built) < nprog and since(ctx) < ctx.scale(40, 420):
        r = rng.random()
        if r < 0.10:
            prog, roots = multi_window(rng)
            ctx.count(("multi-window", len(roots)))
            build(prog, "multi-window", together=roots)
        elif not built or r < 0.40:
            prog, _g = programs.gen_program(rng, depth=rng.randint(1, 6), **GEN)
            if rng.random() < 0.15:
                prog = add_astype(rng, prog)
            build(prog, "fresh")
        elif r < 0.52:
            base = rng.choice(built)
            rec = build(copy.deepcopy(base["prog"]), "rebuilt", twin=base)
            ctx.count(("rebuilt",))
            if rec is not None:
                same_program_same_names(ctx, base, rec)
        elif r < 0.64:
            base = rng.choice(built)
            g = replay_gen(rng, base["prog"], **GEN)
            if g is not None:
                for _ in range(rng.randint(1, 3)):
                    g.step()
                if len(g.prog) > len(base["prog"]):
                    build(g.prog, "extends", twin=base)
        else:
            base = rng.choice(built)
            m = mutate_one(rng, base["prog"])
            if m is not None:
                cand, idx, what = m
                ctx.count(("near-duplicate", what))
                rec = build(cand, "near-duplicate", twin=base)
                if rec is not None:
                    compare_twins(ctx, base, rec, idx, what)
        # interleave pending actions in random order
        while todo and rng.random() < 0.6:
            act(todo.pop(rng.randrange(len(todo))))
    rng.shuffle(todo)
    for a in todo:
        if since(ctx) > ctx.scale(45, 480):
            ctx.notes["actions_dropped_for_time"] = ctx.notes.get("actions_dropped_for_time", 0) + 1
            continue
        act(a)
    ctx.notes["programs_built"] = dict(kinds)
    if built:
        ctx.sample({"kind": "history-program", "program": built[len(built) // 2]["prog"]})


def compute_together(ctx, reg, rec, vs, hist):
    """`da.compute(y1, y2, ...)`: several live collections optimised and merged into ONE graph."""
    import dask_array as da

    xs = [rec["env"][v] for v in vs]
    ctx.count(("compute-together", len(xs)))
    try:
        got = da.compute(*xs)
    except Exception as e:
        ctx.notes["compute_exc"] = ctx.notes.get("compute_exc", 0) + 1
        got = None
    for c in reg.drain(f"compute-together#{rec['id']}"):
        report_conflict(ctx, c, hist)
    if got is None:
        return
    for v, g in zip(vs, got):
        want = rec["ref"][v]
        g = np.asarray(g)
        if g.shape != want.shape or not np.array_equal(g, want, equal_nan=True):
            solo = None
            try:
                solo = np.asarray(rec["env"][v].compute())
            except Exception:
                pass
            if solo is not None and solo.shape == want.shape and np.array_equal(solo, want, equal_nan=True):
                ctx.fail(
                    "merged-graph:value-depends-on-companions",
                    {"program": rec["prog"], "computed_together": vs, "var": v, "got": brief(g), "want": brief(want)},
                    "a collection computes the NumPy result alone but another one inside da.compute(y1, y2, ...): the merged graph shares a key between different arrays",
                )
            else:
                value_mismatch(ctx, rec, v, g, want, hist)
            return


def compare_twins(ctx, a, b, idx=None, what=None):
    """Two programs built in this process: wherever a variable of one has the NAME of a variable of the other,
    NumPy must give the same array and dask must advertise the same chunks / dtype."""
    by_name = {}
    for v, x in a["env"].items():
        by_name.setdefault(x.name, (v, x))
    for v2, y in b["env"].items():
        hit = by_name.get(y.name)
        if hit is None:
            continue
        v1, x = hit
        r1, r2 = a["ref"][v1], b["ref"][v2]
        ok_vals = r1.shape == r2.shape and np.array_equal(r1, r2, equal_nan=True)
        # astype is evaluated by NumPy too, so the reference dtype is meaningful when an astype is upstream
        ok_meta = canon_chunks(x.chunks) == canon_chunks(y.chunks) and str(x.dtype) == str(y.dtype)
        if not (ok_vals and ok_meta):
            ctx.fail(
                "near-duplicate:one-name-two-arrays",
                {"name": y.name, "program_a": a["prog"], "var_a": v1, "program_b": b["prog"], "var_b": v2, "changed": what, "step": idx,
                 "numpy_a": brief(r1), "numpy_b": brief(r2), "chunks_a": canon_chunks(x.chunks), "chunks_b": canon_chunks(y.chunks),
                 "dtype_a": str(x.dtype), "dtype_b": str(y.dtype)},
                "two different arrays (NumPy / advertised layout) carry one name",
            )
            return


def same_program_same_names(ctx, a, b):
    """The same program built twice in one process must give the same names (C07 checks this across processes)."""
    for v in a["env"]:
        if v in b["env"] and a["env"][v].name != b["env"][v].name:
            ctx.notes["rebuilt_name_changed"] = ctx.notes.get("rebuilt_name_changed", 0) + 1
            return


def value_mismatch(ctx, rec, v, got, want, hist):
    """A computed value differs from NumPy.  Name-related only if a FRESH process computes the same program right."""
    fr = fresh_eval(rec["prog"], v)
    if fr.get("ok"):
        fv = np.array(fr["values"]).reshape(fr["shape"]) if fr["shape"] else np.array(fr["values"]).reshape(())
        if fv.shape == want.shape and np.array_equal(fv, want, equal_nan=True):
            ctx.fail(
                "history:value-depends-on-history",
                {"program": rec["prog"], "var": v, "got": brief(got), "want": brief(want), "history": hist[-8:]},
                "a program computes the NumPy result in a fresh process but a different one after this history (de-duplication substituted a computation)",
            )
            return
    ctx.notes["value_mismatch_also_in_fresh_process(not a name problem; C01)"] = ctx.notes.get("value_mismatch_also_in_fresh_process(not a name problem; C01)", 0) + 1
    ctx.notes.setdefault("c01_samples", []).append({"program": rec["prog"], "var": v})
    ctx.notes["c01_samples"] = ctx.notes["c01_samples"][-3:]


def merge_graphs(ctx, reg, a, b):
    """Graph merging across collections: a key present in both graphs must hold the same block value."""
    from harness import graphs

    xa = a["env"][list(a["env"])[-1]]
    xb = b["env"][list(b["env"])[-1]]
    try:
        ga = dict(xa.__dask_graph__())
        gb = dict(xb.__dask_graph__())
    except Exception:
        ctx.notes["merge_graph_exc"] = ctx.notes.get("merge_graph_exc", 0) + 1
        reg.drain("merge")
        return
    for c in reg.drain(f"graph#{a['id']}+#{b['id']}"):
        report_conflict(ctx, c, [a["prog"], b["prog"]])
    shared = set(ga) & set(gb)
    ctx.count(("merge", bool(shared)))
    if not shared:
        return
    try:
        va, _ = graphs.execute(graphs.to_tasks(ga))
        vb, _ = graphs.execute(graphs.to_tasks(gb))
    except Exception:
        ctx.notes["merge_exec_exc"] = ctx.notes.get("merge_exec_exc", 0) + 1
        return
    ctx.notes["merge_shared_keys"] = ctx.notes.get("merge_shared_keys", 0) + len(shared)
    for k in shared:
        if graphs.fingerprint(va[k]) != graphs.fingerprint(vb[k]):
            ctx.fail(
                "graph-merge:one-key-two-values",
                {"key": repr(k), "program_a": a["prog"], "program_b": b["prog"], "value_a": brief(va[k]) if isinstance(va[k], np.ndarray) else repr(va[k])[:200],
                 "value_b": brief(vb[k]) if isinstance(vb[k], np.ndarray) else repr(vb[k])[:200]},
                "the graphs of two collections define the same key with different block values",
            )
            return


def persist_family(ctx, reg, rec, v):
    x = rec["env"][v]
    want = rec["ref"][v]
    try:
        p = x.persist()
        ok = p.name == x.name
        y1 = np.asarray((p + 1).compute())
        y2 = np.asarray(p.compute())
    except Exception as e:
        ctx.notes["persist_exc"] = ctx.notes.get("persist_exc", 0) + 1
        reg.drain("persist")
        return
    ctx.count(("persist",))
    for c in reg.drain(f"persist#{rec['id']}.{v}"):
        report_conflict(ctx, c, [rec["prog"]])
    if not ok:
        ctx.fail("persist:name-changed", {"program": rec["prog"], "var": v}, "x.persist().name != x.name")
    if y2.shape != want.shape or not np.array_equal(y2, want, equal_nan=True) or not np.array_equal(y1, want + 1, equal_nan=True):
        value_mismatch(ctx, rec, v, y2, want, [rec["prog"]])


def random_family(ctx, reg):
    """Random arrays: one parameter changed => another name (or the same values); same parameters => same name, same values."""
    import dask_array as da

    rng = ctx.rng
    seen = {}

    def make(p):
        if p["api"] == "RandomState":
            rs = da.random.RandomState(p["seed"])
            if p["dist"] == "randint":
                return rs.randint(p["lo"], p["hi"], size=tuple(p["size"]), chunks=tuple(p["chunks"]))
            return rs.normal(p["lo"], p["hi"], size=tuple(p["size"]), chunks=tuple(p["chunks"]))
        g = da.random.default_rng(p["seed"])
        if p["dist"] == "randint":
            return g.integers(p["lo"], p["hi"], size=tuple(p["size"]), chunks=tuple(p["chunks"]))
        return g.normal(p["lo"], p["hi"], size=tuple(p["size"]), chunks=tuple(p["chunks"]))

    n = ctx.scale(12, 80)
    for _ in range(n):
        base = {
            "api": rng.choice(["RandomState", "Generator"]), "dist": rng.choice(["randint", "normal"]), "seed": rng.randint(0, 5),
            "lo": rng.randint(0, 3), "hi": rng.randint(10, 20), "size": [rng.randint(2, 6), rng.randint(1, 5)],
            "chunks": [rng.randint(1, 3), rng.randint(1, 3)],
        }
        variants = [base, dict(base)]
        for k in ("seed", "lo", "hi"):
            variants.append({**base, k: base[k] + 1})
        variants.append({**base, "size": [base["size"][0] + 1, base["size"][1]]})
        variants.append({**base, "chunks": [base["chunks"][0] + 1, base["chunks"][1]]})
        variants.append({**base, "dist": "normal" if base["dist"] == "randint" else "randint"})
        for p in variants:
            try:
                x = make(p)
                xs = x[1:, ::-1] + 1  # a rewrite (slice pushdown into the random source) on top
                val = np.asarray(x.compute())
                val2 = np.asarray(xs.compute())
            except Exception:
                ctx.notes["random_exc"] = ctx.notes.get("random_exc", 0) + 1
                continue
            ctx.count(("random", p["api"], p["dist"]))
            content = (canon_chunks(x.chunks), str(x.dtype), val.shape, val.tobytes())
            old = seen.get(x.name)
            if old is not None and old[0] != content:
                ctx.fail("random:one-name-two-arrays", {"name": x.name, "params_a": old[1], "params_b": p}, "two random arrays with different content share a name")
            seen.setdefault(x.name, (content, p))
            want2 = val[1:, ::-1] + 1
            if val2.shape != want2.shape or not np.array_equal(val2, want2):
                ctx.notes["random_rewrite_changes_realization(C23)"] = ctx.notes.get("random_rewrite_changes_realization(C23)", 0) + 1


# ------------------------------------------------------------------------------- (b) perturbation

def neighbours(v, rng):
    """Sensible neighbours of an operand value (None when there is none)."""
    out = []
    if isinstance(v, (bool, np.bool_)):
        return [not v]
    if isinstance(v, (int, np.integer)) and not isinstance(v, bool):
        # ... and the equal-but-distinct literal of another type (1 / True / 1.0), which must not be conflated silently
        return [int(v) + 1, int(v) - 1] + ([bool(v), float(v)] if int(v) in (0, 1) else [])
    if isinstance(v, (float, np.floating)) and not math.isnan(v):
        return [-float(v), float(v) + 1.0] if float(v) != 0 else [-float(v), 1.0]  # signed zeros included
    if isinstance(v, np.dtype) or (isinstance(v, type) and issubclass(v, np.generic)):
        d = np.dtype(v)
        return [np.dtype("float64") if d != np.dtype("float64") else np.dtype("int64"), np.dtype("int32") if d != np.dtype("int32") else np.dtype("int16")]
    if isinstance(v, slice):
        return [slice((v.start or 0) + 1, v.stop, v.step), slice(v.start, (v.stop - 1) if v.stop else 1, v.step)]
    if isinstance(v, dict) and v:
        # dict-valued operands (split_every={axis: fan-in}, adjust_chunks, new_axes, kwargs): change one VALUE, keys kept
        for k in v:
            ns = neighbours(v[k], rng)
            if ns:
                for n in ns[:2]:
                    w = dict(v)
                    w[k] = n
                    out.append(w)
                break
        # ... and one KEY (an int key moved to a neighbour not already present)
        for k in v:
            if isinstance(k, (int, np.integer)) and not isinstance(k, bool) and (k + 1) not in v:
                w = {(k + 1 if kk == k else kk): vv for kk, vv in v.items()}
                out.append(w)
                break
        return out
    if isinstance(v, (tuple, list)) and v:
        typ = type(v)
        # change one element (first element that has a neighbour)
        for j, e in enumerate(v):
            ns = neighbours(e, rng)
            if ns:
                for n in ns[:2]:
                    w = list(v)
                    w[j] = n
                    out.append(typ(w) if typ in (tuple, list) else tuple(w))
                break
        # chunk tuples: merge the first two chunks of a dimension (a different but valid chunking)
        if all(isinstance(d, tuple) and d and all(isinstance(c, (int, np.integer)) for c in d) for d in v):
            for j, d in enumerate(v):
                if len(d) >= 2:
                    w = list(v)
                    w[j] = (d[0] + d[1],) + tuple(d[2:])
                    out.append(typ(w))
                    break
            for j, d in enumerate(v):
                if d[0] >= 2:
                    w = list(v)
                    w[j] = (1, d[0] - 1) + tuple(d[1:])
                    out.append(typ(w))
                    break
        return out
    return []


def uncovered_pairs():
    """(class, operand) pairs of the CURRENT table that the Lean obligation does not cover, computed with the
    optOut / nonSemantic lists of Props/C06.lean (parsed from the file: one source of truth)."""
    from harness.translate import names

    src = core._strip_comments((core.LEAN / "DaskArrayModel" / "Props" / "C06.lean").read_text())
    m = re.search(r"def optOut : List String := \[(.*?)\]", src, re.S)
    opt = set(re.findall(r'"([^"]+)"', m.group(1))) if m else set()
    m = re.search(r"def nonSemantic : List \(String × String\) := \[(.*?)\]\s*\n\s*\n", src, re.S)
    non = set(re.findall(r'\("([^"]+)",\s*"([^"]+)"\)', m.group(1))) if m else set()
    rows, _sites = names.collect()
    out = []
    for r in rows:
        if r["name"] in opt:
            continue
        for p in r["semantic"]:
            if p not in r["tokenized"] and (r["name"], p) not in non:
                out.append((r["name"], p))
    return out, opt, non


# optOut classes (Props/C06.lean) whose name is pinned only in one MODE; the others are pinned always
PIN_MODE = {
    "FromArray": lambda n: bool(n.operand("_name_is_exact")),
    "BroadcastTrick": lambda n: n.operand("name") is not None,
    "Ones": lambda n: n.operand("name") is not None,
    "Zeros": lambda n: n.operand("name") is not None,
    "Empty": lambda n: n.operand("name") is not None,
    "Full": lambda n: n.operand("name") is not None,
    "FromMap": lambda n: bool(n.operand("_name_prefix")),
    "FromDelayed": lambda n: bool(n.operand("_name_prefix")),
    # hand-built but operand-derived names: `content changed => name changed` is still required
    "Random": lambda n: False,
    "RandomNormal": lambda n: False,
    "RandomPoisson": lambda n: False,
}
_OPT = None


def is_pinned(node):
    """The node's name is pinned / hand-built (Props/C06.lean `optOut`): `content changed => name changed` is not
    required of its operands; such names are policed by the registry only."""
    global _OPT
    if _OPT is None:
        src = core._strip_comments((core.LEAN / "DaskArrayModel" / "Props" / "C06.lean").read_text())
        m = re.search(r"def optOut : List String := \[(.*?)\]", src, re.S)
        _OPT = set(re.findall(r'"([^"]+)"', m.group(1))) if m else set()
    cn = type(node).__name__
    if cn not in _OPT:
        return False
    f = PIN_MODE.get(cn)
    try:
        return True if f is None else bool(f(node))
    except Exception:
        return True


def perturb_node(ctx, reg, node, positions, rng, stats, tag):
    """Perturb the operands of `node` at `positions`; report a perturbed node with the SAME name and different content."""
    from dask._expr import Expr

    cls = type(node)
    params = list(cls._parameters)
    if is_pinned(node):
        stats["pinned-name-nodes-skipped"] += 1
        return
    base_cheap = cheap(node)
    if base_cheap is None:
        return
    for i in positions:
        if i >= len(node.operands):
            continue
        op = node.operands[i]
        if isinstance(op, Expr):
            continue
        pname = params[i] if i < len(params) else "*"
        nbs = neighbours(op, rng)
        if pname in ("name", "token", "_name_prefix") and isinstance(op, str):
            nbs = [op + "x"]  # key-name prefixes (validates the `nonSemantic` name/token exceptions)
        if "meta" in pname and (op is None or isinstance(op, np.ndarray)):
            # meta hints: another array type/dtype hint of the same rank (validates the `nonSemantic` exceptions)
            ranks = {len(base_cheap[0])} | ({op.ndim} if isinstance(op, np.ndarray) else set())
            nbs = [np.empty((0,) * k, dtype="float32") for k in sorted(ranks)] + ([None] if op is not None else [])
        for nb in nbs:
            ops = list(node.operands)
            ops[i] = nb
            reg.last_raw = None
            try:
                cls(*ops)
            except Exception:
                stats["construct-refused"] += 1
                continue
            raw = reg.last_raw
            if raw is None or type(raw) is not cls:
                continue
            stats["perturbed"] += 1
            ctx.traces += 1
            ctx.count(("perturb", cls.__name__, pname))
            try:
                same_name = raw._name == node._name
            except Exception:
                continue
            if not same_name:
                continue
            stats["name-unchanged"] += 1
            stats[f"name-unchanged:{cls.__name__}.{pname}"] += 1
            c2 = cheap(raw)
            if c2 is None:
                stats["name-unchanged-but-perturbed-node-invalid"] += 1
                continue
            detail = None
            if c2 != base_cheap:
                detail = ("shape/chunks/dtype", base_cheap, c2, None, None)
            else:
                e1 = Entry(node, ("x",), tag)
                e2 = Entry(raw, ("y",), tag)
                v1 = reg.values(e1)
                v2 = reg.values(e2)
                if v1[0] == "ok" and v2[0] == "ok":
                    stats["name-unchanged-values-compared"] += 1
                    if not same_values(v1[1], v2[1]):
                        detail = ("block values", base_cheap, c2, v1[1], v2[1])
                else:
                    stats["name-unchanged-values-uncomputable"] += 1
            if detail:
                what, ca, cb, va, vb = detail
                case = {
                    "class": cls.__name__, "operand": pname, "name": node._name, "original_operand": repr(op)[:200], "perturbed_operand": repr(nb)[:200],
                    "content_a": ca, "content_b": cb, "tree": "\n".join(node._tree_repr_lines())[:800],
                }
                if va is not None:
                    case["values_a"] = brief(va)
                    case["values_b"] = brief(vb)
                ctx.fail(f"perturb:one-name-two-arrays:{cls.__name__}.{pname}", case,
                         f"changing operand {pname!r} of a {cls.__name__} changes its {what} but not its name")
                return
    reg.pending = []  # perturbed instances are not part of the history


def perturbation(ctx, reg, targeted=None):
    rng = ctx.rng
    stats = collections.Counter()
    per_class = collections.Counter()
    cap = ctx.scale(6, 40)
    nodes = []
    for ents in reg.by_name.values():
        for e in ents:
            cn = e.skey[0]
            if per_class[cn] < cap:
                per_class[cn] += 1
                nodes.append(e.node)
    rng.shuffle(nodes)
    t_end = ctx.elapsed() + ctx.scale(12, 120)
    for node in nodes:
        if ctx.elapsed() > t_end:
            stats["stopped-for-time"] += 1
            break
        perturb_node(ctx, reg, node, range(len(node.operands)), rng, stats, "perturbation")
    reg.pending = []
    ctx.notes["perturbation"] = {k: v for k, v in stats.items() if not k.startswith("name-unchanged:")}
    ctx.notes["perturbation_name_unchanged_pairs"] = sorted(k.split(":", 1)[1] for k in stats if k.startswith("name-unchanged:"))
    ctx.notes["perturbation_classes"] = len(per_class)


# ------------------------------------------------------------------------------- (c) targeted

def targeted(ctx, reg):
    """The Lean obligation over the table no longer checks: search the real code on exactly the uncovered pairs."""
    import dask_array as da

    rng = ctx.rng
    try:
        pairs, opt, non = uncovered_pairs()
    except Exception as e:
        ctx.notes["targeted_search"] = f"could not recompute the uncovered pairs: {e!r}"
        return
    ctx.notes["uncovered_pairs"] = [f"{c}.{p}" for c, p in pairs][:40]
    if not pairs:
        ctx.notes["targeted_search"] = (
            "table still covered; the broken obligation is not C06_table_covers (unstable-site / pickling tables are C07's); "
            "registry + perturbation of this run found no failing input"
        )
        return
    want = collections.defaultdict(set)
    for c, p in pairs:
        want[c].add(p)
    stats = collections.Counter()
    before = len(ctx.failures)
    # 1. nodes of those classes already seen in the history
    pool = [e.node for ents in reg.by_name.values() for e in ents if e.skey[0] in want]
    # 2. make more of them at API level: reductions / slicing / elementwise / rechunk over small sources
    extra = []
    for _ in range(ctx.scale(25, 120)):
        shape = tuple(rng.randint(2, 5) for _ in range(rng.randint(1, 3)))
        x = da.from_array(np.arange(int(np.prod(shape))).reshape(shape), chunks=tuple(rng.randint(1, 3) for _ in shape))
        ax = rng.randrange(len(shape))
        for kd in (False, True):
            for fn in ("sum", "max", "mean", "prod", "any"):
                extra.append(getattr(x, fn)(axis=ax, keepdims=kd, split_every=rng.choice([None, 2])))
        extra.append((x + 1)[..., ::2])
        extra.append(x.T.rechunk(1))
    for y in extra:
        try:
            y.compute()
        except Exception:
            pass
    for c in reg.drain("targeted-build"):
        report_conflict(ctx, c, None)
    pool += [e.node for ents in reg.by_name.values() for e in ents if e.skey[0] in want]
    seen = set()
    for node in pool:
        if id(node) in seen or len(ctx.failures) > before:
            continue
        seen.add(id(node))
        cls = type(node)
        params = list(cls._parameters) + ["*"]
        pos = [i for i in range(len(node.operands)) if (params[min(i, len(params) - 1)] in want[cls.__name__])]
        perturb_node(ctx, reg, node, pos, rng, stats, "targeted")
    reg.pending = []
    # 3. API-level pairs: the same call with ONE argument changed, both alive, both computed
    api_pairs(ctx, reg, stats)  # always: gives a user-level reproducer next to the node-level pair
    ctx.notes["targeted_search"] = (
        f"uncovered (class, operand) pairs {sorted(f'{c}.{p}' for c, p in pairs)[:12]}: perturbed {stats['perturbed']} nodes of those classes at "
        f"exactly those operands ({stats['name-unchanged']} kept their name), plus API-level near-duplicate calls; "
        + ("found a failing input" if len(ctx.failures) > before else "no pair with one name and two different arrays found")
    )


def api_pairs(ctx, reg, stats):
    import dask_array as da

    rng = ctx.rng
    for _ in range(ctx.scale(40, 300)):
        shape = tuple(rng.randint(2, 5) for _ in range(rng.randint(2, 3)))
        data = np.arange(int(np.prod(shape))).reshape(shape) % 7
        chunks = tuple(rng.randint(1, 3) for _ in shape)
        ax = rng.randrange(len(shape))
        ax2 = (ax + 1) % len(shape)
        fn = rng.choice(["sum", "max", "min", "mean", "prod"])
        calls = [
            ({"axis": ax, "keepdims": False}, {"axis": ax, "keepdims": True}),
            ({"axis": ax, "keepdims": False}, {"axis": ax2, "keepdims": False}),
            ({"axis": ax, "keepdims": False, "split_every": 2}, {"axis": ax, "keepdims": False, "split_every": 3}),
        ]
        for ka, kb in calls:
            x = da.from_array(data, chunks=chunks)
            a = getattr(x, fn)(**ka)
            b = getattr(x, fn)(**kb)
            try:
                ra, rb = np.asarray(a.compute()), np.asarray(b.compute())
            except Exception as e:
                # a substituted computation typically explodes; compare against NumPy below only when it ran
                ra = rb = None
                err = f"{type(e).__name__}: {str(e)[:120]}"
            stats["api-pairs"] += 1
            ctx.count(("api-pair", fn, tuple(sorted(set(ka) | set(kb)))))
            conf = reg.drain("api-pairs")
            case = {"source": {"shape": list(shape), "chunks": list(chunks), "data": "arange % 7"}, "fn": fn, "kwargs_a": ka, "kwargs_b": kb}
            if conf:
                c = conf[0]
                case.update(c)
                ctx.fail("api:one-name-two-arrays", case, f"x.{fn}(**a) and x.{fn}(**b) create two nodes named {c['name']!r}: {c['what']}")
                return
            npk = lambda k: {kk: vv for kk, vv in k.items() if kk != "split_every"}
            wa, wb = getattr(np, fn)(data, **npk(ka)), getattr(np, fn)(data, **npk(kb))
            if ra is None:
                stats["api-pair-raised"] += 1
                continue
            if not (np.allclose(ra, wa) and np.allclose(rb, wb)) or ra.shape != wa.shape or rb.shape != wb.shape:
                case.update({"got_a": brief(ra), "want_a": brief(wa), "got_b": brief(rb), "want_b": brief(wb), "name_a": a.name, "name_b": b.name})
                ctx.fail("api:near-duplicate-wrong-after-dedup", case, "two near-duplicate reductions alive in one process: one of them computes the other's result")
                return


# ------------------------------------------------------------------------------- replay

def run_replay(ctx, rp):
    """Re-run a recorded failing case (near-duplicate / history / api pairs are self-contained)."""
    import dask

    case = rp.get("case", rp)
    reg = Registry(ctx, value_budget=50)
    if case.get("config_stream"):  # harness/props_ext/c06_config.py (runs without the registry hook: real garbage collection)
        from harness.props_ext import c06_config

        with dask.config.set(scheduler="sync"):
            c06_config.replay(ctx, reg, case)
        return
    reg.install()
    try:
        with dask.config.set(scheduler="sync"):
            if case.get("shared_keys"):  # harness/props_ext/c06_shared_keys.py
                from harness.props_ext import c06_shared_keys

                c06_shared_keys.replay(ctx, reg, case)
            elif case.get("order_stream"):  # harness/props_ext/c06_order.py
                from harness.props_ext import c06_order

                c06_order.replay(ctx, reg, case)
            elif case.get("pairs"):  # harness/props_ext/c06_pairs.py
                from harness.props_ext import c06_pairs

                c06_pairs.replay(ctx, reg, case)
            elif "program_a" in case and "program_b" in case:
                a = {"prog": case["program_a"], "env": run_da(case["program_a"]), "ref": run_np(case["program_a"]), "id": 0}
                b = {"prog": case["program_b"], "env": run_da(case["program_b"]), "ref": run_np(case["program_b"]), "id": 1}
                compare_twins(ctx, a, b, case.get("step"), case.get("changed"))
                for rec in (a, b):
                    for v, x in rec["env"].items():
                        try:
                            got = np.asarray(x.compute())
                        except Exception:
                            continue
                        if got.shape != rec["ref"][v].shape or not np.array_equal(got, rec["ref"][v], equal_nan=True):
                            value_mismatch(ctx, rec, v, got, rec["ref"][v], [a["prog"], b["prog"]])
                for c in reg.drain("replay"):
                    report_conflict(ctx, c, [a["prog"], b["prog"]])
            elif "history" in case and case["history"]:
                for k, prog in enumerate(case["history"]):
                    try:
                        env = run_da(prog)
                        ref = run_np(prog)
                    except Exception:
                        continue
                    for v, x in env.items():
                        try:
                            got = np.asarray(x.compute())
                        except Exception:
                            continue
                        if got.shape != ref[v].shape or not np.array_equal(got, ref[v], equal_nan=True):
                            value_mismatch(ctx, {"prog": prog, "env": env, "ref": ref, "id": k}, v, got, ref[v], case["history"])
                    for c in reg.drain(f"replay#{k}"):
                        report_conflict(ctx, c, case["history"])
            elif "kwargs_a" in case:
                stats = collections.Counter()
                api_pairs(ctx, reg, stats)
            else:
                perturbation_seed = collections.Counter()
                history(ctx, reg, 20)
                perturbation(ctx, reg)
    finally:
        reg.uninstall()
