"""C10 — computation is schedule-independent and never mutates inputs.

Theorem side (Props/C10.lean): any two topological orders of a closed graph of PURE tasks
evaluate to the same key->value map, and a topological order never needs an undefined
dependency.  What the theorem assumes — tasks are pure functions of their dependency values
and leave them untouched — is what this harness monitors on the real graphs: an instrumented
serial scheduler executes the real task graph in seeded random topological orders (+FIFO/LIFO),
fingerprints every dependency value before/after each task and every user source before/after
every execution, and compares results across orders, with the threaded scheduler and NumPy.

Four searches: (0a) result ownership (props_ext/c10_own.py: every array returned by compute / dask.compute / np.asarray /
blocks / aligned and unaligned slices of plain and PERSISTED collections is overwritten in place; the user's
array, the persisted data and later computes must not notice), (0b) lock discipline (props_ext/c10_locks.py: a shared-cursor
source with a reentrancy counter behind from_array(lock=True | lock object) read through several pushed-down views in one
graph, and store into one shared-cursor target), (0c) build-time vs run-time configuration (props_ext/c10_buildtime.py: lazy store /
from_array(lock) / map_blocks(lock) objects built under one dask.config scheduler setting and executed under another), (1) the operation catalogue (harness/props_ext/c10_catalog.py executor + checks, c10_ops.py ~180 public
operations with their kwargs, c10_cases.py stratified sweeps: order statistics with overwrite_input/keepdims/method,
moving-window kernels over first/last-chunk-of-length-1 chunkings and every min_count class, reductions, scans,
out=/where=, setitem, store, contractions, fft, ...), (2) seeded random array programs + in-place-prone templates.
"""
from __future__ import annotations

import random

import time

import numpy as np

from harness import graphs, programs
from harness.props_ext import c10_buildtime, c10_cases, c10_catalog, c10_locks, c10_own


def same(a, b):
    a = np.asarray(a)
    b = np.asarray(b)
    return a.shape == b.shape and a.dtype == b.dtype and graphs.fingerprint(a) == graphs.fingerprint(b)


def close_to_numpy(got, want):
    got = np.asarray(got)
    want = np.asarray(want)
    if got.shape != want.shape:
        return False
    if got.dtype.kind in "iub" and want.dtype.kind in "iub":
        return bool(np.array_equal(got, want))
    return bool(np.allclose(got, want, rtol=1e-9, atol=0, equal_nan=True))


def py_is_topo(deps, order):
    """independent oracle: order lists every key once, each after its dependencies"""
    seen = set()
    for k in order:
        if k in seen or k not in deps or any(d not in seen for d in deps[k]):
            return False
        seen.add(k)
    return len(seen) == len(deps)


def istopo_pair(deps, order, expect=None):
    """request for the Lean checker: keys numbered by sorted repr"""
    idx = {k: i for i, k in enumerate(sorted(deps, key=repr))}
    from harness.core import f_list

    d = ";".join(f_list(sorted(idx[x] for x in deps[k] if x in idx)) if all(x in idx for x in deps[k]) else "999999"
                 for k in sorted(deps, key=repr)) or "-"
    o = f_list([idx.get(k, 999998) for k in order])
    want = py_is_topo(deps, order) if expect is None else expect
    return (f"gr.istopo {d} {o}", "ok 1" if want else "ok 0")


class OrderLog:
    """dask callback recording the graph a stock scheduler ran and the order tasks finished in"""

    def __init__(self):
        from dask.callbacks import Callback

        self.order = []
        self.dsk = None
        log = self

        class CB(Callback):
            def _start(self, dsk):
                log.dsk = dsk

            def _posttask(self, key, result, dsk, state, id):
                log.order.append(key)

        self.cb = CB()


def run_case(ctx, case, count=True):
    """case: {prog, roots, optimize, orders:int, oseed:int}.  Returns list of (sig, detail) or None (skipped)."""
    import dask
    from dask.core import flatten

    prog = case["prog"]
    roots = case["roots"]
    fails = []
    with dask.config.set({"array.optimize-graph": case["optimize"]}):
        sources = {}
        try:
            env = programs.run_da_ext(prog, sources)
        except NotImplementedError:
            ctx.notes["refused_at_construction"] = ctx.notes.get("refused_at_construction", 0) + 1
            return None
        except Exception as e:
            # raising while the program is BUILT is not a statement about graphs / schedules / records
            # (e.g. broadcasting a length-1 axis chunked (0, 1)); counted with an example, reported
            ctx.notes["construction_raised"] = ctx.notes.get("construction_raised", 0) + 1
            ctx.notes.setdefault("construction_raised_example", f"{type(e).__name__}: {str(e)[:100]} :: {[st['op'] for st in prog]}")
            return None
        npenv = programs.run_np_ext(prog)
        pristine = {k: v.copy() for k, v in sources.items()}
        src_fp = {k: (graphs.fingerprint(v), v.flags.writeable) for k, v in sources.items()}

        def sources_changed(when):
            out = []
            for k, v in sources.items():
                if (graphs.fingerprint(v), v.flags.writeable) != src_fp[k]:
                    out.append(("source-mutated", f"user array behind from_array {k} changed {when}: "
                                f"{pristine[k].ravel()[:8].tolist()} -> {v.ravel()[:8].tolist()}"))
                    # restore so that later comparisons are meaningful
                    v.flags.writeable = True
                    v[...] = pristine[k]
            return out

        xs = [env[r] for r in roots]
        try:
            dsk = {}
            for x in xs:
                dsk.update(dict(x.__dask_graph__()))
            tasks = graphs.to_tasks(dsk)
            missing, cycle = graphs.check_closed_acyclic(tasks)
            if missing or cycle:
                ctx.notes["not_closed_or_cyclic(C04)"] = ctx.notes.get("not_closed_or_cyclic(C04)", 0) + 1
                k = programs.classify_known(prog, f"Missing dependency {missing[0][1]!r}" if missing else "cycle")
                if k:
                    fails.append((k, f"graph not closed: {missing[:1]}"))
                return fails or None
        except Exception as e:
            msg = f"{type(e).__name__}: {e}"
            k = programs.classify_known(prog, msg)
            if k:
                return [(k, msg[:300])]
            ctx.notes["graph_build_raised"] = ctx.notes.get("graph_build_raised", 0) + 1
            return None
        fails += sources_changed("while building the graph")

        orders = [("fifo", None), ("lifo", None)] + [("random", case["oseed"] * 1000 + i) for i in range(case["orders"])]
        ref = None
        outcomes = []
        for oname, oseed in orders:
            try:
                values, mutations = graphs.execute(tasks, rng=random.Random(oseed) if oseed is not None else None, fingerprints=True, order=oname)
                res = [graphs.assemble(x, values) for x in xs]
                outcome = ("ok", res)
            except Exception as e:
                mutations = []
                outcome = ("raise", f"{type(e).__name__}: {str(e)[:200]}")
            outcomes.append((oname, oseed, outcome))
            pairs = getattr(ctx, "c10_pairs", None)
            if pairs is not None and outcome[0] == "ok" and len(tasks) <= 120 and len(pairs) < ctx.c10_limit:
                deps = {k: set(t.dependencies) for k, t in tasks.items()}
                order = list(values)
                pairs.append(istopo_pair(deps, order, expect=True))  # the order the executor used
                bad = order[:]
                ctx.rng.shuffle(bad)
                pairs.append(istopo_pair(deps, bad))  # control: a random permutation
            for tk, dk in mutations[:3]:
                fails.append(("dependency-mutated", f"order {oname}/{oseed}: task {tk!r} changed the value of its dependency {dk!r}"))
            fails += sources_changed(f"during serial execution (order {oname}/{oseed})")
            if ref is None:
                ref = outcome
            elif outcome[0] != ref[0]:
                fails.append(("order-dependent-outcome", f"order {orders[0][0]} -> {ref[0]}, order {oname}/{oseed} -> {outcome[0]} {outcome[1] if outcome[0]=='raise' else ''}"))
            elif outcome[0] == "ok":
                for r, a, b in zip(roots, ref[1], outcome[1]):
                    if not same(a, b):
                        fails.append(("order-dependent-result", f"{r}: order {orders[0][0]} vs {oname}/{oseed}: "
                                      f"{np.asarray(a).ravel()[:8].tolist()} vs {np.asarray(b).ravel()[:8].tolist()}"))
            if count:
                ctx.count()
        if ref[0] == "raise":
            # every order raises the same way: not schedule dependence (value errors belong to C01/C11)
            k = programs.classify_known(prog, ref[1])
            ctx.notes["all_orders_raise"] = ctx.notes.get("all_orders_raise", 0) + 1
            ctx.notes.setdefault("all_orders_raise_examples", [])
            if len(ctx.notes["all_orders_raise_examples"]) < 3:
                ctx.notes["all_orders_raise_examples"].append(ref[1][:120])
            if k:
                fails.append((k, ref[1]))
            return fails
        # the stock schedulers
        for r, x, a in zip(roots, xs, ref[1]):
            try:
                c = x.compute(scheduler="sync")
            except Exception as e:
                fails.append(("order-dependent-outcome", f"{r}: instrumented orders succeed, compute(scheduler='sync') raises {type(e).__name__}: {str(e)[:200]}"))
                continue
            fails += sources_changed("during compute(scheduler='sync')")
            if not same(a, c):
                fails.append(("order-dependent-result", f"{r}: instrumented execution vs compute(sync): {np.asarray(a).ravel()[:8].tolist()} vs {np.asarray(c).ravel()[:8].tolist()}"))
            for i in range(case.get("threads", 2)):
                try:
                    log = OrderLog()
                    with log.cb:
                        t = x.compute(scheduler="threads", num_workers=4)
                    pairs = getattr(ctx, "c10_pairs", None)
                    if pairs is not None and log.dsk is not None and len(log.order) <= 120 and len(pairs) < ctx.c10_limit:
                        sched = graphs.to_tasks(dict(log.dsk))
                        deps = {k: set(tk.dependencies) for k, tk in sched.items()}
                        # dask's threaded scheduler: the order in which tasks FINISHED must be a topological order
                        # (data nodes are preloaded by the scheduler, they never reach posttask)
                        # and tasks no output needs are culled: the sub-graph of what ran must be closed and ordered)
                        logged = set(log.order)
                        need = {d for k in log.order for d in deps.get(k, ())}
                        pre = sorted((k for k, d in deps.items() if not d and k not in logged and k in need), key=repr)
                        ran = set(pre) | logged
                        pairs.append(istopo_pair({k: deps[k] for k in ran if k in deps}, pre + log.order, expect=True))
                except Exception as e:
                    fails.append(("order-dependent-outcome", f"{r}: compute(threads) raises {type(e).__name__}: {str(e)[:200]}"))
                    break
                fails += sources_changed("during compute(scheduler='threads')")
                if not same(a, t):
                    fails.append(("threads-differ", f"{r}: serial vs 4 threads (run {i}): {np.asarray(a).ravel()[:8].tolist()} vs {np.asarray(t).ravel()[:8].tolist()}"))
                if count:
                    ctx.count()
            if not any(st["op"] == "setitem_masked" for st in prog) and not close_to_numpy(a, npenv[r]):
                # every schedule agrees on a value that differs from NumPy: a value defect (C01/C02), not
                # schedule dependence and not an input mutation -> recorded in the evidence, reported, no C10 failure
                ctx.notes["numpy_mismatch_with_all_orders_agreeing(C01)"] = ctx.notes.get("numpy_mismatch_with_all_orders_agreeing(C01)", 0) + 1
                ex = ctx.notes.setdefault("numpy_mismatch_examples", [])
                if len(ex) < 3:
                    ex.append({"prog": prog, "root": r, "optimize": case["optimize"], "got": np.asarray(a).ravel()[:8].tolist(), "numpy": np.asarray(npenv[r]).ravel()[:8].tolist()})
        # the source collections afterwards: the data behind from_array must survive every compute
        for st in prog:
            if st["op"] == "src" and st["out"] in pristine:
                try:
                    again = env[st["out"]].compute(scheduler="sync")
                except Exception:
                    continue
                if not same(again, pristine[st["out"]]):
                    fails.append(("source-collection-changed", f"{st['out']}.compute() after the computation no longer returns the source data: "
                                  f"{pristine[st['out']].ravel()[:8].tolist()} -> {np.asarray(again).ravel()[:8].tolist()}"))
        if count:
            kinds = tuple(sorted({type(n).__name__ for x in xs for n in x._lowered_expr.walk()}))
            ctx.count(("prog", case["optimize"], kinds), n=0)
            ctx.notes["tasks_executed"] = ctx.notes.get("tasks_executed", 0) + len(tasks) * len(orders)
    return fails


def report(ctx, case, fails):
    by_sig = {}
    for sig, detail in fails:
        by_sig.setdefault(sig, detail)
    for sig, detail in by_sig.items():
        small = case
        try:
            for r in case["roots"]:
                i = [k for k, st in enumerate(case["prog"]) if st["out"] == r][0]
                c = dict(case, prog=case["prog"][: i + 1], roots=[r])
                f = run_case(ctx, c, count=False)
                if f and any(s == sig for s, _ in f):
                    def still(p, sig=sig):
                        f = run_case(ctx, dict(case, prog=p, roots=[p[-1]["out"]]), count=False)
                        return bool(f) and any(s == sig for s, _ in f)

                    p = programs.shrink(c["prog"], still)
                    small = dict(c, prog=p, roots=[p[-1]["out"]])
                    f2 = run_case(ctx, small, count=False)
                    detail = next((d for s, d in (f2 or []) if s == sig), detail)
                    break
        except Exception:
            pass
        ctx.fail(sig, small, detail)


# programs aimed at the in-place-prone kernels (anchors of the property): each keeps the operand
# of the kernel as a second root, so that a kernel writing into its input is visible in the results
# as well as in the dependency fingerprints
def targeted_programs(rng):
    out = []
    n = rng.randint(4, 9)
    m = rng.randint(2, 5)
    shape = [n, m]
    src = {"op": "src", "shape": shape, "chunks": [list(c) for c in programs.rand_chunks_nd(rng, shape)], "mul": 1, "off": rng.randint(-3, 3), "mod": 1 << 40, "out": "v1"}
    one = {"op": "rechunk", "args": ["v1"], "chunks": [[n], [m]], "out": "v2"}
    k = rng.randint(1, n - 1)
    split = {"op": "rechunk", "args": ["v2"], "chunks": [[k, n - k], [m]], "out": "v3"}
    i0 = rng.randint(0, n - 2)
    setit = lambda a, o: {"op": "setitem", "args": [a], "index": [["s", i0, i0 + 2, None]], "value": rng.randint(-9, 9), "out": o}
    w = rng.randint(1, n - 1)
    swv = lambda a, o: {"op": "swv_reduce", "args": [a], "window": w, "axis": 0, "fn": rng.choice(["sum", "max", "min"]), "out": o}
    cum = lambda a, o: {"op": "cumsum", "args": [a], "axis": rng.randrange(2), "method": rng.choice(["sequential", "blelloch"]), "out": o}
    ident = lambda a, o: {"op": "map_ident", "args": [a], "fn": "ident", "out": o}
    ast = lambda a, o, dt="int64": {"op": "astype", "args": [a], "dtype": dt, "out": o}
    wh = lambda a, o: {"op": "where_scalar", "args": [a], "mod": 2, "fill": -1, "out": o}
    # 1 setitem on a source / on split views / after identity map_blocks / after same-dtype astype
    out.append(([src, setit("v1", "v4")], ["v4", "v1"]))
    out.append(([src, one, split, setit("v3", "v4")], ["v4", "v3", "v1"]))
    out.append(([src, ident("v1", "v2"), setit("v2", "v4")], ["v4", "v2", "v1"]))
    out.append(([src, ast("v1", "v2"), setit("v2", "v4"), ast("v4", "v5", "int32")], ["v5", "v4", "v2", "v1"]))
    # 2 sliding-window reductions and scans over views
    out.append(([src, one, split, swv("v3", "v4")], ["v4", "v3"]))
    out.append(([src, swv("v1", "v4"), cum("v1", "v5")], ["v4", "v5", "v1"]))
    out.append(([src, one, split, cum("v3", "v4"), setit("v4", "v5")], ["v5", "v4", "v3"]))
    out.append(([src, ident("v1", "v2"), cum("v2", "v4"), wh("v2", "v5")], ["v4", "v5", "v2"]))
    # 3 slices that are views of big blocks feeding in-place-prone consumers
    gi = {"op": "getitem", "args": ["v2"], "index": [["s", 0, n - 1, None]], "out": "v3"}
    out.append(([src, one, gi, setit("v3", "v4"), cum("v3", "v5")], ["v4", "v5", "v3", "v2"]))
    out.append(([src, one, gi, ident("v3", "v6"), swv("v6", "v4")], ["v4", "v6", "v3"]))
    # 4 a MaskedArray value assigned into plain blocks (the kernel views the block as masked before copying)
    nd = rng.randint(2, n - 1)
    msk = lambda a, o: {"op": "setitem_masked", "args": [a], "index": [["s", 0, nd, None]], "data": [rng.randint(-9, 9) for _ in range(nd * m)],
                        "mask": [rng.random() < 0.4 for _ in range(nd * m)], "vshape": [nd, m], "out": o}
    out.append(([src, msk("v1", "v4")], ["v4", "v1"]))
    out.append(([src, one, msk("v2", "v4")], ["v4", "v2", "v1"]))
    out.append(([src, one, split, msk("v3", "v4"), cum("v3", "v5")], ["v4", "v5", "v3"]))
    # 5 ufunc(where=<array>, out=<dask array>): the out block owns its data (single-chunk source / persisted)
    osrc = {"op": "src", "shape": shape, "chunks": [[n], [m]], "mul": 3, "off": 1, "mod": 1 << 20, "out": "v7"}
    per = {"op": "persist", "args": ["v7"], "out": "v8"}
    wo = lambda o_in, o: {"op": "ufunc_where_out", "args": ["v2", "v2", "v2", o_in], "mod": 2, "out": o}
    out.append(([src, one, osrc, wo("v7", "v9")], ["v9", "v7"]))
    out.append(([src, one, osrc, per, wo("v8", "v9")], ["v9", "v8"]))
    out.append(([src, one, osrc, per, wo("v8", "v9"), cum("v8", "v10")], ["v10", "v9", "v8"]))
    per1 = {"op": "persist", "args": ["v1"], "out": "v8"}
    out.append(([src, per1, setit("v8", "v4"), cum("v8", "v5")], ["v4", "v5", "v8"]))
    return out


def run(ctx, replay=None):
    rng = ctx.rng
    t_run = time.time()  # budgets are relative to the start of the search, not to the Lean build/audit
    ctx.rule = (
        "seeded random array programs (harness.programs incl. setitem, astype, identity map_blocks, split-rechunks whose "
        "pieces are views, sliding-window reductions, cumsum, MaskedArray setitem values, ufunc(where=, out=<dask array>), "
        "persisted arrays, creation ops, concatenate=True blockwise) with 1-3 roots executed as ONE merged graph, x optimize-graph "
        "on/off, plus 17 templates aimed at the in-place-prone kernels; each graph executed in FIFO, LIFO and N seeded random "
        "topological orders with dependency fingerprinting, then by dask's sync and 4-thread schedulers; an evaluation = one "
        "execution of one graph; distinct = (optimize flag, set of materialized layer classes).  PLUS the operation catalogue "
        "(props_ext/c10_ops: ~180 public operations; props_ext/c10_cases: stratified sweep enumerating in EVERY run "
        "quantile/nanquantile x keepdims x overwrite_input x {reduced axis in one chunk, ragged, first chunk 1}, median/nanmedian, "
        "percentile/nanpercentile, topk/argtopk, all reductions (axis/keepdims/split_every/ddof/dtype/out=), cumulative ops x method, "
        "map_overlap(bottleneck.move_*) x min_count {default, 1, k} x rolling-axis chunking {first chunk 1, last chunk 1, all ones, "
        "ragged < window, >= window, one chunk}, push, map_overlap boundaries, sliding_window_view reductions, ufunc out=/where=, "
        "in-place spellings, clip/round/nan_to_num(copy=)/astype(copy=), setitem, store, tensordot/einsum/matmul, fft, linalg, "
        "unique/searchsorted/histogram/bincount/take/shuffle, pad/roll/concatenate/reshape/...; x input stage {from_array block itself, "
        "identity map_blocks, elementwise copy, slice view, merged+split views, persisted} x sibling consumer): each case on the per-root "
        "merged graph AND on the joint graph of dask.compute, FIFO/LIFO/random orders, fingerprints of every dependency around every task "
        "and of EVERY value at the end, two sync + two 4-thread computes, then x.compute() and a fresh from_array of identical data; "
        "distinct there = (op, input stage, optimize) and (op, flag kwargs, chunk classes).  The catalogue's HEAD family (enumerated "
        "in every sweep) are operations taking OTHER dask arrays as arguments: x[idx] / take / setitem with integer indexers holding "
        "negative entries in every integer dtype (the same indexer applied to arrays of two lengths in one graph), 1-D and n-D boolean "
        "masks, compress/extract/choose/select/where/piecewise/digitize/searchsorted/histogram/bincount/isin/(un)ravel_index with "
        "collection arguments, NumPy key arrays (watched): every argument collection is a root, a fingerprinted dependency and is "
        "re-computed afterwards; in every catalogue case every array a stock compute returned is then OVERWRITTEN in place before the "
        "next compute.  PLUS result ownership (c10_own: stage {plain, derived, persisted source, persisted derived} x {one chunk, "
        "several} x 19 accessors incl. chunk-aligned slices, blocks, np.asarray, joint computes (to_delayed: one fixed probe of the known finding); overwrite every returned "
        "array, then the user's array / x.compute() / (x+0).compute() / arrays returned earlier must be unchanged) and lock discipline "
        "(c10_locks: shared-cursor source behind from_array(lock=True | threading.Lock | SerializableLock | recording lock) x 13 families "
        "of 2-3 pushed-down views in one graph (slice pairs, slice+rechunk, strided, columns, slice of slice, blocks, transposed, int / "
        "list rows, joint roots) x from_array kwargs; static: exactly one lock object in the graph; recording lock: every read holds "
        "it; 4 threads: reentrancy counter with a bounded rendezvous wait; values vs NumPy; store into one shared-cursor target).  PLUS build-time "
        "vs run-time configuration (c10_buildtime): a lazy object (store(compute=False) single / several pairs into one target by regions / "
        "distinct targets / return_stored / to_delayed blocks, the load-stored arrays of an eager store(return_stored=True), "
        "from_array(lock=...) views, map_blocks carrying a lock object, from_array(lock) -> store pipe) x lock {default, True, threading, "
        "SerializableLock, recording} BUILT under dask.config A in {nothing, scheduler = sync / synchronous / single-threaded / threads / "
        "threading / get_sync callable / threaded get callable, num_workers=1, sync+num_workers=1, pool of 1, threads+8 workers} and RUN "
        "under B in {threads 4 kwargs, threading 6 kwargs, threads 8 config, pool 4 config, pool 5 kwarg, threaded get callable 4, the "
        "default, sync kwarg / config, single-threaded} by dask.compute / .compute() per root / persist: store with the default lock over "
        "ALL sync-like A x ALL threaded B (other A: two B each, rotating), every other family once per run with rotating A; targets / "
        "sources have one shared cursor, a read-modify-write write log, a reentrancy counter with bounded rendezvous and (recording lock) "
        "a holder check; static lock walk of the graph decides how long the rendezvous waits; an observed failure is re-run 3 times"
    )
    ctx.assumptions = [
        "C10_topo_eval_unique assumes every task is a pure function of its dependency values; that assumption is MONITORED "
        "(dependency and source fingerprints before/after every task / execution), not proved: the theorem cannot exhibit a mutation",
        "threaded execution reduces to the theorem only under that purity assumption; true interleavings inside NumPy/BLAS "
        "and the GIL are outside the model (the 4-thread scheduler is run several times and compared)",
        "fingerprint = sha1 of dtype, shape and bytes (containers recursively); opaque Python objects are compared by type only",
        "programs in the documented defect families are not generated (swv-layout-drift, take-through-broadcast, minmax-zero-size); "
        "graphs on which every order raises the same exception are counted and skipped (value errors belong to C01/C11)",
    ]
    if replay is not None:
        case = replay["case"] if "case" in replay else replay
        if case.get("kind") in ("cat", "lock", "own", "bt"):
            mod = {"cat": c10_catalog, "lock": c10_locks, "own": c10_own, "bt": c10_buildtime}[case["kind"]]
            for sig, detail in mod.run_case(ctx, case) or []:
                ctx.fail(sig, case, detail)
            return
        for sig, detail in run_case(ctx, case) or []:
            ctx.fail(sig, case, detail)
        return
    norders = ctx.scale(3, 8)
    ctx.c10_pairs = []
    ctx.c10_limit = ctx.scale(1500, 12000)
    for _ in range(ctx.scale(1, 6)):
        c10_own.run(ctx, ctx.scale(3, 10))
        c10_locks.run(ctx, ctx.scale(6, 12))
        c10_buildtime.run(ctx, ctx.scale(12, 25))  # build-time vs run-time configuration of lazy store / from_array / map_blocks objects
    ctx.notes["own+lock.seconds"] = round(time.time() - t_run, 1)
    t_run = time.time()  # the budgets below are those of the catalogue / program search alone
    catalogue(ctx, t_run)
    n = ctx.scale(200, 6000)
    budget = ctx.scale(48, 510)  # thorough: the ownership / lock streams above take ~30 s of the 10 min
    for it in range(n):
        if time.time() - t_run > budget:
            ctx.notes["stopped_early_at"] = it
            break
        if it % 4 == 3:
            cands = targeted_programs(rng)
            prog, roots = cands[rng.randrange(len(cands))]
            if programs.in_known_class(prog) is not None:
                continue
        else:
            prog, npenv = programs.gen_clean_program2(rng, rng.randint(2, 6))
            names = [st["out"] for st in prog]
            roots = [names[-1]] + rng.sample(names[:-1], min(len(names) - 1, rng.randint(0, 2)))
        for opt in (True, False):
            case = {"prog": prog, "roots": roots, "optimize": opt, "orders": norders, "oseed": rng.randrange(10**6), "threads": 2}
            fails = run_case(ctx, case)
            if it < 2 and opt:
                ctx.sample({"roots": roots, "optimize": opt, "ops": [st["op"] for st in prog]})
            if fails:
                report(ctx, case, fails)
    known_probe(ctx)
    pairs, ctx.c10_pairs = ctx.c10_pairs, None
    ctx.correspond("topological-order(executor, dask threads, controls)", pairs,
                   branch_key=lambda req, model: (model, min(len(req) // 50, 20)))
    if ctx.disagreements:
        ctx.notes["targeted_search"] = "every graph of this run was executed in all those orders and compared (search above)"


def catalogue(ctx, t_run):
    """the operation catalogue (harness/props_ext/c10_*): stratified sweeps, every case executed with dependency /
    whole-graph fingerprints in several orders on the per-root and on the joint graph, computed twice by the sync
    and the threaded scheduler, sources re-computed afterwards"""
    rng = ctx.rng
    sweeps = ctx.scale(2, 8)  # the time budget may cut the second sweep of a quick run short (never the first one's head)
    budget = ctx.scale(33, 260)
    norders = ctx.scale(2, 5)
    sampled = set()
    for sweep in range(sweeps):
        cases = c10_cases.gen_cases(rng)
        ctx.notes["cat.generated"] = ctx.notes.get("cat.generated", 0) + len(cases)
        for c in cases:
            if time.time() - t_run > budget:
                ctx.notes["cat.stopped_early"] = ctx.notes.get("cat.stopped_early", 0) + 1
                continue
            opts = (True, False) if c.pop("both", False) else ((True,) if rng.random() < 0.5 else (False,))
            for opt in opts:
                case = dict(c, optimize=opt, orders=norders, oseed=rng.randrange(10**6), threads=ctx.scale(1, 2))
                fails = c10_catalog.run_case(ctx, case)
                if c["family"] not in sampled and fails is not None:
                    sampled.add(c["family"])
                    ctx.sample({"catalogue": c["family"], "op": c["op"], "kw": c["kw"], "chunks": [s["chunks"] for s in c["src"]], "pre": c["pre"]})
                if fails:
                    c10_catalog.report(ctx, case, fails)


def known_probe(ctx):
    c10_own.known_probe(ctx)
    prog = [
        {"op": "src", "shape": [4, 5], "chunks": [[2, 2], [3, 2]], "mul": 1, "off": 0, "mod": 1 << 40, "out": "v1"},
        {"op": "swv_reduce", "args": ["v1"], "window": 2, "axis": 1, "fn": "max", "out": "v2"},
        {"op": "broadcast_to", "args": ["v2"], "shape": [2, 4, 4], "out": "v3"},
    ]
    case = {"prog": prog, "roots": ["v3"], "optimize": True, "orders": 1, "oseed": 0, "threads": 1}
    for sig, detail in run_case(ctx, case, count=False) or []:
        ctx.fail(sig, case, detail)
