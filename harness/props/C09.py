"""C09 — results do not depend on materialization history or planner configuration.

Lean side (Props/C09.lean over Model/Entry.lean, namespace Dask.Memo): the shared name-keyed lowering cache
with oracle-quantified planner choices; C09_memo_sound / C09_history_config_independent /
C09_optout_never_enters; the generated table Generated/ConfigReads.lean (harness/translate/configreads.py)
with the `decide`d obligation "configuration keys readable from lowering ⊆ documented list".

Tie to the code (every run):
  * translator: the config-read table is regenerated from the working tree (a new read in lowering breaks
    the obligation → targeted search varying that key);
  * the model's cache invariant is MONITORED on the real `_LOWER_CACHE` after every history: every entry whose
    key is the raw name of a program variable computes to that variable's NumPy value; no opt-out node
    (RootAlias / FromGraph / exact-name FromArray) is stored under its own name, and their `lower_once`
    returns `self` without touching the cache (model clause `if S.optsOut e then (e, c)`).
Search (oracle = NumPy): histories of build / graph / compute / persist / drop / config-change over families
of programs sharing subtrees, started from clean registries; config points crossed with four timing modes.
"""
from __future__ import annotations

import contextlib
import gc
import json
import os
import subprocess
import sys
import warnings

import numpy as np

from harness import core, programs

# ------------------------------------------------------------------------------ config domain

CONFIG_DOMAIN = {
    "array.optimize-graph": [True, False],
    "array.rechunk.threshold": [1, 4, 32],
    "array.rechunk.degree-limit": [2, 3, 100],
    "array.rechunk.method": [None, "tasks"],
    "array.chunk-size": ["16B", "1KiB", "128MiB"],
    "array.chunk-size-tolerance": [1.25, 1.0, 2.0],
    "array.unify-chunks-policy": ["auto", "coarse", "refine"],
    "array.unify-chunks-limit": [None, "8B", "1KiB"],
    "split_every": [None, 2, 3, 16],
}
# the list Props/C09.lean documents for the lowering phase (kept in step with `documentedLoweringKeys`)
DOCUMENTED_LOWERING = (
    "array.optimize-graph", "array.rechunk.method", "array.chunk-size", "array.chunk-size-tolerance",
    "array.unify-chunks-policy", "array.unify-chunks-limit", "split_every",
)
GENERIC_VALUES = [None, True, False, 0, 1, 2, 3, 1000, "16B", "1KiB", "tasks", "auto", "coarse", "refine"]
MODES = ("construct-only", "compute-only", "both", "changed")


SIG_UNIFY_DRIFT = "unify-policy-drift"
NO_SHRINK = ("swv-layout-drift", "reshape-int-slice-pushdown")


def unify_setting(pt):
    return (pt.get("array.unify-chunks-policy", "auto"), pt.get("array.unify-chunks-limit", "512 MiB"))


def unify_drift(prog, unify_settings):
    """≥ 2 different (unify policy, limit) settings were in force between construction and materialization, and
    the program has an elemwise (binary) op that is consumed by a later step: the consumer (broadcast_to, reshape,
    sliding-window / tree reduction, …) was built against the chunks the elemwise node ADVERTISED under the
    first setting, the node is LOWERED under the second one."""
    if len(set(unify_settings)) < 2:
        return False
    binouts = {st["out"] for st in prog if st["op"] in programs.BINARY}
    return any(binouts & set(st.get("args", [])) for st in prog)


def classify(prog, msg, unify_settings=()):
    """documented defect families (shared list + the reshape/integer-index pushdown IndexError + the
    unify-policy drift: an elemwise node's ADVERTISED chunks are computed under the unify policy / limit in
    force at construction and captured by its consumer, its LOWERING unifies under the policy in force at
    materialization: with two different settings the consumer references blocks that do not exist)"""
    k = programs.classify_known(prog, msg)
    if k:
        return k
    if unify_drift(prog, unify_settings) and msg.startswith("ValueError"):
        return SIG_UNIFY_DRIFT
    if "IndexError: tuple index out of range" in msg:
        anc = programs.prog_ancestry(prog)
        for st in prog:
            if st["op"] == "getitem" and any(isinstance(i, int) for i in st["index"]) and "reshape" in anc.get(st["args"][0], ()):
                return "reshape-int-slice-pushdown"
    return None


def rand_point(rng, p_default=0.35, domain=None):
    """A config point: each key either left at its default (absent) or drawn from its domain."""
    domain = domain or CONFIG_DOMAIN
    pt = {}
    for k, vals in domain.items():
        if rng.random() > p_default:
            v = rng.choice(vals)
            if k == "split_every" and v is None:
                continue  # None = "not set" (an explicit None is rejected by `_normalize_split_every`, as in dask)
            pt[k] = v
    return pt


def translate(ctx):
    from harness.translate import configreads

    info = configreads.generate()
    ctx.extra["config_reads"] = {
        "sites": len({(a, b) for a, b, _ in info["rows"]}), "rows": len(info["rows"]),
        "lowering_keys": info["lowering"], "functions_scanned": info["nfunctions"], "reachable": info["reach"],
        "table_changed": info["changed"],
    }
    ctx.notes["lowering_keys"] = list(info["lowering"])


# ------------------------------------------------------------------------------ building

class Refused(Exception):
    pass


def run_da(prog):
    """programs.run_da plus exact-name sources (`"exact": name` on a src step → from_array(..., name=name))."""
    import dask_array as da

    env = {}
    for step in prog:
        if step["op"] == "src" and step.get("exact"):
            env[step["out"]] = da.from_array(programs.source_data(step), chunks=tuple(tuple(c) for c in step["chunks"]), name=step["exact"])
        else:
            env[step["out"]] = programs.apply_step(step, env, da, True)
    return env


def extend(rng, prog, nsteps, tries=30):
    """Continue `prog` by `nsteps` random steps (sharing the whole prefix), outside the known defect classes."""
    for _ in range(tries):
        g = programs.ProgGen(rng, avoid=("swv-consumer",), zero_axes=0)
        for st in prog:
            st = dict(st)
            g.env[st["out"]] = programs.apply_step(st, g.env, np, False)
            g.prog.append(st)
            t = {"swv"} if st["op"] == "swv_reduce" else set()
            if st["op"] == "broadcast_to":
                t.add("bcast")
            for a in st.get("args", []):
                t |= g.tags.get(a, set())
            g.tags[st["out"]] = t
            g.k = max(g.k, int(st["out"][1:]))
        for _ in range(nsteps):
            g.step()
        if programs.in_known_class(g.prog, g.env) is None:
            return g.prog
    return list(prog)


def gen_family(rng, k):
    """k programs sharing a common prefix; some are the SAME program (rebuilt twice)."""
    base, _ = programs.gen_clean_program(rng, rng.randint(1, 3))
    if rng.random() < 0.3:
        for st in base:
            if st["op"] == "src":
                st["exact"] = f"exact-{rng.getrandbits(40):x}"
                break
    fam = []
    for i in range(k):
        if fam and rng.random() < 0.25:
            fam.append([dict(s) for s in rng.choice(fam)])
        else:
            fam.append(extend(rng, base, rng.randint(1, 3)))
    return fam


def gen_reduce_family(rng):
    """The SAME reduction over the SAME many-block input, built with different split_every (keyword, or the
    `split_every` config key in force at construction), every one kept alive, computed in both orders.
    Returns (family, steps)."""
    n = rng.choice([8, 9, 12, 16, 16])
    nd = rng.choice([1, 1, 2])
    shape = [n] + ([rng.randint(2, 3)] if nd == 2 else [])
    chunks = [[1] * n] + ([[shape[1]]] if nd == 2 else [])
    if rng.random() < 0.3:
        chunks[0] = [2] * (n // 2) + ([1] if n % 2 else [])
    base = [{"op": "src", "shape": shape, "chunks": chunks, "mul": rng.choice([1, 3, 7]), "off": rng.randint(-5, 5), "mod": 1 << 40, "out": "v1"}]
    cur = "v1"
    if rng.random() < 0.5:
        base.append({"op": rng.choice(["affine", "sq", "neg"]), "args": ["v1"], "out": "v2"})
        cur = "v2"
    fn = rng.choice(["sum", "sum", "max", "min"])
    axis = rng.choice([0, 0, None]) if nd == 2 else rng.choice([0, None])
    keep = rng.random() < 0.3
    ses = rng.sample([2, 3, 4, 8, 16, "cfg2", "cfg4", "cfg3"], rng.randint(3, 5))
    fam, steps = [], []
    for i, se in enumerate(ses):
        kw = None if isinstance(se, str) else se
        fam.append([dict(st) for st in base] + [{"op": "reduce", "fn": fn, "args": [cur], "axis": axis, "keepdims": keep, "split_every": kw, "out": "v9"}])
    order = list(range(len(ses)))
    rng.shuffle(order)
    in_cfg = False
    for i in order:
        if isinstance(ses[i], str):
            steps.append(["cfg", {"split_every": int(ses[i][3:])}])
            in_cfg = True
        elif in_cfg and rng.random() < 0.5:
            steps.append(["cfg", {}])
            in_cfg = False
        steps.append(["build", i])
        if rng.random() < 0.7:
            steps.append(["compute", i, "root", 0])
        elif rng.random() < 0.5:
            steps.append(["graph", i])
    if in_cfg and rng.random() < 0.7:
        steps.append(["cfg", {}])
    for i in reversed(order):  # everything is still alive: compute all, in the opposite order
        steps.append(["compute", i, "root", 0])
    return fam, steps


def gen_history(rng, fam):
    """Seeded random interleaving of build / graph / compute / persist / derived / drop / cfg steps."""
    steps = []
    k = len(fam)
    built = set()
    n = rng.randint(2 * k, 4 * k + 4)
    for _ in range(n):
        r = rng.random()
        i = rng.randrange(k)
        if r < 0.12:
            steps.append(["cfg", rand_point(rng, p_default=0.5)])
        elif i not in built or r < 0.25:
            steps.append(["build", i])
            built.add(i)
        elif r < 0.40:
            steps.append(["graph", i])
        elif r < 0.75:
            steps.append(["compute", i, rng.choice(["root", "root", "any"]), rng.randrange(1 << 16)])
        elif r < 0.85:
            steps.append(["persist", i])
        elif r < 0.93:
            steps.append(["derived", i])
        else:
            steps.append(["drop", i])
            built.discard(i)
    # every program is computed at least once at the end
    for i in range(k):
        if i not in built:
            steps.append(["build", i])
        steps.append(["compute", i, "root", 0])
    return steps


# ------------------------------------------------------------------------------ state

def clear_state():
    """Clean registries: the shared lowering cache and every singleton registry."""
    import dask._expr as DE
    from dask_array import _materialize as M

    M._LOWER_CACHE.clear()
    stack = [DE.SingletonExpr]
    seen = set()
    while stack:
        c = stack.pop()
        if c in seen:
            continue
        seen.add(c)
        stack.extend(c.__subclasses__())
        inst = c.__dict__.get("_instances")
        if inst is not None:
            inst.clear()
    gc.collect()


class OptOutMonitor:
    """Wraps the `lower_once` of the opt-out classes: must return `self` and leave `lowered` untouched."""

    def __init__(self):
        self.bad = []
        self.calls = 0
        self._undo = []

    def __enter__(self):
        from dask_array._expr import RootAlias
        from dask_array.io._from_array import FromArray
        from dask_array.io._from_graph import FromGraph

        mon = self

        def wrap(cls, is_optout):
            orig = cls.lower_once
            had = "lower_once" in cls.__dict__

            def lower_once(self, lowered, _orig=orig):
                if not is_optout(self):
                    return _orig(self, lowered)
                before = len(lowered)
                nm = self._name
                had_key = nm in lowered
                out = _orig(self, lowered)
                mon.calls += 1
                if out is not self or len(lowered) != before or ((nm in lowered) != had_key):
                    mon.bad.append(f"{type(self).__name__}.lower_once({nm}): returned {'self' if out is self else type(out).__name__}, "
                                   f"cache size {before}->{len(lowered)}")
                return out

            cls.lower_once = lower_once
            self._undo.append((cls, had, orig))

        wrap(RootAlias, lambda e: True)
        wrap(FromGraph, lambda e: True)
        wrap(FromArray, lambda e: bool(e.operand("_name_is_exact")))
        return self

    def __exit__(self, *a):
        for cls, had, orig in self._undo:
            if had:
                cls.lower_once = orig
            else:
                del cls.lower_once
        self._undo = []


def is_optout(e):
    n = type(e).__name__
    if n in ("RootAlias", "FromGraph"):
        return True
    if n == "FromArray":
        try:
            return bool(e.operand("_name_is_exact"))
        except Exception:
            return False
    return False


def same(got, want):
    try:
        got = np.asarray(got)
        want = np.asarray(want)
    except Exception:
        return False
    if got.dtype == object or got.shape != want.shape:
        return False
    if want.dtype.kind == "f" or got.dtype.kind == "f":
        return bool(np.allclose(got, want, rtol=1e-12, atol=0, equal_nan=True))
    return bool(np.array_equal(got, want))


def show(v):
    try:
        return repr(np.asarray(v).tolist())[:160]
    except Exception:
        return repr(v)[:160]


# ------------------------------------------------------------------------------ one history

def run_history(ctx, case, count=True, monitor=True):
    """case = {"progs": [...], "steps": [...], "prelude": [case…]?}.  Starts from clean registries (after the
    prelude histories of the same epoch).  Returns (failures [(sig, detail, step_index)], disagreements [str])."""
    import dask
    from dask_array import _materialize as M
    from dask_array._new_collection import new_collection

    fails, disag = [], []
    clear_state()
    for pre in case.get("prelude") or []:
        _run_steps(ctx, pre, [], [], count=False, monitor=False, cleared=True)
    _run_steps(ctx, case, fails, disag, count, monitor, cleared=True)
    out = []
    for sig, detail, si in fails:
        if sig != "history:build-raises-check":
            out.append((sig, detail, si))
            continue
        _, i, msg = detail
        clear_state()
        try:
            with warnings.catch_warnings():
                warnings.simplefilter("ignore")
                run_da(case["progs"][i])
        except Exception:
            if count:
                ctx.notes["construction_raises_under_default"] = ctx.notes.get("construction_raises_under_default", 0) + 1
            continue
        out.append((classify(case["progs"][i], msg) or "history:build-raises", f"step {si}: building prog {i} raised {msg} (fine from clean registries under the default configuration)", si))
    return out, disag


def _run_steps(ctx, case, fails, disag, count, monitor, cleared):
    import dask
    from dask_array import _materialize as M
    from dask_array._new_collection import new_collection

    progs = case["progs"]
    npenvs = [programs.run_np(p) for p in progs]
    envs = {}
    persisted = {}
    names = {}  # raw name -> (prog idx, var)
    with contextlib.ExitStack() as outer, warnings.catch_warnings():
        warnings.simplefilter("ignore")
        mon = outer.enter_context(OptOutMonitor()) if monitor else None
        cfgstack = outer.enter_context(contextlib.ExitStack())
        cur_cfg = {}
        useen = []
        hist_build_errors = []
        for si, st in enumerate(case["steps"]):
            act = st[0]
            try:
                if act == "cfg":
                    cfgstack.close()
                    cur_cfg = dict(st[1])
                    cfgstack.enter_context(dask.config.set(cur_cfg))
                    continue
                useen.append(unify_setting(cur_cfg))
                i = st[1]
                if act == "build":
                    try:
                        envs[i] = run_da(progs[i])
                    except NotImplementedError:
                        envs.pop(i, None)
                        continue
                    except ValueError as e:
                        # refused at construction: C09's only if it depends on the history / configuration
                        envs.pop(i, None)
                        if cur_cfg or si > 0:
                            hist_build_errors.append((si, i, f"{type(e).__name__}: {str(e)[:160]}"))
                        continue
                    for v, x in envs[i].items():
                        names[x.name] = (i, v)
                    continue
                if i not in envs:
                    continue
                root = progs[i][-1]["out"]
                if act == "graph":
                    envs[i][root].__dask_graph__()
                elif act == "compute":
                    var = root if st[2] == "root" else sorted(envs[i])[st[3] % len(envs[i])]
                    got = envs[i][var].compute(scheduler="sync")
                    if count:
                        ctx.count(("hist", act, st[2], bool(cur_cfg), len(progs)))
                    if not same(got, npenvs[i][var]):
                        fails.append((SIG_UNIFY_DRIFT if unify_drift(progs[i], useen) else "history:value-mismatch", f"step {si} compute prog {i} var {var} under {cur_cfg}: {show(got)} expected {show(npenvs[i][var])}", si))
                elif act == "persist":
                    persisted[i] = envs[i][root].persist(scheduler="sync")
                elif act == "derived":
                    base = persisted.get(i, envs[i][root])
                    got = (base * 2 + 1).compute(scheduler="sync")
                    if count:
                        ctx.count(("hist", act, i in persisted, bool(cur_cfg)))
                    if not same(got, npenvs[i][root] * 2 + 1):
                        fails.append((SIG_UNIFY_DRIFT if unify_drift(progs[i], useen) else "history:derived-value-mismatch", f"step {si} (x*2+1) over {'persisted ' if i in persisted else ''}prog {i} under {cur_cfg}: {show(got)} expected {show(npenvs[i][root] * 2 + 1)}", si))
                elif act == "drop":
                    envs.pop(i, None)
                    persisted.pop(i, None)
                    gc.collect()
            except NotImplementedError:
                continue
            except Exception as e:
                msg = f"{type(e).__name__}: {e}"
                sig = classify(progs[st[1]] if isinstance(st[1], int) else progs[0], msg, useen) or f"history:raises:{type(e).__name__}"
                fails.append((sig, f"step {si} {st[:2]} under {cur_cfg} raised {msg[:240]}", si))
        cfgstack.close()
        for si, i, msg in hist_build_errors:
            fails.append(("history:build-raises-check", (si, i, msg), si))
        # ---- monitor the model's cache invariant on the real cache
        if monitor:
            try:
                entries = list(M._LOWER_CACHE.items())
            except RuntimeError:
                entries = []
            for key, val in entries:
                if is_optout(val) and val._name == key:
                    disag.append(f"_LOWER_CACHE[{key!r}] is a {type(val).__name__} stored under its own (pinned / caller-chosen) name")
                if key in names:
                    i, v = names[key]
                    if i not in envs:
                        continue
                    try:
                        got = new_collection(val).compute(scheduler="sync")
                    except Exception as e:
                        disag.append(f"_LOWER_CACHE[{key!r}] ({type(val).__name__}) does not compute: {type(e).__name__}: {str(e)[:120]}")
                        continue
                    ctx.traces += 1 if count else 0
                    if not same(got, npenvs[i][v]):
                        fails.append(("cache:entry-wrong-meaning", f"_LOWER_CACHE[{key!r}] (raw name of prog {i} var {v}) computes {show(got)}, the variable means {show(npenvs[i][v])}", len(case["steps"]) - 1))
            if mon is not None:
                disag.extend(mon.bad)
                if count:
                    ctx.notes["optout_lower_once_calls"] = ctx.notes.get("optout_lower_once_calls", 0) + mon.calls
                    ctx.notes["cache_entries_monitored"] = ctx.notes.get("cache_entries_monitored", 0) + len(entries)


def shrink_prog(prog, still, max_iter=150):
    """Verified greedy shrinking of one program: every accepted candidate still fails.  Unlike
    programs.shrink it never drops "unused" steps unchecked — in C09 a sibling that is merely BUILT is part of the
    history (it shares singleton nodes and their cached metadata with the failing root)."""
    prog = list(prog)
    it = 0
    changed = True
    while changed and it < max_iter:
        changed = False
        for k in range(len(prog) - 2, -1, -1):
            out = prog[k]["out"]
            users = [st for st in prog[k + 1:] if out in st.get("args", []) or st.get("value") == out]
            it += 1
            if not users:
                cand = prog[:k] + prog[k + 1:]
            elif prog[k]["op"] != "src" and len(prog[k].get("args", [])) == 1:
                sub = prog[k]["args"][0]
                cand = []
                for s2 in prog[:k] + prog[k + 1:]:
                    s2 = dict(s2)
                    if "args" in s2:
                        s2["args"] = [sub if a == out else a for a in s2["args"]]
                    cand.append(s2)
            else:
                continue
            try:
                programs.run_np(cand)
                if still(cand):
                    prog = cand
                    changed = True
                    break
            except Exception:
                continue
    return prog


def shrink_history(ctx, case, sig):
    """Greedy: drop the prelude, steps, programs, config keys while the signature still fails."""
    def still(c):
        f, _ = run_history(ctx, c, count=False, monitor=sig.startswith("cache:"))
        return any(s == sig for s, _, _ in f)

    cur = json.loads(json.dumps(case))
    if cur.get("prelude") and still(dict(cur, prelude=[])):
        cur["prelude"] = []
    changed = True
    it = 0
    while changed and it < 120:
        changed = False
        for k in range(len(cur["steps"]) - 1, -1, -1):
            it += 1
            c = dict(cur, steps=cur["steps"][:k] + cur["steps"][k + 1:])
            if c["steps"] and still(c):
                cur = c
                changed = True
        # config keys
        for k, st in enumerate(cur["steps"]):
            if st[0] == "cfg":
                for key in list(st[1]):
                    it += 1
                    pt = {a: b for a, b in st[1].items() if a != key}
                    c = dict(cur, steps=cur["steps"][:k] + [["cfg", pt]] + cur["steps"][k + 1:])
                    if still(c):
                        cur = c
                        st = c["steps"][k]
                        changed = True
    # drop unused programs
    used = sorted({st[1] for st in cur["steps"] if st[0] != "cfg"})
    remap = {o: n for n, o in enumerate(used)}
    c = {"progs": [cur["progs"][o] for o in used], "prelude": cur.get("prelude") or [],
         "steps": [st if st[0] == "cfg" else [st[0], remap[st[1]]] + st[2:] for st in cur["steps"]]}
    if used and still(c):
        cur = c
    # shrink each program
    for i in range(len(cur["progs"])):
        def sf(p, i=i):
            return still(dict(cur, progs=cur["progs"][:i] + [p] + cur["progs"][i + 1:]))
        try:
            cur["progs"][i] = shrink_prog(cur["progs"][i], sf, max_iter=40)
        except Exception:
            pass
    return cur


# ------------------------------------------------------------------------------ config crossing

def run_config_case(ctx, case, count=True):
    """case = {"prog", "mode", "pt1", "pt2", "pt3"}; clean registries first (replayable from the dict).
    Returns list of (sig, detail)."""
    import dask
    from dask_array._new_collection import new_collection

    prog, mode = case["prog"], case["mode"]
    pt1, pt2, pt3 = case.get("pt1") or {}, case.get("pt2") or {}, case.get("pt3") or {}
    want = programs.run_np(prog)
    root = prog[-1]["out"]
    fails = []
    clear_state()
    useen = {"construct-only": [pt1, {}], "compute-only": [{}, pt2], "both": [pt1], "changed": [pt1, pt2, pt3]}[mode]
    useen = [unify_setting(p) for p in useen]

    def check(label, f, w):
        try:
            got = f()
        except NotImplementedError:
            return
        except Exception as e:
            msg = f"{type(e).__name__}: {e}"
            fails.append((classify(prog, msg, useen) or f"config:raises:{type(e).__name__}", f"{mode}/{label}: raised {msg[:240]} (pt1={pt1} pt2={pt2} pt3={pt3})"))
            return
        if count:
            ctx.count(("cfg", mode, label, tuple(sorted(pt1)), tuple(sorted(pt2))))
        if not same(got, w):
            fails.append((SIG_UNIFY_DRIFT if unify_drift(prog, useen) else "config:value-mismatch", f"{mode}/{label}: {show(got)} expected {show(w)} (pt1={pt1} pt2={pt2} pt3={pt3})"))

    with warnings.catch_warnings():
        warnings.simplefilter("ignore")
        try:
            if mode == "compute-only":
                env = run_da(prog)
            else:
                with dask.config.set(pt1):
                    env = run_da(prog)
        except NotImplementedError:
            return None
        except Exception as e:
            msg = f"{type(e).__name__}: {e}"
            # a construction that also raises under the DEFAULT configuration from clean registries is a C01 matter
            # (e.g. broadcasting against a size-1 axis chunked (1, 0)); only a config-dependent refusal is C09's
            clear_state()
            try:
                run_da(prog)
            except Exception:
                if count:
                    ctx.notes["construction_raises_under_default"] = ctx.notes.get("construction_raises_under_default", 0) + 1
                    lst = ctx.extra.setdefault("construction_raises_samples", [])
                    if len(lst) < 3:
                        lst.append({"prog": prog, "error": msg[:200]})
                return None
            return [(classify(prog, msg) or f"config:build-raises:{type(e).__name__}", f"construction under {pt1} raised {msg[:240]} (fine under the default configuration)")]
        x = env[root]
        from harness.props_ext import c04_drift

        # the value taken KEY BY KEY from __dask_graph__() under the advertised keys (always the last observation of a
        # mode: it warms this collection's own materialization)
        by_keys = lambda: c04_drift.keys_value(x)[0]  # noqa: E731
        if mode == "construct-only":
            check("compute-default", lambda: x.compute(scheduler="sync"), want[root])
            check("keys-default", by_keys, want[root])
        elif mode == "compute-only":
            with dask.config.set(pt2):
                check("compute", lambda: x.compute(scheduler="sync"), want[root])
                check("keys", by_keys, want[root])
        elif mode == "both":
            with dask.config.set(pt1):
                check("compute", lambda: x.compute(scheduler="sync"), want[root])
                check("graph+compute-inner", lambda: env[sorted(env)[len(env) // 2]].compute(scheduler="sync"), want[sorted(env)[len(env) // 2]])
                check("keys", by_keys, want[root])
        else:  # changed between construction and compute, and between two computes of the same collection
            with dask.config.set(pt2):
                check("compute-1", lambda: x.compute(scheduler="sync"), want[root])
            with dask.config.set(pt3):
                check("compute-2-same-object", lambda: x.compute(scheduler="sync"), want[root])
                check("compute-2-fresh-collection", lambda: new_collection(x.expr).compute(scheduler="sync"), want[root])
                check("follow-on", lambda: (x + x).compute(scheduler="sync"), want[root] + want[root])
                try:
                    y = run_da(prog)[root]  # rebuilt under pt3: same singleton nodes, warm cache from pt2
                except NotImplementedError:
                    y = None
                if y is not None:
                    check("rebuilt-under-pt3", lambda: y.compute(scheduler="sync"), want[root])
                check("keys-3", by_keys, want[root])
    return fails


def shrink_config(ctx, case, sig):
    def still(c):
        r = run_config_case(ctx, c, count=False)
        return bool(r) and any(s == sig for s, _ in r)

    cur = json.loads(json.dumps(case))
    for name in ("pt1", "pt2", "pt3"):
        for key in list(cur.get(name) or {}):
            c = dict(cur, **{name: {a: b for a, b in cur[name].items() if a != key}})
            if still(c):
                cur = c
    try:
        cur["prog"] = shrink_prog(cur["prog"], lambda p: still(dict(cur, prog=p)), max_iter=80)
    except Exception:
        pass
    return cur


# ---------------------------------------------------------------------------------- run

_SUB = r"""
import json, sys, warnings
warnings.simplefilter("ignore")
import numpy as np
from harness import programs
from harness.props import C09
prog = json.loads(sys.stdin.read())
x = C09.run_da(prog)[prog[-1]["out"]]
print(json.dumps(np.asarray(x.compute(scheduler="sync")).tolist()))
"""


def fresh_process_value(prog):
    env = dict(os.environ)
    env["PYTHONPATH"] = os.pathsep.join([str(core.VERIF)] + ([str(core.REPO)] if str(core.REPO) != "/repo" else []) + [env.get("PYTHONPATH", "")])
    p = subprocess.run([sys.executable, "-c", _SUB], input=json.dumps(prog), capture_output=True, text=True, timeout=300, env=env, cwd=str(core.VERIF))
    if p.returncode != 0:
        raise RuntimeError(p.stderr[-400:])
    return np.asarray(json.loads(p.stdout.strip().splitlines()[-1]))


def run(ctx, replay=None):
    import time

    rng = ctx.rng
    t_run = time.time()
    ctx.rule = (
        "histories: families of 3-6 generated programs sharing a common prefix (some rebuilt identically, some with "
        "exact-name sources), seeded random interleavings of build / __dask_graph__ / compute (root or inner variable) / "
        "persist / derived op / drop / config change (every 4th history: the SAME reduction over the same many-block input built with "
        "different split_every — keyword or config — all kept alive and computed in both orders), each history started from cleared `_LOWER_CACHE` + singleton "
        "registries (epochs of several histories in the thorough tier); config crossing: points drawn from the product of "
        f"{len(CONFIG_DOMAIN)} keys x 4 timing modes (construct-only, compute-only, both, changed between construction / "
        "first compute / second compute / rebuild; the value is also taken key by key from __dask_graph__() under the "
        "advertised keys); a case is distinct by (phase, action or mode, keys set, family size). Configuration-drift stream "
        "(harness/props_ext/c04_drift.py): aligned multi-operand nodes over nested / interleaved / broadcasting operand chunkings, "
        "chunks='auto' sources, rechunk('auto'), config-driven tree reductions, built under A, metadata read or not, then one lazily "
        "read option (enumerated from the source) changed and optimize-graph on/off: blocks under the advertised keys and compute() vs NumPy. "
        "In-place stream (harness/props_ext/c09_inplace.py): scripts over ONE collection object: materialize (compute / persist / graph / keys / "
        ".dask / dask.compute / dask.persist / np.asarray / dask.optimize / lowered / Frisky keys / only a derived collection) -> in-place update "
        "(x[key]=v for key in dask mask of x / of another array / lower-rank dask mask / NumPy mask / ints / slices / Ellipsis / list / NumPy and "
        "dask integer arrays, value scalar / 0-d / NumPy / dask / computed from x; ufunc out= with and without where=; reduction out=; _chunks "
        "setter; compute_chunk_sizes) -> read (compute / persist / block by block under the advertised keys / np.asarray / dask.compute), "
        "1-3 rounds, with snapshots (x+k, x.copy()) that must keep their values; grid of key kind x materialization kind in every run; a "
        "failure needs the twin script without the materializations to agree with NumPy. "
        "History x consumer stream (harness/props_ext/c09_consumers.py): one shared sub-expression S = wrappers(selectors(producer)) "
        "(producers / selectors of c02_grid, steered to nested chunkings whose coarse unification a pushed selector changes), histories of 2-4 events "
        "over {compute S alone, S.optimize(), S.simplify(), graph key by key, persist, sum / +1 / slice / .T over S, .blocks[::-1] / [last] / [0] / [list], "
        "map_blocks(block-relative / block_info / block_id / two inputs), blockwise(align_arrays=False), to_delayed grid, plain and grid consumer in one "
        "dask.compute}: every (non-grid event, grid consumer) pair in every run (a quarter in the opposite order) + random histories, each event with "
        "optimize-graph on / off and S the same object / rebuilt with the old one alive / rebuilt after dropping it; NumPy oracle along the chunks S "
        "advertises when built; a failing event is re-run in fresh interpreters (the event alone must be right there, the reported minimal history must fail there)"
    )
    ctx.assumptions = [
        "the Lean theorems are about an abstract system: per-rule soundness for every configuration value (RuleSound) and "
        "name injectivity (C06) are PREMISES; the search checks their consequence (values equal NumPy) on the real code",
        "the cache invariant and the opt-out discipline are monitored on the real `_LOWER_CACHE` after every history "
        "(entries keyed by a program variable's raw name must compute to that variable's NumPy value)",
        "the config-read table is an AST over-approximation by simple names; reads inside dask itself are invisible",
        "layouts / task counts / names are NOT compared (they legitimately depend on history: DESIGN §8.7)",
        "programs of the documented defect families (swv-layout-drift, take-through-broadcast, minmax-zero-size) are not "
        "generated; construction refusals (NotImplementedError) are skipped",
    ]
    if replay is not None:
        case = replay["case"] if "case" in replay else replay
        if case.get("kind") == "drift":  # configuration-drift stream (harness/props_ext/c04_drift.py)
            from harness.props_ext import c04_drift

            for sig, detail in c04_drift.run_c09(ctx, case) or []:
                ctx.fail(sig, case, detail)
        elif case.get("kind") == "inplace":  # in-place updates after materialization (harness/props_ext/c09_inplace.py)
            from harness.props_ext import c09_inplace

            c09_inplace.replay(ctx, case)
        elif case.get("kind") == "consumers":  # history x consumer stream (harness/props_ext/c09_consumers.py)
            from harness.props_ext import c09_consumers

            c09_consumers.replay(ctx, case)
        elif case.get("kind") == "config":
            for sig, detail in run_config_case(ctx, case) or []:
                ctx.fail(sig, case, detail)
        elif case.get("kind") == "history":
            f, d = run_history(ctx, case)
            for sig, detail, _ in f:
                ctx.fail(sig, case, detail)
            for m in d:
                ctx.disagree("lower-cache-invariant", json.dumps(case)[:300], "invariant holds", m)
        return

    # ---------------- histories
    nh = ctx.scale(40, 300)
    budget_h = ctx.scale(28, 300)
    epoch = []
    for it in range(nh):
        if time.time() - t_run > budget_h:
            ctx.notes["histories_stopped_early_at"] = it
            break
        if it % 4 == 3:
            fam, steps = gen_reduce_family(rng)
            ctx.notes["reduce_family_histories"] = ctx.notes.get("reduce_family_histories", 0) + 1
        else:
            fam = gen_family(rng, rng.randint(3, 6))
            steps = gen_history(rng, fam)
        case = {"kind": "history", "progs": fam, "steps": steps, "prelude": []}
        if ctx.tier == "thorough" and epoch and rng.random() < 0.5:
            case["prelude"] = epoch[-2:]
        if it < 2:
            ctx.sample({"family": [[s["op"] for s in p] for p in fam], "steps": steps[:12]})
        fails, disag = run_history(ctx, case)
        ctx.notes["histories"] = ctx.notes.get("histories", 0) + 1
        epoch.append({"progs": fam, "steps": steps})
        for m in disag[:3]:
            if len(ctx.disagreements) < 20:
                ctx.disagree("lower-cache-invariant", json.dumps({"progs": fam, "steps": steps})[:2000], "invariant holds", m)
                ctx.__dict__.setdefault("_c09_disag", []).append(case)
        seen = set()
        for sig, detail, si in fails:
            if sig in seen:
                continue
            seen.add(sig)
            small = case
            if sig not in NO_SHRINK:
                try:
                    small = shrink_history(ctx, dict(case, steps=steps[: si + 1] if not sig.startswith("cache:") else steps), sig)
                    f2, _ = run_history(ctx, small, count=False, monitor=sig.startswith("cache:"))
                    detail = next((d for s, d, _ in f2 if s == sig), detail)
                except Exception:
                    pass
            ctx.fail(sig, dict(small, kind="history"), detail)

    # ---------------- in-place updates (every key kind of __setitem__, ufunc / reduction out=, _chunks setter,
    # compute_chunk_sizes) of a collection object that was materialized BEFORE (compute / persist / graph / keys / …):
    # NumPy oracle + the twin script without the materializations (harness/props_ext/c09_inplace.py)
    from harness.props_ext import c09_inplace

    c09_inplace.run_stream(ctx, ctx.scale(60, 900), ctx.scale(10, 90))

    # ---------------- history x consumer: one shared sub-expression S (a selector over an elemwise of differently chunked
    # operands / rechunk / concatenate / map_overlap / cumsum, under 0-2 elementwise wrappers) met alone, optimized, persisted,
    # under plain consumers and under grid-sensitive consumers (.blocks[...], map_blocks with block_info / block_id,
    # blockwise(align_arrays=False), to_delayed) in one process, in every order, rebuilt or the same object, optimize-graph
    # on / off; oracle = NumPy along the chunks S advertises (harness/props_ext/c09_consumers.py)
    from harness.props_ext import c09_consumers

    c09_consumers.run_stream(ctx, ctx.scale(110, 3000), ctx.scale(5.5, 120))

    # ---------------- clean state vs warm: the same programs computed first in a clean state
    for k, hist in enumerate(epoch[: ctx.scale(6, 40)]):
        for i, prog in enumerate(hist["progs"][:2]):
            clear_state()
            try:
                with warnings.catch_warnings():
                    warnings.simplefilter("ignore")
                    got = run_da(prog)[prog[-1]["out"]].compute(scheduler="sync")
            except NotImplementedError:
                continue
            except Exception as e:
                ctx.fail(classify(prog, f"{type(e).__name__}: {e}") or f"clean:raises:{type(e).__name__}", {"kind": "history", "progs": [prog], "steps": [["build", 0], ["compute", 0, "root", 0]]}, repr(e)[:200])
                continue
            ctx.count(("clean", "in-process"))
            if not same(got, programs.run_np(prog)[prog[-1]["out"]]):
                ctx.fail("clean:value-mismatch", {"kind": "history", "progs": [prog], "steps": [["build", 0], ["compute", 0, "root", 0]]}, f"clean-state compute {show(got)}")
    for hist in epoch[: ctx.scale(1, 6)]:
        prog = hist["progs"][0]
        try:
            got = fresh_process_value(prog)
            ctx.count(("clean", "subprocess"))
            if not same(got, programs.run_np(prog)[prog[-1]["out"]]):
                ctx.fail("fresh-process:value-mismatch", {"kind": "history", "progs": [prog], "steps": [["build", 0], ["compute", 0, "root", 0]]}, f"fresh subprocess computes {show(got)}")
        except Exception as e:
            ctx.notes["fresh_process_errors"] = ctx.notes.get("fresh_process_errors", 0) + 1
            ctx.notes["fresh_process_last_error"] = repr(e)[:200]

    # ---------------- config crossing
    npts = ctx.scale(8, 64)
    nprog = ctx.scale(20, 36)
    budget_c = ctx.scale(30, 280)
    t_c = time.time()
    pts = [{}] + [rand_point(rng) for _ in range(npts - 1)]
    # make sure the planner-relevant corners are present
    pts[1 % len(pts)] = {"array.rechunk.method": "tasks", "array.rechunk.threshold": 1, "array.chunk-size": "16B", "split_every": 2}
    if len(pts) > 2:
        pts[2] = {"array.optimize-graph": False, "array.unify-chunks-policy": "refine", "array.unify-chunks-limit": "8B", "split_every": 3}
    progs = []
    cfg_ops = programs.DEFAULT_OPS + ("rechunk", "rechunk", "reduce", "reduce", "binary_new", "binary_new")
    # quotas on what the REAL lowering produces, so that the planner paths that read config are exercised:
    # a third of the programs keep a TasksRechunk (plan_rechunk: threshold / degree-limit / chunk-size / method),
    # a third a tree reduction (split_every), the rest anything (unify policy / limit via elemwise operands)
    quota = {"TasksRechunk": nprog // 3, "PartialReduce": nprog // 3}
    tries = 0
    while len(progs) < nprog and tries < 60 * nprog:
        tries += 1
        p, _ = programs.gen_clean_program(rng, rng.randint(2, 6), ops=cfg_ops)
        try:
            with warnings.catch_warnings():
                warnings.simplefilter("ignore")
                kinds = {type(e).__name__ for e in run_da(p)[p[-1]["out"]]._lowered_expr.walk()}
        except Exception:
            continue
        want = [k for k, n in quota.items() if n > 0]
        hit = [k for k in want if k in kinds]
        if want and not hit and tries < 50 * nprog:
            continue
        for k in hit[:1]:
            quota[k] -= 1
        progs.append(p)
    ctx.notes["config_program_quota_left"] = dict(quota)
    ctx.notes["config_points"] = len(pts)
    done = 0
    stop = False
    for pi, pt in enumerate(pts):
        for qi, prog in enumerate(progs):
            if time.time() - t_c > budget_c:
                stop = True
                break
            mode = MODES[(pi + qi) % 4]
            case = {"kind": "config", "prog": prog, "mode": mode, "pt1": pt,
                    "pt2": pts[(pi + 3) % len(pts)] if mode == "changed" else pt,
                    "pt3": pts[(pi + 5) % len(pts)] if mode == "changed" else {}}
            r = run_config_case(ctx, case)
            done += 1
            if pi < 1 and qi < 2:
                ctx.sample({"mode": mode, "pt1": case["pt1"], "pt2": case["pt2"], "pt3": case["pt3"], "ops": [s["op"] for s in prog]})
            seen = set()
            for sig, detail in r or []:
                if sig in seen:
                    continue
                seen.add(sig)
                small = case
                if sig not in NO_SHRINK:
                    try:
                        small = shrink_config(ctx, case, sig)
                        r2 = run_config_case(ctx, small, count=False)
                        detail = next((d for s, d in (r2 or []) if s == sig), detail)
                    except Exception:
                        pass
                ctx.fail(sig, small, detail)
        if stop:
            ctx.notes["config_stopped_early_at_point"] = pi
            break
    ctx.notes["config_cases"] = done

    # ---------------- configuration drift: a lazily read option changes between construction / first metadata read
    # and graph build; the value is taken KEY BY KEY from the graph under the advertised keys (and by compute())
    from harness.props_ext import c04_drift

    c04_drift.run_c09_stream(ctx)

    known_probe(ctx)

    # ---------------- targeted searches
    broken = [b for b in ctx.audit.get("broken", [])]
    if broken:
        targeted_new_keys(ctx, progs)
    if ctx.disagreements:
        targeted_cache(ctx)


def known_probe(ctx):
    """Dedicated probe of the documented finding (prints KNOWN-FINDING while it still fails)."""
    case = {"kind": "config", "mode": "changed", "pt1": {}, "pt2": {"array.unify-chunks-limit": "8B"}, "pt3": {},
            "prog": [{"op": "src", "shape": [4], "chunks": [[2, 1, 1]], "mul": 1, "off": -2, "mod": 5, "out": "v1"},
                     {"op": "src", "shape": [4], "chunks": [[1, 1, 1, 1]], "mul": 3, "off": 4, "mod": 1048576, "out": "v3"},
                     {"op": "add", "args": ["v3", "v1"], "out": "v4"},
                     {"op": "broadcast_to", "args": ["v4"], "shape": [1, 4], "out": "v5"}]}
    for sig, detail in run_config_case(ctx, case, count=False) or []:
        ctx.fail(sig, case, detail)


def targeted_new_keys(ctx, progs):
    """A broken obligation (a configuration read that lowering can reach and that is not documented): vary
    exactly the undocumented keys over generic values, at construction / compute / changed in between."""
    lowering = ctx.notes.get("lowering_keys") or []
    new = [k for k in lowering if k not in DOCUMENTED_LOWERING]
    tried = 0
    for key in new or []:
        dom = {key: GENERIC_VALUES}
        for prog in progs[:12]:
            for v in GENERIC_VALUES:
                for mode in ("compute-only", "changed"):
                    case = {"kind": "config", "prog": prog, "mode": mode, "pt1": {}, "pt2": {key: v}, "pt3": {}}
                    r = run_config_case(ctx, case, count=False)
                    tried += 1
                    for sig, detail in r or []:
                        if sig.endswith("value-mismatch"):
                            ctx.fail(sig, shrink_config(ctx, case, sig), detail)
                            return
    ctx.notes["targeted_search"] = (
        f"undocumented lowering keys {new}: {tried} programs x generic values x (compute-only, changed) computed and compared with NumPy"
        if new else "broken obligation is not a new lowering key; the standard search of this run found no failing input")


def targeted_cache(ctx):
    """A monitored invariant no longer holds (e.g. an opt-out node stored under its own name): replay the
    disagreeing histories with every config point of the corner set between each pair of steps and with the
    raw subtrees re-used inside new parents, looking for a wrong VALUE."""
    rng = ctx.rng
    tried = 0
    corners = [
        {"array.optimize-graph": False}, {"array.optimize-graph": True},
        {"array.rechunk.method": "tasks", "array.rechunk.threshold": 1}, {"split_every": 2},
    ]
    for case in (ctx.__dict__.get("_c09_disag") or [])[:6]:
        for pt in corners:
            steps = []
            for st in case["steps"]:
                steps.append(st)
                if st[0] in ("compute", "persist", "graph"):
                    steps.append(["cfg", pt])
                    steps.append(["derived", st[1]])
                    steps.append(["build", st[1]])
                    steps.append(["compute", st[1], "any", rng.randrange(1 << 16)])
            c = {"kind": "history", "progs": case["progs"], "steps": steps, "prelude": []}
            f, _ = run_history(ctx, c, count=False, monitor=False)
            tried += 1
            for sig, detail, si in f:
                if sig not in NO_SHRINK:
                    ctx.fail(sig, dict(shrink_history(ctx, dict(c, steps=steps[: si + 1]), sig), kind="history"), detail)
                    return
    ctx.notes["targeted_search"] = f"{tried} amplified replays of the disagreeing histories (config corners + derived ops + rebuilds between steps): no wrong value"
