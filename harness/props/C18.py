"""C18 — Reductions are independent of chunking and tree shape.

Correspondence: Lean model (Model/Reduce.lean, driver family `rd.*`) vs
dask_array.reductions._reduction (`partition_all`, tree depth, `_normalize_split_every`,
`PartialReduce.chunks`, `PartialReduce._layer` wiring, manual PartialReduce cascades of any
depth, `_accept_slice_impl` index bookkeeping).
Search: every listed reduction on the real code vs NumPy over shapes x chunkings x axis x
keepdims x split_every x dtypes x NaN placements; slices pushed through reductions (optimized
and unoptimized graphs).  Oracle = NumPy only (independent of the model).
Planned streams (harness/props_ext/c18_extremes.py, run first in every search): NaN cells placed per BLOCK and per
LANE (all-NaN lane inside one block / a run of blocks, mixed lane holding the extremum, NaN blocks, block edges) for
every nan-aware / arg / NaN-propagating reduction on rank 2-3 with explicit axes; DTYPE EXTREMES (unsigned with zeros,
signed min/max, bool, float32/64 with +-inf / NaN / -0.0, complex, wide ints, explicit integer dtype=, topk/argtopk
k>0 / k<0 / |k| up to the lane length on sparse lanes, integer-weighted average) with the exact NumPy dtype.
"""
from __future__ import annotations

import itertools
import math
import warnings
from functools import partial
from types import SimpleNamespace

import numpy as np

from harness import gen
from harness.core import err_name, f_list, f_ll, f_slice

SYNC = dict(scheduler="sync")


# --------------------------------------------------------------------------- helpers

def impl_call(fn, fmt):
    try:
        return fmt(fn())
    except (NotImplementedError, IndexError, ValueError, TypeError, ZeroDivisionError, AssertionError, KeyError) as e:
        return err_name(e)


def correspond_rel(ctx, fam, items):
    """items: (request, impl_value, relation(model_line, impl_value) -> bool).  Like ctx.correspond but
    the comparison is a stated relation (used where a float expression is an oracle of the model)."""
    items = list(items)
    outs = ctx.driver.run([r for r, _, _ in items])
    for (req, impl, rel), model in zip(items, outs):
        ctx.traces += 1
        ctx.evaluations += 1
        ctx.distinct.add((fam, model[:40], len(req) // 8))
        try:
            ok = rel(model, impl)
        except Exception:
            ok = False
        if not ok and len(ctx.disagreements) < 200:
            ctx.disagree(fam, req, model, f"{impl!r} (relation failed)")
    if items:
        ctx.sample({"family": fam, "request": items[len(items) // 2][0], "response": outs[len(items) // 2]})
    ctx.notes[f"corr.{fam}"] = ctx.notes.get(f"corr.{fam}", 0) + len(items)


def split_list(ndim, sdict):
    """per-axis list, 0 = axis not in the dict."""
    return [int(sdict.get(i, 0)) for i in range(ndim)]


def pr_chain(expr):
    """PartialReduce nodes from the root downwards."""
    from dask_array.reductions._reduction import PartialReduce

    out = []
    e = expr
    while isinstance(e, PartialReduce):
        out.append(e)
        e = e.array
    return out


def lowered(arr):
    return arr.expr.lower_completely()


def fmt_layer(pr):
    """canonical form of PartialReduce._layer(): out=dims:in|in|…, sorted by out key."""
    dsk = pr._layer()
    ents = []
    for key, task in dsk.items():
        out = tuple(key[1:])
        g = task[1]
        dims = []
        h = g
        while isinstance(h, list):
            dims.append(len(h))
            h = h[0]
        flat = []

        def walk(v):
            if isinstance(v, list):
                for w in v:
                    walk(w)
            else:
                flat.append(tuple(v[1:]))

        walk(g)
        ents.append((out, dims, flat))
    ents.sort(key=lambda e: e[0])
    if not ents:
        return "ok -"
    return "ok " + ";".join(f"{f_list(o)}={f_list(d)}:" + "|".join(f_list(k) for k in fl) for o, d, fl in ents)


def sum_funcs(axes):
    from dask_array._core_utils import _concatenate2
    from tlz import compose

    comb = compose(partial(np.sum, axis=axes, keepdims=True), partial(_concatenate2, axes=sorted(axes)))
    return comb


def manual_tree(x, sdict, depth, keepdims):
    """depth-1 PartialReduce(keepdims=True) layers + final layer, exactly like _build_tree_reduce_expr
    but with an explicit depth (so too-small depths can be exercised too)."""
    from dask_array._core_utils import _concatenate2
    from dask_array._new_collection import new_collection
    from dask_array.reductions._reduction import PartialReduce
    from tlz import compose

    axes = tuple(sorted(sdict))
    e = x.expr
    comb = sum_funcs(axes)
    for _ in range(depth - 1):
        e = PartialReduce(e, comb, sdict, True, dtype=x.dtype, name="verif-partial")
    agg = compose(partial(np.sum, axis=axes, keepdims=keepdims), partial(_concatenate2, axes=sorted(axes)))
    e = PartialReduce(e, agg, sdict, keepdims, dtype=x.dtype, name="verif-aggregate")
    return new_collection(e)


# --------------------------------------------------------------------------- correspondence

def correspondence(ctx):
    import tlz
    import dask_array as da
    from dask_array.reductions._reduction import PartialReduce, _normalize_split_every, _accept_slice_impl

    rng = ctx.rng
    # ---- partition_all (CPython/tlz vs Py/Basic.lean)
    pairs = []
    for k in range(1, 6):
        for n in range(0, 13):
            l = list(range(n))
            pairs.append((f"py.partition_all {k} {f_list(l)}", "ok " + f_ll(tlz.partition_all(k, l))))
            pairs.append((f"rd.num_after {k} {n}", f"ok {len(list(tlz.partition_all(k, range(n))))}"))
    for _ in range(ctx.scale(300, 3000)):
        k = rng.randint(1, 9)
        l = [rng.randint(-5, 9) for _ in range(rng.randint(0, 40))]
        pairs.append((f"py.partition_all {k} {f_list(l)}", "ok " + f_ll(tlz.partition_all(k, l))))
    ctx.correspond("partition_all", pairs)

    # ---- tree depth of the real lowering (exhaustive small, random larger).  The code computes
    # ceil(math.log(n, k)) in floats: an ORACLE of the model; relation: exact <= real <= exact + 1.
    items = []
    slack = [0]

    def depth_rel(model, real):
        m = int(model.split()[1])
        if real == m + 1:
            slack[0] += 1
        return m <= real <= m + 1

    NMAX = ctx.scale(40, 130)
    cases = [(n, k) for n in range(1, NMAX + 1) for k in range(2, 9)]
    cases += [(rng.randint(1, 700), rng.randint(2, 20)) for _ in range(ctx.scale(40, 400))]
    cases += [(k ** d + e, k) for k in (2, 3, 5, 7, 10) for d in (1, 2, 3, 4) for e in (-1, 0, 1) if 1 <= k ** d + e <= 700]
    for n, k in cases:
        x = da.ones(n, chunks=1)
        real = len(pr_chain(lowered(x.sum(split_every=k))))
        items.append((f"rd.depth {n} {k}", real, depth_rel))
    # n-d, dict split_every (incl. value 1 = axis skipped by the depth loop)
    for _ in range(ctx.scale(150, 1500)):
        nd = rng.randint(1, 3)
        nb = [rng.randint(1, 9) for _ in range(nd)]
        axes = sorted(rng.sample(range(nd), rng.randint(1, nd)))
        sd = {a: rng.choice([1, 2, 2, 3, 4, 5]) for a in axes}
        x = da.ones(tuple(nb), chunks=1)
        real = len(pr_chain(lowered(x.sum(axis=tuple(axes), split_every=sd))))
        # the expression stores the NORMALIZED split_every (dict values are floored at 2 since /repo 5a7f27d;
        # that normalization itself is compared separately below, `rd.norm_dict`)
        sdn = {a: max(v, 2) for a, v in sd.items()}
        items.append((f"rd.tree_depth {f_list(nb)} {f_list(split_list(nd, sdn))}", real, depth_rel))
    correspond_rel(ctx, "tree-depth", items)
    ctx.notes["oracle.depth_float_slack_cases"] = slack[0]

    # ---- _normalize_split_every
    pairs = []
    items = []

    def fmt_kv(d):
        return "ok " + (";".join(f"{k}={v}" for k, v in sorted(d.items())) if d else "-")

    for _ in range(ctx.scale(300, 3000)):
        nd = rng.randint(1, 4)
        axis = tuple(sorted(rng.sample(range(nd), rng.randint(0, nd))))
        given = {a: rng.randint(1, 9) for a in rng.sample(range(nd + 1), rng.randint(1, nd + 1))}
        pairs.append((f"rd.norm_dict {f_list(axis)} {f_list(given.keys())} {f_list(given.values())}",
                      impl_call(lambda: _normalize_split_every(given, axis), fmt_kv)))
        se = rng.choice([None, 1, 2, 3, 4, 8, 9, 16, 27, 64, 100, 125, 1000, rng.randint(1, 5000)])
        s = 16 if se is None else se
        m = len(axis) or 1
        root = int(s ** (1 / m))  # the same float expression as the code: the oracle value
        pairs.append((f"rd.norm_int {root} {f_list(axis)}", impl_call(lambda: _normalize_split_every(se, axis), fmt_kv)))
        items.append((f"rd.iroot {s} {m}", root, lambda model, r: abs(int(model.split()[1]) - r) <= 1))
    ctx.correspond("_normalize_split_every", pairs)
    correspond_rel(ctx, "split_every-root-oracle", items)

    # ---- PartialReduce.chunks and ._layer wiring; exhaustive small numblocks x split_every
    pairs = []
    grid = []
    for nb0 in range(1, ctx.scale(7, 10)):
        for s0 in range(1, 5):
            grid.append(((nb0,), {0: s0}))
    for nb0, nb1 in itertools.product(range(1, ctx.scale(5, 7)), repeat=2):
        for s0, s1 in itertools.product((0, 1, 2, 3), repeat=2):
            if s0 or s1:
                grid.append(((nb0, nb1), {i: s for i, s in enumerate((s0, s1)) if s}))
    for _ in range(ctx.scale(60, 800)):
        nd = rng.randint(1, 4)
        nb = tuple(rng.randint(1, 6) for _ in range(nd))
        axes = rng.sample(range(nd), rng.randint(0, nd))
        grid.append((nb, {a: rng.randint(1, 5) for a in axes}))
    grid.append(((), {}))
    dummy = sum_funcs((0,))
    for nb, sd in grid:
        nd = len(nb)
        chunks = tuple(tuple(rng.choice([0, 1, 1, 2, 3]) for _ in range(n)) for n in nb)
        x = da.ones(tuple(sum(c) for c in chunks), chunks=chunks)
        for kd in (False, True):
            pr = PartialReduce(x.expr, dummy, sd, kd, dtype=x.dtype, name="verif")
            sl = f_list(split_list(nd, sd))
            pairs.append((f"rd.chunks {f_ll(chunks)} {sl} {int(kd)}", impl_call(lambda: pr.chunks, lambda c: "ok " + f_ll(c))))
            pairs.append((f"rd.layer_keys {f_list(nb)} {sl} {int(kd)}", impl_call(lambda: pr, fmt_layer)))
    ctx.correspond("PartialReduce.chunks+_layer", pairs)
    ctx.exhaustive = True
    ctx.extra["exhaustive_domain"] = (
        f"PartialReduce.chunks/_layer: 1-d numblocks<{ctx.scale(7, 10)} x split 1..4, 2-d numblocks<{ctx.scale(5, 7)}^2 x split in "
        f"{{absent,1,2,3}}^2, both keepdims; tree depth: numblocks 1..{NMAX} x split_every 2..8"
    )

    # ---- evaluated cascades: real PartialReduce chain of an explicit depth (also too small) vs grid model
    pairs = []
    for _ in range(ctx.scale(120, 1500)):
        nd = rng.randint(1, 3)
        nb = tuple(rng.randint(1, 6) for _ in range(nd))
        axes = sorted(rng.sample(range(nd), rng.randint(1, nd)))
        sd = {a: rng.randint(2, 4) for a in axes}
        need = max(1, max(math.ceil(round(math.log(nb[a], sd[a]), 9)) for a in axes))
        vals = np.array([rng.randint(-9, 9) for _ in range(int(np.prod(nb)))], dtype=np.int64).reshape(nb)
        x = da.from_array(vals, chunks=1)
        r = rng.random()
        depth = need + rng.randint(0, 1) if r < 0.6 else rng.randint(1, max(1, need))
        kd = True if depth < need else rng.random() < 0.5

        def run_tree():
            y = manual_tree(x, sd, depth, kd)
            v = np.asarray(y.compute(**SYNC))
            return "ok " + f_list(y.numblocks) + " " + f_list(v.ravel().tolist())

        pairs.append((f"rd.tree_sum_nd {f_list(nb)} {f_list(split_list(nd, sd))} {depth} {int(kd)} {f_list(vals.ravel().tolist())}",
                      impl_call(run_tree, lambda s: s)))
    # 1-d list model (the one the theorems are about) through the public API, with the code's own depth
    for _ in range(ctx.scale(120, 1500)):
        n = rng.randint(1, 24)
        cks = gen.rand_chunks(rng, n)
        data = [rng.randint(-4, 4) for _ in range(n)]
        blocks, p = [], 0
        for c in cks:
            blocks.append(data[p:p + c])
            p += c
        k = rng.randint(2, 5)
        x = da.from_array(np.array(data, dtype=np.int64), chunks=(cks,))
        s = x.sum(split_every=k)
        depth = len(pr_chain(lowered(s)))
        pairs.append((f"rd.tree_sum {k} {depth} {f_ll(blocks)}", impl_call(lambda: int(s.compute(**SYNC)), lambda v: f"ok {v}")))
        a = da.argmin(x, split_every=k)
        depth = len(pr_chain(lowered(a)))
        pairs.append((f"rd.tree_argmin {k} {depth} {f_ll(blocks)}", impl_call(lambda: int(a.compute(**SYNC)), lambda v: f"ok {v}")))
    ctx.correspond("cascade-evaluation", pairs)

    # ---- _accept_slice_impl index bookkeeping
    pairs = []

    def f_idx(t):
        return "_" if not t else "/".join(f_slice(i) if isinstance(i, slice) else str(int(i)) for i in t)

    for _ in range(ctx.scale(300, 4000)):
        nd = rng.randint(1, 4)
        shape = tuple(rng.randint(2, 5) for _ in range(nd))
        red = sorted(rng.sample(range(nd), rng.randint(1, nd)))
        kd = rng.random() < 0.5
        out_nd = nd if kd else nd - len(red)
        idx = []
        out_axes = list(range(nd)) if kd else [a for a in range(nd) if a not in red]
        for a in out_axes[: rng.randint(0, out_nd)]:
            size = 1 if (kd and a in red) else shape[a]
            r = rng.random()
            if r < 0.35:
                idx.append(rng.randint(0, size - 1))
            elif r < 0.5:
                idx.append(slice(None))
            else:
                lo = rng.randint(0, size - 1)
                idx.append(slice(lo, rng.randint(lo + 1, size), rng.choice([None, 1, 2])))
        idx = tuple(idx)
        x = da.ones(shape, chunks=2)
        rec = {}

        def mk(si, ii):
            rec["in"] = ii
            rec["res"] = si.expr
            return si.expr

        def call():
            out = _accept_slice_impl(SimpleNamespace(index=idx, allow_getitem_optimization=False), x.expr, set(red), kd, mk)
            if out is None:
                return None  # declined: nothing reaches the input
            full = idx + (slice(None),) * (out_nd - len(idx))
            fin = None if out is rec["res"] else tuple(out.index)
            return rec["in"], fin, full

        def fmt(res):
            if res is None:
                return None
            ii, fin, full = res
            if fin is None:
                fin = tuple(0 if isinstance(i, int) else slice(None) for i in full)
                if any(f != slice(None) for f in fin):
                    return "ok final index dropped"
                # no re-slicing needed: every final entry is slice(None) (keepdims: incl. the reduced axes)
                if kd:
                    fin = tuple(full[a] if a in red else slice(None) for a in range(len(full)))
            return f"ok in={f_idx(ii)} fin={f_idx(fin)} decl=0"

        got = impl_call(call, fmt)
        req = f"rd.accept_slice {f_idx(idx)} {nd} {f_list(red)} {int(kd)}"
        if got is None:
            # implementation declined; the model must say decl=1 (compare only that flag)
            pairs.append((req, "DECL"))
        else:
            pairs.append((req, got))
    outs = ctx.driver.run([r for r, _ in pairs])
    fixed = []
    for (req, impl), model in zip(pairs, outs):
        if impl == "DECL":
            fixed.append((req, model if model.endswith("decl=1") else "declined (returned None)"))
        else:
            fixed.append((req, impl))
    ctx.correspond("_accept_slice_impl", fixed)


# --------------------------------------------------------------------------- search on the real code

EXACT_INT = {"sum", "prod", "min", "max", "any", "all", "nansum", "nanprod", "nanmin", "nanmax", "count_nonzero",
             "argmin", "argmax", "nanargmin", "nanargmax", "topk", "argtopk", "ptp"}
EXACT_FLOAT = {"min", "max", "nanmin", "nanmax", "any", "all", "count_nonzero", "argmin", "argmax", "nanargmin",
               "nanargmax", "topk", "argtopk", "ptp"}
ARG_REDS = {"argmin", "argmax", "nanargmin", "nanargmax"}
MINMAX = {"min", "max", "nanmin", "nanmax", "ptp"}
VAR_FAMILY = {"var", "std", "moment2", "moment3", "moment4"}
REDUCTIONS = ["sum", "prod", "min", "max", "any", "all", "mean", "var", "std", "moment2", "moment3", "nansum", "nanprod",
              "nanmin", "nanmax", "nanmean", "nanvar", "nanstd", "argmin", "argmax", "nanargmin", "nanargmax",
              "count_nonzero", "topk", "argtopk", "ptp", "average", "average_w"]
SINGLE_AXIS = {"argmin", "argmax", "nanargmin", "nanargmax", "topk", "argtopk", "average_w"}
NO_KEEPDIMS = {"count_nonzero", "topk", "argtopk", "ptp"}
NO_SPLIT = {"count_nonzero", "ptp", "average", "average_w"}
NEEDS_NONEMPTY = {"min", "max", "nanmin", "nanmax", "argmin", "argmax", "nanargmin", "nanargmax", "ptp", "topk", "argtopk"}
COMPLEX_OK = {"sum", "prod", "mean", "var", "std", "any", "all", "count_nonzero", "nansum", "average"}


def make_data(case):
    if "literal" in case:
        return np.array(case["literal"], dtype=case["dtype"])
    if "plan" in case:
        # special cells placed per block / per lane, dtype extremes: harness/props_ext/c18_extremes.py
        from harness.props_ext import c18_extremes

        return c18_extremes.planned_data(case)
    rg = np.random.default_rng(case["data_seed"])
    shape = tuple(case["shape"])
    dt = case["dtype"]
    if case.get("unique"):
        # tie-free data (a permutation): the arg-reduction answer does not depend on a tie rule
        n = int(np.prod(shape))
        x = rg.permutation(n).reshape(shape).astype(np.int64 if dt != "float64" else np.float64)
        if dt == "float64":
            x = x / 4.0 - 1.0
    elif dt == "int64":
        x = rg.integers(-3, 4, size=shape).astype(np.int64)
    elif dt == "bool":
        x = rg.random(shape) < case.get("p", 0.5)
    elif dt == "float64":
        x = np.round(rg.normal(size=shape) * 4, 1) + rg.integers(-2, 3, size=shape)
        if case["red"] in ("prod", "nanprod"):
            x = 0.5 + rg.random(shape)
    else:  # complex128
        x = (np.round(rg.normal(size=shape) * 4, 1) + 1j * np.round(rg.normal(size=shape) * 4, 1)).astype(np.complex128)
        if case["red"] == "prod":
            x = np.exp(1j * rg.random(shape)) * (0.8 + 0.4 * rg.random(shape))
    nan = case.get("nan", "none")
    if nan != "none" and dt in ("float64", "complex128") and x.size:
        flat = x.reshape(-1)
        if nan == "one":
            flat[rg.integers(0, x.size)] = np.nan
        elif nan == "some":
            flat[rg.random(x.size) < 0.3] = np.nan
        elif nan == "all":
            flat[:] = np.nan
        elif nan == "slice":
            ax = int(rg.integers(0, x.ndim))
            ind = [slice(None)] * x.ndim
            ind[ax] = int(rg.integers(0, x.shape[ax]))
            x[tuple(ind)] = np.nan
    return x


def np_moment(x, order, axis, keepdims):
    x = np.asarray(x)
    mu = x.mean(axis=axis, keepdims=True)
    return ((x - mu) ** order).mean(axis=axis, keepdims=keepdims)


def call_pair(case, da, x, a):
    """returns (dask array result, thunk for numpy expected)."""
    red = case["red"]
    axis = case["axis"]
    if isinstance(axis, list):
        axis = tuple(axis)
    kd = case.get("keepdims", False)
    se = case.get("split_every")
    if isinstance(se, dict):
        se = {int(k): int(v) for k, v in se.items()}
    kw = {}
    if red not in NO_KEEPDIMS:
        kw["keepdims"] = kd
    dkw = dict(kw)
    if red not in NO_SPLIT:
        dkw["split_every"] = se
    if red.startswith("moment"):
        order = int(red[6:])
        return da.moment(x, order, axis=axis, **dkw), (lambda: np_moment(a, order, axis, kd))
    if red in ("var", "std", "nanvar", "nanstd"):
        ddof = case.get("ddof", 0)
        return getattr(da, red)(x, axis=axis, ddof=ddof, **dkw), (lambda: getattr(np, red)(a, axis=axis, ddof=ddof, **kw))
    if red == "count_nonzero":
        return da.count_nonzero(x, axis=axis), (lambda: np.count_nonzero(a, axis=axis))
    if red == "ptp":
        return da.ptp(x, axis=axis), (lambda: np.ptp(a, axis=axis))
    if red in ("topk", "argtopk"):
        k = case["k"]

        def np_topk():
            s = np.sort(a, axis=axis)
            n = a.shape[axis]
            kk = min(abs(k), n)
            ind = [slice(None)] * a.ndim
            if k > 0:
                ind[axis] = slice(n - 1, n - 1 - kk, -1) if n - 1 - kk >= 0 else slice(n - 1, None, -1)
            else:
                ind[axis] = slice(0, kk)
            return s[tuple(ind)]

        f = da.topk if red == "topk" else da.argtopk
        return f(x, k, axis=axis, split_every=se), np_topk
    if red == "average":
        return da.average(x, axis=axis, keepdims=kd), (lambda: np.average(a, axis=axis, keepdims=kd))
    if red == "average_w":
        if "wdtype" in case:
            from harness.props_ext import c18_extremes

            w = c18_extremes.weights_for(case, a.shape[axis])
        else:
            w = np.random.default_rng(case["data_seed"] + 1).integers(1, 5, size=a.shape[axis]).astype(float)
        wd = da.from_array(w, chunks=(tuple(case["chunks"][axis % a.ndim]),))
        return da.average(x, axis=axis, weights=wd, keepdims=kd), (lambda: np.average(a, axis=axis, weights=w, keepdims=kd))
    if case.get("rdtype"):
        # explicit accumulator dtype (sum / prod family): NumPy wraps in that dtype, so must every tree
        dkw["dtype"] = kw["dtype"] = np.dtype(case["rdtype"])
    return getattr(da, red)(x, axis=axis, **dkw), (lambda: getattr(np, red)(a, axis=axis, **kw))


def has_empty_reduced_chunk(case):
    axis = case["axis"]
    nd = len(case["shape"])
    axes = range(nd) if axis is None else ([axis] if isinstance(axis, int) else list(axis))
    return any(0 in case["chunks"][a % nd] for a in axes)


def check_case(ctx, case, count=True):
    """Run one reduction case on the real code and compare with NumPy. Returns True if it passed."""
    import dask
    import dask_array as da

    red = case["red"]
    a = make_data(case)
    chunks = tuple(tuple(c) for c in case["chunks"])
    with warnings.catch_warnings():
        warnings.simplefilter("ignore")
        x = da.from_array(a, chunks=chunks)
        np_exc = None
        try:
            r, want_fn = call_pair(case, da, x, a)
        except Exception as e:  # build-time refusal
            r, want_fn = None, None
            build_exc = e
        if r is None:
            # a refusal at build time (raises, never wrong data); recorded, not a property failure
            k = f"refusal.build.{red}.{type(build_exc).__name__}"
            ctx.notes[k] = ctx.notes.get(k, 0) + 1
            if count:
                ctx.count(("refusal-build", red, type(build_exc).__name__))
            return True
        try:
            want = np.asarray(want_fn())
        except Exception as e:
            np_exc = e
            want = None
        try:
            cfg = {"array.optimize-graph": False} if case.get("optimize") is False else {}
            with dask.config.set(cfg):
                got = np.asarray(r.compute(**SYNC))
            exc = None
        except Exception as e:
            got, exc = None, e
    if count:
        axis = case["axis"]
        akind = "none" if axis is None else ("int" if isinstance(axis, int) else f"tuple{len(axis)}")
        se = case.get("split_every")
        skind = "none" if se is None else ("int%d" % se if isinstance(se, int) else "dict")
        key = (red, case["dtype"], case.get("nan", "none"), akind, bool(case.get("keepdims")), skind, len(case["shape"]),
               max(len(c) for c in chunks) if chunks else 0, has_empty_reduced_chunk(case))
        if "plan" in case:
            from harness.props_ext import c18_extremes

            key += c18_extremes.plan_tag(case)
        ctx.count(key)
    if np_exc is not None:
        # NumPy does not define a result (all-NaN nanarg*, empty min, …): nothing to compare …
        ctx.notes["numpy_undefined"] = ctx.notes.get("numpy_undefined", 0) + 1
        if (red in ("nanargmin", "nanargmax") and isinstance(np_exc, ValueError) and "All-NaN" in str(np_exc) and exc is None
                and not any(0 in c for c in chunks)):
            # … except that an index must not be invented for a lane without any number: NumPy refuses, so must the tree
            ctx.fail(f"reduction:{red}:all-nan-lane-not-refused", dict(case, got=_short(got), numpy_error=repr(np_exc)[:200]),
                     "nanarg-reduction returns an index for an all-NaN lane where NumPy raises ValueError")
            return False
        return True
    if exc is not None:
        if any(0 in c for c in chunks):
            # raising on zero-length chunks (as left by boolean masking) is a refusal, never wrong data;
            # recorded per class in evidence, not a property failure
            k = f"refusal.zero_chunk.{red}.{type(exc).__name__}"
            ctx.notes[k] = ctx.notes.get(k, 0) + 1
            return True
        sig = f"reduction:{red}:raises"
        if red == "argtopk" and abs(case["k"]) >= a.shape[case["axis"]] and len(chunks[case["axis"]]) > 1:
            sig = "reduction:argtopk:abs-k-equals-axis-length-raises"  # repaired in /repo 82c8f3e; regression signature
        elif red in ("nanargmin", "nanargmax") and isinstance(exc, ValueError) and "All NaN" in str(exc) and _lane_only_nan_and_inf(case, a):
            # NumPy documents nanarg* as untrustworthy on lanes of only NaN and inf (it answers with the index of a NaN);
            # the tree refuses such a lane when a block holding only its NaNs precedes the block with the inf
            sig = "reduction:nanarg:lane-of-only-nan-and-inf-raises"
        ctx.fail(sig, dict(case, error=repr(exc)[:300], want=_short(want)), "reduction raises where NumPy returns a value")
        return False
    sig = None
    what = ""
    if got.shape != want.shape or tuple(r.shape) != want.shape:
        sig, what = f"reduction:{red}:shape", f"shape {got.shape} / advertised {tuple(r.shape)} vs NumPy {want.shape}"
    elif red == "argtopk" and (got.dtype.kind != "i" or r.dtype.kind != "i"):
        sig, what = "reduction:argtopk:dtype", f"dtype {got.dtype} / advertised {r.dtype}, expected an integer index dtype"
    elif red != "argtopk" and (got.dtype.kind != want.dtype.kind or r.dtype.kind != want.dtype.kind):
        sig, what = f"reduction:{red}:dtype", f"dtype {got.dtype} / advertised {r.dtype} vs NumPy {want.dtype}"
    elif red != "argtopk" and "plan" in case and red not in ARG_REDS and (got.dtype != want.dtype or r.dtype != want.dtype):
        # planned (dtype-extreme) cases: the exact NumPy dtype, not only its kind (index dtypes of arg-reductions excepted)
        sig, what = f"reduction:{red}:dtype-exact", f"dtype {got.dtype} / advertised {r.dtype} vs NumPy {want.dtype}"
    else:
        dkind = np.dtype(case["dtype"]).kind
        exact = (dkind in "iub" and red in EXACT_INT) or (dkind in "fc" and red in EXACT_FLOAT)
        if red == "argtopk":
            # indices are not unique under ties: compare the values they select, and validity
            axis = case["axis"]
            ok = got.shape == want.shape and np.all((got >= 0) & (got < a.shape[axis]))
            if ok:
                sel = np.take_along_axis(a, got, axis=axis)
                ok = _eq(sel, want)
                if ok and got.shape[axis] > 1:
                    srt = np.sort(got, axis=axis)
                    ok = bool(np.all(np.diff(srt, axis=axis) > 0))
            if not ok:
                sig, what = "reduction:argtopk:value", "argtopk indices do not select the top-k values"
        elif exact:
            if not _eq(got, want):
                sig, what = f"reduction:{red}:value", "exact reduction differs from NumPy"
        else:
            order = int(red[6:]) if red.startswith("moment") else (2 if ("var" in red) else 1)
            fin = np.abs(a[np.isfinite(a)]) if a.dtype.kind in "fc" else np.abs(a.astype(float))
            mag = float(fin.max()) if fin.size else 1.0
            scale = max(1.0, mag) ** order
            if red in ("sum", "nansum"):
                scale = max(1.0, float(fin.sum()) if fin.size else 1.0)
            if red in ("prod", "nanprod"):
                scale = 0.0
            # single precision (data or result): NumPy itself accumulates in float32; tolerance from the format
            single = any(np.dtype(d).kind in "fc" and np.finfo(d).bits == 32 for d in (a.dtype, want.dtype, got.dtype))
            rtol, arel = (3e-4, 3e-5) if single else (1e-7, 1e-9)
            try:
                np.testing.assert_allclose(got, want, rtol=rtol, atol=arel * scale, equal_nan=True)
            except AssertionError:
                sig, what = f"reduction:{red}:value", f"reduction differs from NumPy beyond rtol={rtol}"
    if sig is None:
        return True
    # classification of the two classes that are reproduced on the unchanged tree (see known_findings)
    if red in VAR_FAMILY and has_empty_reduced_chunk(case) and np.isnan(got).any() and not np.isnan(want).all():
        sig = "reduction:var-family:empty-chunk-combine-nan"
    elif red in ARG_REDS and case["axis"] is None and a.ndim >= 2 and sig.endswith(":value") and got.size == 1:
        g, w = a.reshape(-1)[int(got.reshape(-1)[0])], a.reshape(-1)[int(want.reshape(-1)[0])]
        if g == w or (g != g and w != w):
            sig = "reduction:arg-ravel:tie-not-first-in-C-order"
    elif red in MINMAX and any(0 in c for c in chunks) and not has_empty_reduced_chunk(case) and sig.endswith((":shape", ":value")):
        sig = "reduction:minmax:zero-length-chunk-on-kept-axis"
    elif red == "average_w" and sig.endswith(":value") and _average_int_product_wraps(case, a, got):
        sig = "reduction:average:integer-weights-product-formed-in-integer-dtype"
    ctx.fail(sig, dict(case, got=_short(got), want=_short(want)), what)
    return False


def _lane_only_nan_and_inf(case, a):
    """some lane along the reduced axes consists of NaN and of the infinity that loses the comparison (+inf for
    nanargmin, -inf for nanargmax), at least one of each, and nothing else."""
    if a.dtype.kind != "f" or not a.size:
        return False
    axis = case["axis"]
    axes = tuple(range(a.ndim)) if axis is None else ((axis % a.ndim,) if isinstance(axis, int) else tuple(x % a.ndim for x in axis))
    inf = np.inf if case["red"] == "nanargmin" else -np.inf
    nan, isinf = np.isnan(a), a == inf
    lane = (nan | isinf).all(axis=axes) & nan.any(axis=axes) & isinf.any(axis=axes)
    return bool(np.any(lane))


def _average_int_product_wraps(case, a, got):
    """True when `got` is what the weighted average gives if the product a*w is formed in the INTEGER result type of
    (a, w) (wrapping) instead of NumPy's result_type(a, w, float64): the listed class, nothing else."""
    from harness.props_ext import c18_extremes

    if "wdtype" not in case or a.dtype.kind not in "iub":
        return False
    axis = case["axis"] % a.ndim
    w = c18_extremes.weights_for(case, a.shape[axis])
    if w.dtype.kind not in "iub":
        return False
    shp = [1] * a.ndim
    shp[axis] = -1
    with np.errstate(all="ignore"):
        prod = np.multiply(a, w.reshape(shp))  # integer result type, wraps
        emu = prod.astype("f8").sum(axis=axis, keepdims=bool(case.get("keepdims"))) / w.sum(dtype="f8")
        # wrapped products cancel: absolute tolerance from the magnitude of the summands
        mag = float((np.abs(prod.astype("f8")).sum(axis=axis) / w.sum(dtype="f8")).max()) if prod.size else 0.0
    exact = np.average(a, axis=axis, weights=w, keepdims=bool(case.get("keepdims")))
    return (got.shape == emu.shape and bool(np.allclose(got, emu, rtol=1e-7, atol=1e-12 * mag, equal_nan=True))
            and not np.allclose(emu, exact, rtol=1e-7, atol=0))


def _eq(x, y):
    x = np.asarray(x)
    y = np.asarray(y)
    if x.shape != y.shape:
        return False
    if x.dtype.kind in "fc" or y.dtype.kind in "fc":
        return bool(np.array_equal(x, y, equal_nan=True))
    return bool(np.array_equal(x, y))


def _short(v):
    if v is None:
        return None
    v = np.asarray(v)
    return repr(v.tolist()) if v.size <= 40 else repr(v.ravel()[:40].tolist()) + "…"


def rand_case(ctx, red, rng):
    nd = rng.choice([1, 1, 2, 2, 3])
    empty_ok = red in ("sum", "prod", "any", "all", "nansum", "nanprod", "count_nonzero", "mean")
    lo = 0 if (empty_ok and rng.random() < 0.06) else 1
    shape = [rng.choice([lo, 1, 2, 3, 5, 7, 9, 12]) if nd < 3 else rng.choice([lo, 1, 2, 3, 4, 5]) for _ in range(nd)]
    # zero-length chunks (as left by boolean masking): not for the var family in the random stream
    # (known class, probed separately) and not for arg reductions (they refuse)
    zeros = 0.12 if red not in VAR_FAMILY else 0.0
    chunks = [list(gen.rand_chunks(rng, n, zeros=zeros)) for n in shape]
    if red in SINGLE_AXIS:
        axis = rng.choice([None] + list(range(-nd, nd))) if red in ("argmin", "argmax", "nanargmin", "nanargmax") else rng.randrange(-nd, nd)
    else:
        r = rng.random()
        if r < 0.25:
            axis = None
        elif r < 0.6:
            axis = rng.randrange(-nd, nd)
        else:
            m = rng.randint(0 if red in ("sum", "mean", "max") and rng.random() < 0.1 else 1, nd)
            axs = rng.sample(range(nd), m)
            axis = [a - nd if rng.random() < 0.3 else a for a in axs]
    if red == "count_nonzero" and isinstance(axis, list) and not axis:
        axis = None
    if red in NEEDS_NONEMPTY and 0 in shape:
        shape = [max(1, s) for s in shape]
        chunks = [list(gen.rand_chunks(rng, n)) for n in shape]
    dts = ["int64", "float64", "float64", "bool"]
    if red in COMPLEX_OK:
        dts.append("complex128")
    if red.startswith("nan") and rng.random() < 0.7:
        dts = ["float64"]
    if red in ("topk", "argtopk"):
        dts = ["int64", "float64"]
    dtype = rng.choice(dts)
    nan = "none"
    if dtype in ("float64", "complex128") and red not in ("topk", "argtopk"):
        nan = rng.choice(["none", "none", "one", "some", "slice", "all"]) if (red.startswith("nan") or rng.random() < 0.35) else "none"
    # split_every: None, ints, {axis: 2}, full / partial dict (values >= 2; value 1 is a known class probed separately)
    r = rng.random()
    if r < 0.15:
        se = None
    elif r < 0.6:
        se = rng.choice([2, 2, 3, 4, 5, 16])
    else:
        keys = rng.sample(range(nd), rng.randint(1, nd))
        se = {str(k): rng.choice([2, 2, 3, 4]) for k in keys}
    case = {"red": red, "shape": shape, "chunks": chunks, "axis": axis, "keepdims": rng.random() < 0.4, "split_every": se,
            "dtype": dtype, "nan": nan, "data_seed": rng.randint(0, 2**31 - 1)}
    if dtype == "bool":
        case["p"] = rng.choice([0.05, 0.5, 0.95])
    if red in ("var", "std", "nanvar", "nanstd"):
        case["ddof"] = rng.choice([0, 0, 1])
    if red in ("topk", "argtopk"):
        n = shape[axis]
        # |k| up to and beyond the axis length (every element is kept then; the advertised shape must say so)
        kk = max(1, rng.choice([1, 2, 3, n, n, n + 2]))
        case["k"] = kk * rng.choice([1, -1])
        case["keepdims"] = False
    if red in NO_KEEPDIMS:
        case["keepdims"] = False
    if red in ARG_REDS and axis is None and nd >= 2:
        # flat arg-reduction over several axes: ties are resolved in block order, not C order (known class,
        # probed separately) -> tie-free data in the random stream
        case["unique"] = True
        if dtype == "bool":
            case["dtype"] = "int64"
        if case["nan"] in ("some", "slice", "all"):
            case["nan"] = "one"
    if red in MINMAX:
        # zero-length chunks only on reduced axes (on kept axes: known class, probed separately)
        axes = set(range(nd)) if axis is None else ({axis % nd} if isinstance(axis, int) else {a % nd for a in axis})
        for i in range(nd):
            if i not in axes and 0 in chunks[i]:
                chunks[i] = [c for c in chunks[i] if c] or [shape[i]]
    return case


def search(ctx):
    rng = ctx.rng
    t_start = ctx.elapsed()
    per = ctx.scale(180, 2500)
    # structured small sweep first: 1-d, every reduction x chunking with depth >= 3 x split_every 2 x ties
    for red in REDUCTIONS:
        for chunks in ([1] * 9, [2, 1, 3, 1, 2], [9]):
            for se in (2, 3, None):
                case = {"red": red, "shape": [9], "chunks": [chunks], "axis": 0 if red in SINGLE_AXIS else None, "keepdims": False,
                        "split_every": se, "dtype": "int64" if red not in ("nanmean", "nanvar", "nanstd") else "float64", "nan": "none",
                        "data_seed": rng.randint(0, 2**31 - 1)}
                if red in ("topk", "argtopk"):
                    case["k"] = rng.choice([2, -2, 3])
                check_case(ctx, case)
    # special cells placed per block / per lane; dtype extremes (harness/props_ext/c18_extremes.py)
    from harness.props_ext import c18_extremes

    c18_extremes.nan_stream(ctx, check_case)
    c18_extremes.extreme_stream(ctx, check_case)
    ctx.notes["t.planned_streams_s"] = round(ctx.elapsed() - t_start, 1)
    t_start = ctx.elapsed()
    for _ in range(per):
        for red in REDUCTIONS:
            case = rand_case(ctx, red, rng)
            ok = check_case(ctx, case)
            if ok and len(ctx.samples) < 6 and rng.random() < 0.01:
                ctx.sample(case)
            if ctx.elapsed() - t_start > ctx.scale(25, 420):
                ctx.notes["search_truncated_at"] = red
                return


# --------------------------------------------------------------------------- slices through reductions

def rand_index(rng, shape):
    idx = []
    for n in shape[: rng.randint(0, len(shape))] if rng.random() < 0.3 else shape:
        r = rng.random()
        if r < 0.3 and n > 0:
            idx.append(rng.randint(-n, n - 1))
        elif r < 0.4:
            idx.append(slice(None))
        else:
            s = gen.rand_slice(rng, n, steps=(None, 1, 1, 2, 3, -1, -2))
            idx.append(s)
    if rng.random() < 0.08:
        idx.insert(rng.randint(0, len(idx)), None)
    return tuple(idx)


def enc_index(idx):
    return [("N" if i is None else (f_slice(i) if isinstance(i, slice) else int(i))) for i in idx]


def dec_index(enc):
    from harness.core import p_slice

    out = []
    for t in enc:
        if t == "N":
            out.append(None)
        elif isinstance(t, str):
            out.append(p_slice(t))
        else:
            out.append(int(t))
    return tuple(out)


SLICE_REDS = ["sum", "mean", "max", "min", "var", "argmin", "any", "nansum", "prod", "topk"]


def slice_makes_zero_chunk(r, idx):
    """True when slicing the reduction output `r` with `idx` leaves a zero-length chunk although it may select
    elements (a stepped slice that skips a whole trailing block does): pushed through a min/max this puts a
    zero-length chunk on a kept axis of the input.  Metadata only (unoptimized expression)."""
    import dask

    try:
        with dask.config.set({"array.optimize-graph": False}):
            return any(0 in c for c in r[idx].chunks)
    except Exception:
        return False


def check_slice_case(ctx, case, count=True):
    import dask
    import dask_array as da

    base = dict(case)
    a = make_data(base)
    chunks = tuple(tuple(c) for c in case["chunks"])
    idx = dec_index(case["index"])
    with warnings.catch_warnings():
        warnings.simplefilter("ignore")
        x = da.from_array(a, chunks=chunks)
        r, want_fn = call_pair(base, da, x, a)
        full = np.asarray(want_fn())
        try:
            want = full[idx]
        except IndexError:
            return True
        want = np.asarray(want)
        results = {}
        for opt in (True, False):
            try:
                with dask.config.set({"array.optimize-graph": opt}):
                    y = r[idx]
                    results[opt] = (np.asarray(y.compute(**SYNC)), tuple(y.shape), None)
            except Exception as e:
                results[opt] = (None, None, e)
        zero_chunk = slice_makes_zero_chunk(r, idx)
    if count:
        ctx.count(("slice", case["red"], bool(case.get("keepdims")), tuple("i" if isinstance(i, int) else ("n" if i is None else ("s-" if (i.step or 1) < 0 else "s+")) for i in idx),
                   case["axis"] if not isinstance(case["axis"], list) else tuple(case["axis"])))
    for opt, (got, shp, exc) in results.items():
        tag = "optimized" if opt else "unoptimized"
        if exc is not None:
            sig = f"reduction-slice:{case['red']}:raises"
            if want.size == 0 and opt and results[False][2] is None and case["red"] in NEEDS_NONEMPTY:
                sig = "reduction-slice:empty-selection-raises-when-optimized"
            elif want.size and opt and results[False][2] is None and case["red"] in MINMAX and zero_chunk:
                # the (stepped) slice leaves a zero-length chunk on a kept axis; pushed into the input it hits
                # chunk_min/chunk_max on an empty block: the listed min/max zero-length-chunk class
                sig = "reduction:minmax:zero-length-chunk-on-kept-axis"
            ctx.fail(sig, dict(case, optimize=opt, error=repr(exc)[:300], want=_short(want)),
                     f"sliced reduction raises ({tag}) where NumPy returns a value")
            return False
        bad = None
        if got.shape != want.shape or shp != want.shape:
            bad = f"shape {got.shape}/{shp} vs {want.shape}"
        elif case["dtype"] in ("int64", "bool") and case["red"] in EXACT_INT or case["red"] in EXACT_FLOAT:
            if not _eq(got, want):
                bad = "values"
        else:
            try:
                np.testing.assert_allclose(got, want, rtol=1e-7, atol=1e-7, equal_nan=True)
            except AssertionError:
                bad = "values"
        if bad:
            sig = f"reduction-slice:{case['red']}:{'shape' if bad.startswith('shape') else 'value'}"
            if want.size and opt and case["red"] in MINMAX and zero_chunk:
                sig = "reduction:minmax:zero-length-chunk-on-kept-axis"
            ctx.fail(sig,
                     dict(case, optimize=opt, got=_short(got), want=_short(want)),
                     f"slice of a reduction ({tag}) differs from slicing the NumPy reduction: {bad}")
            return False
    return True


def slice_search(ctx):
    rng = ctx.rng
    t_start = ctx.elapsed()
    for _ in range(ctx.scale(2000, 25000)):
        red = rng.choice(SLICE_REDS)
        nd = rng.choice([2, 2, 3])
        shape = [rng.choice([1, 2, 3, 4, 5, 6]) for _ in range(nd)]
        chunks = [list(gen.rand_chunks(rng, n)) for n in shape]
        if red in SINGLE_AXIS:
            axis = rng.randrange(-nd, nd)
        else:
            # axes in ANY order and spelling (NumPy accepts axis=(1, 0), axis=(-1, 0)): the pushdown must map kept axes by value
            axis = rng.choice([rng.randrange(-nd, nd), [a - nd if rng.random() < 0.3 else a for a in rng.sample(range(nd), rng.randint(1, nd - 1))]])
        kd = rng.random() < 0.5 and red not in NO_KEEPDIMS
        case = {"red": red, "shape": shape, "chunks": chunks, "axis": axis, "keepdims": kd,
                "split_every": rng.choice([None, 2, 3]), "dtype": rng.choice(["int64", "float64"]), "nan": "none",
                "data_seed": rng.randint(0, 2**31 - 1)}
        if red == "topk":
            case["k"] = min(shape[axis], rng.choice([1, 2])) * rng.choice([1, -1])
            case["dtype"] = "int64"
            case["keepdims"] = False
        a = make_data(case)
        # shape of the reduction output
        _, want_fn = call_pair(case, _NoDask(), None, a)
        out_shape = np.asarray(want_fn()).shape
        idx = rand_index(rng, out_shape)
        if red in NEEDS_NONEMPTY:
            # empty selections of identity-less reductions: known class (raises when optimized), probed separately
            try:
                if np.empty(out_shape)[idx].size == 0:
                    continue
            except IndexError:
                continue
        case["index"] = enc_index(idx)
        if red in MINMAX:
            # a slice that leaves a zero-length chunk on a kept axis: member of the listed min/max
            # zero-length-chunk class once pushed into the input (probed separately) -> not in the random stream
            import dask_array as da

            with warnings.catch_warnings():
                warnings.simplefilter("ignore")
                r0, _ = call_pair(case, da, da.from_array(a, chunks=tuple(tuple(c) for c in chunks)), a)
                if slice_makes_zero_chunk(r0, idx):
                    ctx.notes["slice.skipped_minmax_zero_chunk"] = ctx.notes.get("slice.skipped_minmax_zero_chunk", 0) + 1
                    continue
        check_slice_case(ctx, case)
        if ctx.elapsed() - t_start > ctx.scale(10, 150):
            ctx.notes["slice_search_truncated"] = True
            return


class _NoDask:
    def __getattr__(self, n):
        return lambda *a_, **k_: None


# --------------------------------------------------------------------------- known classes / targeted

def probe_known(ctx):
    """Dedicated probes for the classes the random generators avoid (reported via known_findings)."""
    import dask_array as da

    # (1) split_every dict value 1: partition_all(1, …) never reduces; the depth loop skips the axis
    a = np.arange(3)
    x = da.from_array(a, chunks=1)
    for kd in (False,):
        try:
            got = x.sum(split_every={0: 1}, keepdims=kd).compute(**SYNC)
            ctx.count(("probe", "split_every_one"))
            if not np.array_equal(got, a.sum(keepdims=kd)):
                ctx.fail("reduction:sum:split_every-dict-value-1", {"red": "sum", "shape": [3], "chunks": [[1, 1, 1]], "axis": None, "keepdims": kd,
                         "split_every": {"0": 1}, "dtype": "int64", "data": a.tolist(), "got": _short(got), "want": _short(a.sum(keepdims=kd))},
                         "split_every={axis: 1} silently returns the last block's partial instead of the reduction")
        except Exception:
            ctx.notes["probe.split_every_one"] = "refused"
    # (2) var family with a zero-length chunk on the reduced axis once moment_combine is used
    case = {"red": "var", "shape": [2], "chunks": [[1, 0, 1]], "axis": None, "keepdims": False, "split_every": 2, "dtype": "float64",
            "nan": "none", "data_seed": 1}
    check_case(ctx, case)
    # (4) flat arg-reduction over >= 2 axes with ties: first in block order, not first in C order
    case = {"red": "argmin", "shape": [2, 2], "chunks": [[2], [1, 1]], "axis": None, "keepdims": False, "split_every": None, "dtype": "int64",
            "nan": "none", "data_seed": 0, "literal": [[1, 0], [0, 1]]}
    check_case(ctx, case)
    # (5) min/max with a zero-length chunk on a kept (non-reduced) axis of a 3-d array: empty result
    case = {"red": "min", "shape": [3, 1, 1], "chunks": [[3], [0, 1], [1]], "axis": 0, "keepdims": True, "split_every": None, "dtype": "float64",
            "nan": "none", "data_seed": 0, "literal": [[[1.0]], [[2.0]], [[3.0]]]}
    check_case(ctx, case)
    # (6) empty selection of an identity-less reduction: the optimized graph raises
    case = {"red": "max", "shape": [4, 2], "chunks": [[2, 2], [2]], "axis": [1], "keepdims": True, "split_every": None, "dtype": "float64",
            "nan": "none", "data_seed": 0, "index": ["1:3:2", "5:1:2"]}
    check_slice_case(ctx, case)
    # (5b) the same class reached through slice pushdown: the stepped slice 0:3:3 over chunks (1,4,1) leaves chunks (1,0)
    case = {"red": "max", "shape": [2, 6, 2], "chunks": [[2], [1, 4, 1], [2]], "axis": 0, "keepdims": False, "split_every": None,
            "dtype": "int64", "nan": "none", "data_seed": 0, "literal": np.arange(24).reshape(2, 6, 2).tolist(), "index": ["0:3:3", 0]}
    check_slice_case(ctx, case)
    # (7) weighted average of integer data with integer weights: the product a*w was formed in the integer result type
    #     (int8 100*100 wraps) where NumPy forms it in result_type(a, w, float64); repaired in /repo 9a7395b (kind=fixed),
    #     kept as a regression probe; the dtype-extremes stream keeps generating integer x integer weighted averages
    case = {"red": "average_w", "shape": [2], "chunks": [[1, 1]], "axis": 0, "keepdims": False, "split_every": None, "dtype": "int8",
            "nan": "none", "data_seed": 0, "literal": [100, 100], "wdtype": "int8", "wliteral": [100, 50]}
    check_case(ctx, case)
    # (8) nanargmin of a lane made of NaN and +inf only (nanargmax: NaN and -inf) with the NaN in an earlier block than the
    #     inf: raises "All NaN slice encountered" (one block: NumPy's answer, the index of the NaN)
    case = {"red": "nanargmin", "shape": [2], "chunks": [[1, 1]], "axis": 0, "keepdims": False, "split_every": None, "dtype": "float64",
            "nan": "none", "data_seed": 0, "literal": [float("nan"), float("inf")]}
    check_case(ctx, case)
    # (3) argtopk with |k| == axis length spread over several chunks
    case = {"red": "argtopk", "shape": [2], "chunks": [[1, 1]], "axis": 0, "keepdims": False, "split_every": None, "dtype": "int64",
            "nan": "none", "data_seed": 1, "k": 2}
    check_case(ctx, case)


def targeted(ctx):
    """Lift model/implementation disagreements to API-level reductions with the same block structure."""
    rng = ctx.rng
    tried = 0
    seen = set()
    for d in ctx.disagreements[:60]:
        toks = d["request"].split()
        try:
            configs = []
            if toks[0] in ("rd.depth",):
                configs.append(([int(toks[1])], {"0": int(toks[2])}))
            elif toks[0] in ("rd.tree_depth", "rd.layer_keys", "rd.tree_sum_nd"):
                nb = [int(t) for t in toks[1].split(",")] if toks[1] != "_" else []
                sp = [int(t) for t in toks[2].split(",")] if toks[2] != "_" else []
                configs.append((nb, {str(i): s for i, s in enumerate(sp) if s >= 2}))
            elif toks[0] == "rd.chunks":
                cks = [[int(t) for t in c.split(",")] if c != "_" else [] for c in toks[1].split(";")] if toks[1] != "-" else []
                sp = [int(t) for t in toks[2].split(",")] if toks[2] != "_" else []
                configs.append(([len(c) for c in cks], {str(i): s for i, s in enumerate(sp) if s >= 2}))
            elif toks[0] in ("rd.tree_sum", "rd.tree_argmin", "py.partition_all", "rd.num_after"):
                k = int(toks[1])
                configs.append(([rng.randint(1, 12)], {"0": max(2, k)}))
            elif toks[0] == "rd.accept_slice":
                continue
            else:
                configs.append(([rng.randint(1, 9)], {"0": 2}))
            for nb, sd in configs:
                if not nb or not sd:
                    continue
                key = (tuple(nb), tuple(sorted(sd.items())))
                if key in seen:
                    continue
                seen.add(key)
                axes = sorted(int(k) for k in sd)
                for red in ("sum", "min", "mean", "argmin", "var", "any"):
                    for kd in (False, True):
                        for width in (1, 2):
                            case = {"red": red, "shape": [n * width for n in nb], "chunks": [[width] * n for n in nb],
                                    "axis": (axes[0] if red == "argmin" else axes), "keepdims": kd, "split_every": sd if red != "argmin" else {str(axes[0]): sd[str(axes[0])]},
                                    "dtype": "int64", "nan": "none", "data_seed": rng.randint(0, 2**31 - 1)}
                            if red == "argmin" and len(nb) > 1:
                                case["split_every"] = sd
                            tried += 1
                            check_case(ctx, case)
        except Exception as e:
            # check_case maps every exception of the code under test to a failure itself; anything arriving here is
            # a harness-side problem with this request and must not be reported as a property failure
            ctx.notes["targeted_skipped"] = ctx.notes.get("targeted_skipped", 0) + 1
            ctx.notes["targeted_skipped_last"] = f"{d['request'][:80]}: {e!r}"[:200]
    # accept_slice disagreements → sliced reductions
    if any(d["request"].startswith("rd.accept_slice") for d in ctx.disagreements):
        n0 = ctx.evaluations
        slice_search(ctx)
        tried += ctx.evaluations - n0
    ctx.notes["targeted_search"] = f"{tried} API-level reductions around {len(ctx.disagreements)} disagreeing model inputs"


# --------------------------------------------------------------------------- entry

def run(ctx, replay=None):
    ctx.rule = (
        "correspondence: exhaustive small numblocks x split_every (both keepdims) + seeded random larger; a case is distinct by "
        "(family, model output prefix, request size class). search: per reduction, seeded random (shape, chunking incl. 0/1-length, axis in "
        "{None,int,negative,tuple}, keepdims, split_every in {None,int,dict}, dtype, NaN placement); distinct by (reduction, dtype, NaN "
        "placement, axis kind, keepdims, split_every kind, rank, max numblocks, empty chunk on a reduced axis); slices: (reduction, keepdims, index kinds, axis). "
        "planned streams: (reduction x NaN move set [lane-in-block, mixed lane, NaN block, block edges, lane-in-run, global lane, scatter, all]) on rank 2-3, "
        "explicit axes; (reduction x dtype in {u8..u64, i8..i64, bool, f32, f64, c64, c128} x value mode [sparse, pool of dtype limits, wide, small, specials]); "
        "topk/argtopk x dtype x |k| class {1,2,3,n-1,n} x sign; distinct additionally by (plan kind, moves / mode, specials, k class, dtype=, weight dtype). "
        "topk with |k| > lane length has no NumPy meaning and is not generated"
    )
    ctx.assumptions = [
        "element arithmetic of NumPy kernels is the abstract (associative) operation; floats are compared with rtol=1e-7 and are search-only",
        "tree depth and the int split_every root are float expressions: oracle parameters of the model (relation checked each run)",
        "itertools.product / lol_tuples nesting order = C order (tied by the _layer correspondence)",
        "split_every dict values >= 2 (value 1 never reduces: probed separately, reported as a finding)",
    ]
    if replay is not None:
        case = replay.get("case", replay)
        if "index" in case:
            check_slice_case(ctx, {k: v for k, v in case.items() if k not in ("got", "want", "error", "optimize")})
        elif "red" in case and "data_seed" in case:
            check_case(ctx, {k: v for k, v in case.items() if k not in ("got", "want", "error")})
        else:
            probe_known(ctx)
            correspondence(ctx)
            if ctx.disagreements:
                targeted(ctx)
        return
    correspondence(ctx)
    ctx.notes["t.correspondence_s"] = round(ctx.elapsed(), 1)
    probe_known(ctx)
    search(ctx)
    ctx.notes["t.search_s"] = round(ctx.elapsed(), 1)
    slice_search(ctx)
    if ctx.disagreements:
        targeted(ctx)
