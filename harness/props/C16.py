"""C16 — chunk normalization produces valid layouts within the byte limit.

Correspondence: Lean model (Model/Chunks.lean, family `ck.*`) vs dask_array._core_utils
(`blockdims_from_blockshape`, `round_to`, `auto_chunks`, `normalize_chunks`) on the same inputs; the float
root of `auto_chunks` is an ORACLE of the model: the harness recovers it from the real run (by wrapping the
module globals `auto_chunks` / `round_to`, no source change) and checks the oracle relation the theorems assume.
Search: a brute-force validator, independent of the model, on the real `normalize_chunks` over every spec kind.
  Huge lazy axes (2**53 … 2**62, lengths k*c + r around a chunk edge, mixed with small axes) for every spec kind
  where the result stays short, through normalize_chunks and through da.zeros/ones/empty/full metadata.
  Call histories: the same arguments under a sequence of configurations (array.chunk-size / -tolerance) in one
  process; each result is validated under the configuration in force and must equal the result with the limit
  passed explicitly.
Extra failure signatures: config:differs-from-explicit-limit, config:differs-from-fresh-process, api:differs-from-normalize_chunks.
"""
from __future__ import annotations

import itertools
import math
import signal
from fractions import Fraction

import numpy as np

from harness import gen
from harness.core import err_name, f_list, f_ll

DTYPES = ("int8", "int32", "float64", "complex128")
RANDOM_LIMIT_BOUND = 2**40  # stated assumption: random limits stay below 2^40 bytes (float root exact there)
FLOAT_ROOT_ELEMS = 2**48


# ----------------------------------------------------------------------------- tokens

def parse_bytes(s):
    from dask.utils import parse_bytes as pb

    return pb(s)


def f_spec(c):
    if c is None:
        return "N"
    if isinstance(c, str):
        return "A" if c == "auto" else f"b{parse_bytes(c)}"
    if isinstance(c, (tuple, list)):
        return "t" + f_list(c)
    return f"i{int(c)}"


def f_specs(specs):
    specs = list(specs)
    return "-" if not specs else "/".join(f_spec(c) for c in specs)


def f_orc(orc):
    return "_" if not orc else ",".join(f"{a}:{int(b)}" for a, b in orc)


CATCH = (ValueError, ZeroDivisionError, TypeError, NotImplementedError, IndexError, OverflowError, AssertionError)


def impl_call(fn, fmt):
    try:
        return fmt(fn())
    except CATCH as e:
        return err_name(e)


# ----------------------------------------------------------------------- JSON-able cases

def enc(x):
    if isinstance(x, dict):
        return {"__dict__": [[enc(k), enc(v)] for k, v in x.items()]}
    if isinstance(x, tuple):
        return {"__tuple__": [enc(v) for v in x]}
    if isinstance(x, list):
        return [enc(v) for v in x]
    if isinstance(x, (np.integer,)):
        return int(x)
    return x


def dec(x):
    if isinstance(x, dict):
        if "__dict__" in x:
            return {dec(k): dec(v) for k, v in x["__dict__"]}
        if "__tuple__" in x:
            return tuple(dec(v) for v in x["__tuple__"])
    if isinstance(x, list):
        return [dec(v) for v in x]
    return x


# ------------------------------------------------------------------ oracle recovery

class Recorder:
    """Wrap the module globals `auto_chunks` / `round_to` to see what the real run used."""

    def __init__(self, CU):
        self.CU = CU
        self.levels = []
        self.round_calls = []

    def __enter__(self):
        CU = self.CU
        self._a, self._r = CU.auto_chunks, CU.round_to
        a, r = self._a, self._r

        def auto_chunks(chunks, shape, limit, dtype, previous_chunks=None):
            self.levels.append((tuple(chunks), tuple(shape), limit, dtype))
            return a(chunks, shape, limit, dtype, previous_chunks)

        def round_to(c, s):
            self.round_calls.append((c, s))
            return r(c, s)

        CU.auto_chunks, CU.round_to = auto_chunks, round_to
        return self

    def __exit__(self, *exc):
        self.CU.auto_chunks, self.CU.round_to = self._a, self._r
        return False


def eff_limit(limit):
    import dask

    if limit is None:
        limit = dask.config.get("array.chunk-size")
    if isinstance(limit, str):
        limit = parse_bytes(limit)
    return limit


def recover_oracle(levels, round_calls):
    """From the recorded recursion levels of the real `auto_chunks` (no previous_chunks): the oracle list
    [(floor size, size == floor size)] and the list of oracle-relation violations.
    Returns (orc, violations, usable)."""
    orc, bad = [], []
    last_size = None
    for chunks, shape, limit, dtype in levels:
        autos = [i for i, c in enumerate(chunks) if isinstance(c, str) and c == "auto"]
        if not autos:
            continue
        fixed = [c for c in chunks if not (isinstance(c, str) and c == "auto")]
        if any(isinstance(c, tuple) and len(c) == 0 for c in fixed):
            break  # max(()) raises: the model stops before consuming an oracle entry
        lb = math.prod(c if not isinstance(c, tuple) else max(c) for c in fixed)
        if lb == 0:
            break  # ZeroDivisionError before the root
        if lb < 0:
            return orc, bad, False  # negative base: outside the model's domain (complex root)
        lim = max(1, eff_limit(limit))
        k = len(autos)
        size = (lim / dtype.itemsize / lb) ** (1 / k)  # the same float expression as the implementation
        if not (isinstance(size, float) and math.isfinite(size) and size >= 0):
            return orc, bad, False
        isize = math.floor(size)
        orc.append((isize, size == isize))
        last_size = size
        if isize**k * lb * dtype.itemsize > lim:
            bad.append({"isize": isize, "k": k, "largest_block": lb, "itemsize": dtype.itemsize, "limit": lim})
    # sanity: the size handed to round_to at the last level is the one recomputed here
    if round_calls and last_size is not None and any(c != last_size for c, _ in round_calls):
        return orc, bad, False
    return orc, bad, True


# --------------------------------------------------------------------------- generators

def rand_spec_axis(rng, n, kinds=None):
    k = rng.choice(kinds or ("int", "int", "full", "none", "tuple", "auto", "auto", "bytes"))
    if k == "int":
        return rng.choice([1, 2, 3, max(1, n), max(1, n // 2), n + 1, rng.randint(1, max(1, n))])
    if k == "full":
        return -1
    if k == "none":
        return None
    if k == "tuple":
        return tuple(gen.rand_chunks(rng, n, zeros=0.15, maxparts=6))
    if k == "bytes":
        return "auto-bytes"
    return "auto"


def present(rng, specs, shape):
    """Choose a presentation of the per-axis specs: tuple / list / scalar / dict (missing axes = None)."""
    specs = list(specs)
    r = rng.random()
    if len(specs) != len(shape):
        return list(specs) if r < 0.3 else tuple(specs)
    if len(set(map(repr, specs))) == 1 and not isinstance(specs[0], tuple) and specs[0] is not None and r < 0.5 and specs:
        return specs[0]
    if r < 0.7:
        if any(c is None for c in specs) or rng.random() < 0.3:
            d = {i: c for i, c in enumerate(specs) if c is not None or rng.random() < 0.3}
            if len(d) or not specs:
                return d
    if r < 0.8:
        return list(specs)
    return tuple(specs)


# ------------------------------------------------------------------------ the validator

class Timeout(Exception):
    pass


def _alarm(*a):
    raise Timeout()


def call_normalize(CU, spec, shape, limit, dtype, prev, config, timeout=20.0):
    """Run the real normalize_chunks (under a watchdog). Returns ("ok", out) / ("err", exc) / ("hang", None)."""
    import dask

    kw = {}
    if limit is not None:
        kw["limit"] = limit
    if dtype is not None:
        kw["dtype"] = np.dtype(dtype)
    if prev is not None:
        kw["previous_chunks"] = prev
    old = signal.signal(signal.SIGALRM, _alarm)
    signal.setitimer(signal.ITIMER_REAL, timeout)
    try:
        with dask.config.set(config or {}):
            return "ok", CU.normalize_chunks(spec, shape, **kw)
    except Timeout:
        return "hang", None
    except Exception as e:  # a refusal
        return "err", e
    finally:
        signal.setitimer(signal.ITIMER_REAL, 0)
        signal.signal(signal.SIGALRM, old)


def expand(spec, shape):
    """Per-axis view of a presented spec, written from the documentation (not from the code):
    scalar -> every axis; dict -> axis->spec, missing = None; list/tuple -> per axis, except a flat tuple of
    ints for a 1-d shape which is the explicit chunking of that axis. Returns None if no per-axis view exists."""
    if isinstance(spec, dict):
        return [spec.get(i) for i in range(len(shape))]
    if isinstance(spec, (int, str)) and not isinstance(spec, bool):
        return [spec] * len(shape)
    if isinstance(spec, (list, tuple)):
        spec = list(spec)
        if len(shape) == 1 and len(spec) > 1 and all(isinstance(c, int) for c in spec):
            return [tuple(spec)]
        if len(spec) == len(shape):
            return spec
        if not spec and all(s == 0 for s in shape):
            return [(0,)] * len(shape)
    return None


def brute_uniform(n, c):
    if n == 0:
        return (0,)
    out, left = [], n
    while left > 0:
        out.append(min(c, left))
        left -= out[-1]
    return tuple(out)


def is_auto(c):
    return isinstance(c, str)


def validate(ctx, case, status, out):
    """The property itself, on one real call. `case` is JSON-able and self-contained."""
    import dask

    spec, shape = dec(case["spec"]), tuple(case["shape"])
    limit, dtype, prev, config = case.get("limit"), case.get("dtype"), dec(case.get("prev")), case.get("config") or {}
    axes = expand(spec, shape)
    if status == "hang":
        if prev is not None and any(n >= 2**50 for n in shape):
            # seen on the unchanged tree: the reduce loop of auto_chunks flips between two floats forever
            ctx.fail("auto:hang:huge-previous_chunks", case, "normalize_chunks does not return (auto axis beyond 2**50 elements with previous_chunks)")
        else:
            ctx.fail("auto:hang", case, "normalize_chunks did not return within 20 s on a tiny input")
        return "hang"
    if status == "err":
        return "refused"
    # ---- structure
    def bad(sig, what):
        c = dict(case)
        c["got"] = repr(out)
        ctx.fail(sig, c, what)
        return sig

    if not isinstance(out, tuple) or len(out) != len(shape):
        return bad("layout:rank", "result does not have one tuple per axis")
    for i, (c, n) in enumerate(zip(out, shape)):
        a = axes[i] if axes is not None else None
        if not isinstance(c, tuple) or len(c) == 0:
            return bad("layout:empty-axis", f"axis {i}: empty or non-tuple entry")
        if any(isinstance(x, (bool, float)) or not isinstance(x, (int, np.integer)) for x in c):
            return bad("layout:non-int", f"axis {i}: non-integer chunk size")
        if any(x < 0 for x in c):
            if isinstance(a, int) and a < -1:
                return bad("uniform:negative-int", f"axis {i}: uniform size {a} returned negative chunk sizes")
            if isinstance(a, (tuple, list)) and any(x < 0 for x in a):
                return bad("explicit:negative-entry", f"axis {i}: explicit tuple with a negative size is echoed back")
            return bad("layout:negative", f"axis {i}: negative chunk size")
        if sum(c) != n:
            return bad("layout:sum", f"axis {i}: chunks sum to {sum(c)} != {n}")
        explicit_zero = isinstance(a, (tuple, list)) and 0 in a
        if n > 0 and 0 in c and not explicit_zero:
            return bad("layout:zero-chunk", f"axis {i}: zero-size chunk on a non-empty axis")
        if isinstance(a, int) and not isinstance(a, bool) and a >= 1 and tuple(c) != brute_uniform(n, a):
            return bad("uniform:shape", f"axis {i}: uniform size {a} must give all {a} but a smaller positive last block")
        if (a is None or (isinstance(a, int) and a == -1)) and axes is not None and tuple(c) != (n,):
            return bad("full:shape", f"axis {i}: -1/None must give one block spanning the axis")
    # ---- byte limit on auto axes
    if axes is not None and any(is_auto(a) for a in axes) and dtype is not None:
        with dask.config.set(config):
            lim = eff_limit(limit)
            for a in axes:  # a byte string sets the limit
                if is_auto(a) and a != "auto" and limit is None:
                    lim = parse_bytes(a)
            tol = dask.config.get("array.chunk-size-tolerance")
        itemsize = np.dtype(dtype).itemsize
        fixed = itemsize * math.prod(max(c) for c, a in zip(out, axes) if not is_auto(a))
        block = itemsize * math.prod(max(c) for c in out)
        if fixed <= lim and block > lim:
            c = dict(case)
            c.update(got=repr(out), block_bytes=block, limit_bytes=lim, tolerance=tol)
            prev_zero = prev is not None and any(
                is_auto(a) and isinstance(p, (tuple, list)) and n > 0 and 0 in p for a, p, n in zip(axes, prev, shape)
            )
            if prev is not None and Fraction(block) <= Fraction(tol) * lim:
                sig = "auto:previous_chunks-tolerance"
            elif prev is not None and prev_zero:
                sig = "auto:limit-exceeded:prev-zero-chunk"
            elif prev is None and lim // itemsize >= FLOAT_ROOT_ELEMS:
                sig = "auto:limit-exceeded:float-root"
            else:
                sig = "auto:limit-exceeded"
            ctx.fail(sig, c, f"largest block {block} B exceeds the limit {lim} B although the fixed axes alone fit ({fixed} B)")
            return sig
        if fixed > lim and block > fixed and all(n > 0 for n in shape):
            # the limit is below what the fixed axes force (e.g. 0 B, 1 B, '0B', less than one element): the exemption
            # covers the fixed axes only — the smallest reachable block (auto axes cut to one element) is `fixed`
            # bytes, so anything larger means the limit was not honoured although smaller blocks were possible
            c = dict(case)
            c.update(got=repr(out), block_bytes=block, limit_bytes=lim, fixed_bytes=fixed, tolerance=tol)
            prev_zero = prev is not None and any(
                is_auto(a) and isinstance(p, (tuple, list)) and n > 0 and 0 in p for a, p, n in zip(axes, prev, shape)
            )
            if prev is not None and prev_zero:
                sig = "auto:limit-exceeded:prev-zero-chunk"
            elif prev is not None:
                sig = "auto:not-minimal-under-tiny-limit:previous_chunks"
            else:
                sig = "auto:not-minimal-under-tiny-limit"
            ctx.fail(sig, c, f"limit {lim} B is below the {fixed} B the fixed axes force, yet the largest block is {block} B "
                             f"(one-element auto blocks give {fixed} B)")
            return sig
        return "auto-fits" if fixed <= lim else "auto-exempt"
    return "ok"


def fresh_normalize(items):
    """Runs in a NEW interpreter (harness.props_ext.fresh_process): each case's call without its history, as the first
    call with those arguments in the process."""
    from dask_array import _core_utils as CU

    seen, out = set(), []
    for case in items:
        key = repr([case.get(k) for k in ("spec", "shape", "limit", "dtype", "prev")])
        if key in seen:
            out.append(None)
            continue
        seen.add(key)
        status, res = call_normalize(CU, dec(case["spec"]), tuple(case["shape"]), case.get("limit"), case.get("dtype"), dec(case.get("prev")), case.get("config"))
        out.append(repr(res) if status == "ok" else status)
    return out


def compare_with_fresh(ctx, items):
    """items: [(case with its history, result seen in this process)]"""
    from harness.props_ext.fresh_process import run_fresh

    if not items:
        return
    fresh = run_fresh("C16", "fresh_normalize", [c for c, _ in items])
    n = 0
    for (case, out), f in zip(items, fresh):
        if f is None or f in ("err", "hang"):
            continue
        n += 1
        if repr(out) != f:
            ctx.fail("config:differs-from-fresh-process", dict(case, fresh_check=True, got=repr(out), want=f),
                     "normalize_chunks after the same call was made under other configurations differs from what the call gives "
                     "as the first call of a new interpreter under the same configuration")
    ctx.notes["histories_compared_with_fresh_interpreter"] = ctx.notes.get("histories_compared_with_fresh_interpreter", 0) + n


def call_api(fn, spec, shape, dtype, config):
    """Chunks of a lazily created array (metadata only: nothing is allocated)."""
    import dask
    import dask_array as da

    old = signal.signal(signal.SIGALRM, _alarm)
    signal.setitimer(signal.ITIMER_REAL, 20.0)
    try:
        with dask.config.set(config or {}):
            f = getattr(da, fn)
            x = f(shape, 7, chunks=spec, dtype=dtype) if fn == "full" else f(shape, chunks=spec, dtype=dtype)
            return "ok", x.chunks
    except Timeout:
        return "hang", None
    except Exception as e:
        return "err", e
    finally:
        signal.setitimer(signal.ITIMER_REAL, 0)
        signal.signal(signal.SIGALRM, old)


def run_case(ctx, CU, case):
    """case["history"]: configurations under which the SAME call is made first (results discarded) — the call under
    case["config"] must not depend on them.  case["via"]: None (normalize_chunks) or a creation function name."""
    spec, shape, prev = dec(case["spec"]), tuple(case["shape"]), dec(case.get("prev"))
    for cfg in case.get("history") or []:
        call_normalize(CU, spec, shape, case.get("limit"), case.get("dtype"), prev, cfg)
    via = case.get("via")
    if via:
        status, out = call_api(via, spec, shape, case.get("dtype"), case.get("config"))
        st2, out2 = call_normalize(CU, spec, shape, None, case.get("dtype"), None, case.get("config"))
        if status == "ok" and st2 == "ok" and tuple(out) != tuple(out2):
            ctx.fail("api:differs-from-normalize_chunks", dict(case, got=repr(out), want=repr(out2)),
                     f"da.{via}(shape, chunks=spec).chunks differs from normalize_chunks(spec, shape)")
    else:
        status, out = call_normalize(CU, spec, shape, case.get("limit"), case.get("dtype"), prev, case.get("config"),
                                     timeout=3.0 if any(n >= HUGE_MIN for n in shape) else 20.0)
    res = validate(ctx, case, status, out)
    if res in ("auto-fits", "auto-exempt") and case.get("history") is not None and not via and case.get("limit") is None:
        # the limit comes from the configuration (or a byte string): passing the same limit explicitly is the same request
        import dask

        axes = expand(spec, shape)
        with dask.config.set(case.get("config") or {}):
            lim = eff_limit(None)
            for a in axes:
                if is_auto(a) and a != "auto":
                    lim = parse_bytes(a)
        st2, out2 = call_normalize(CU, spec, shape, lim, case.get("dtype"), prev,
                                   dict(case.get("config") or {}, **{"array.chunk-size": "3B"}))
        if st2 == "ok" and tuple(out2) != tuple(out):
            ctx.fail("config:differs-from-explicit-limit", dict(case, got=repr(out), want=repr(out2), limit_in_force=lim),
                     "normalize_chunks under a configured array.chunk-size differs from the same call with limit= that value")
            res = "config:differs-from-explicit-limit"
    return status, out, res


def mk_case(spec, shape, limit=None, dtype=None, prev=None, config=None, history=None, via=None):
    c = {"spec": enc(spec), "shape": list(shape), "limit": limit, "dtype": dtype, "prev": enc(prev), "config": config or {}}
    if history is not None:
        c["history"] = history
    if via:
        c["via"] = via
    return c


# ------------------------------------------------------------------- huge (lazy) axes

HUGE_MIN, HUGE_MAX = 2**53, 2**62


def rand_huge_axis(rng):
    """(n, c, k): HUGE_MIN <= n = k*c + r < HUGE_MAX with k <= 40 blocks of size c and r around a chunk edge."""
    while True:
        ce = rng.randint(47, 60)
        c = rng.choice([2**ce, 2**ce, 2**ce + 1, 2**ce - 1, 3 * 2**(ce - 1), 10**(ce * 3 // 10), rng.randint(2**ce, 2**(ce + 1))])
        k = rng.choice([1, 2, 3, 5, 7, 8, 16, 17, 31, 33, 40])
        r = rng.choice([-2, -1, 0, 1, 1, 2, 3, rng.randint(0, c - 1), c // 2, c - 1])
        n = k * c + r
        if HUGE_MIN <= n < HUGE_MAX:
            return n, c, k


def rand_partition(rng, n, parts):
    cuts = sorted(rng.randint(1, n - 1) for _ in range(parts - 1))
    out = [b - a for a, b in zip([0] + cuts, cuts + [n])]
    return tuple(x for x in out if x > 0) or (n,)


def rand_huge_case(rng):
    """Shapes mixing huge and small axes x every spec kind; auto limits sized so that the result stays short."""
    r = rng.choice([1, 1, 2, 2, 3])
    nh = rng.randint(1, min(r, 2))
    pos = set(rng.sample(range(r), nh))
    shape, specs, blocks = [], [], []
    for i in range(r):
        if i in pos:
            n, c, k = rand_huge_axis(rng)
            kind = rng.choice(["int", "int", "int", "full", "none", "tuple", "tuple-uniform", "auto", "auto"])
            if kind == "int":
                sp = c
            elif kind == "full":
                sp = -1
            elif kind == "none":
                sp = None
            elif kind == "tuple":
                sp = rand_partition(rng, n, rng.randint(1, 12))
            elif kind == "tuple-uniform":
                sp = brute_uniform(n, c)
            else:
                sp = "auto"
            blocks.append((n + rng.choice([1, 2, 3, 4, 6]) - 1) // rng.choice([1, 2, 3, 4, 6]) if sp == "auto" else None)
        else:
            n = rng.choice([0, 1, 1, 2, 3, 5, 8, 13])
            sp = rand_spec_axis(rng, n, kinds=("int", "full", "none", "tuple", "auto"))
            blocks.append(max(1, n) if sp == "auto" else None)
        shape.append(n)
        specs.append(sp)
    dtype = rng.choice(DTYPES)
    limit, config, prev = None, {}, None
    if any(sp == "auto" for sp in specs):
        itemsize = np.dtype(dtype).itemsize
        fixed = math.prod(max(1, (sp if isinstance(sp, int) and sp > 0 else n) if not isinstance(sp, tuple) else max(sp))
                          for sp, n in zip(specs, shape) if sp != "auto")
        lim = itemsize * fixed * math.prod(b for b in blocks if b is not None)
        lim += rng.choice([0, 0, 1, -1, itemsize, rng.randint(0, lim // 1000 + 1)])
        lim = max(1, lim)
        src = rng.random()
        if src < 0.4:
            limit = lim
        elif src < 0.7:
            config["array.chunk-size"] = lim
        else:  # a byte string in the spec (parse_bytes goes through a float: the value it returns is the limit)
            bs = f"{lim}B"
            specs = [bs if sp == "auto" else sp for sp in specs]
        if rng.random() < 0.4:
            prev = tuple(rand_partition(rng, n, rng.randint(1, 8)) if n >= HUGE_MIN else tuple(gen.rand_chunks(rng, n, maxparts=5)) for n in shape)
    return mk_case(present(rng, specs, shape), shape, limit, dtype, prev, config)


def kind_of(a):
    if a is None:
        return "None"
    if isinstance(a, str):
        return "auto" if a == "auto" else "bytes"
    if isinstance(a, (tuple, list)):
        return "tuple0" if 0 in a else "tuple"
    if isinstance(a, int):
        return "-1" if a == -1 else ("neg" if a < 0 else ("0" if a == 0 else "int"))
    return type(a).__name__


# ------------------------------------------------- extreme / falsy / boundary limits and their spellings

LIMIT_DTYPES = ("int8", "int16", "S3", "int32", "S5", "S7", "float64", "V10", "S12", "complex128")  # itemsize 1..16
NP_INTS = ("int64", "int32", "uint8", "uint16", "uint64", "intp")


def spellings_of(V):
    """Every way of writing the byte limit V (an int >= 0) that the documentation accepts. Each entry is JSON-able:
    ["int"] / ["np", typename] / ["float"] / ["npfloat"] / ["str", text]."""
    from dask.utils import parse_bytes as pb

    out = [["int"], ["float"], ["npfloat"]]
    for t in NP_INTS:
        if V <= np.iinfo(t).max:
            out.append(["np", t])
    texts = [f"{V}B", f"{V} B", f"{V}b", f"{V}.0B", f"{V} b", f"0{V}B"]
    if V % 1024 == 0:
        texts += [f"{V // 1024}KiB", f"{V // 1024}kib", f"{V // 1024} kiB", f"{V // 1024}KIB"]
    if V % 1000 == 0:
        texts += [f"{V // 1000}kB", f"{V // 1000}KB", f"{V // 1000} kb", f"{V // 1000}e3B", f"{V // 1000}E3 b"]
    if V % 512 == 0 and V % 1024 != 0:
        texts += [f"{V / 1024}kiB", f"{V / 1024} KiB"]
    if V % 500 == 0 and V % 1000 != 0:
        texts += [f"{V / 1000}kB"]
    if V % 2**20 == 0:
        texts += [f"{V // 2**20}MiB", f"{V // 2**20} mib"]
    if V == 0:
        texts += ["0kB", "0 MiB", "0.0 kB", "0e3B"]
    for t in texts:
        try:
            if pb(t) == V:  # the spelling really denotes V (dask.utils.parse_bytes is not part of dask_array)
                out.append(["str", t])
        except Exception:
            pass
    return out


def spelled(sp, V):
    if sp[0] == "int":
        return int(V)
    if sp[0] == "float":
        return float(V)
    if sp[0] == "npfloat":
        return np.float64(V)
    if sp[0] == "np":
        return getattr(np, sp[1])(V)
    return sp[1]


def limits_values(rng, shape, dtype, prev, fixed_elems):
    b = np.dtype(dtype).itemsize
    nbytes = b * math.prod(shape)
    row = b * math.prod(shape[1:]) if len(shape) > 1 else b
    vals = [0, 0, 1, b - 1, b, b + 1, 2 * b, row - 1, row, row + 1, b * fixed_elems - 1, b * fixed_elems, b * fixed_elems + 1,
            2 * b * fixed_elems, nbytes - 1, nbytes, nbytes + 1, 3 * nbytes, 2**31, 2**40 + 1, 2**62,
            1000, 1024, 512, 500, 2000, 2048, 2**20, rng.randint(0, max(1, nbytes))]
    if prev is not None:
        pc = b * math.prod(max(p) for p in prev)
        vals += [pc - 1, pc, pc + 1, 2 * pc]
    return sorted({v for v in vals if v >= 0})


def limits_call(CU, case):
    """One call of the real code with the limit `value` written as `spelling` and supplied through `source`.
    Returns (status, chunks)."""
    import dask
    import dask_array as da

    spec, shape, prev = dec(case["spec"]), tuple(case["shape"]), dec(case.get("prev"))
    V, sp, src, dtype = case["value"], case["spelling"], case["source"], case["dtype"]
    cfg = dict(case.get("config") or {})
    L = spelled(sp, V)

    def with_bytes(spec, text, mode):
        axes = expand(spec, shape)
        done = False
        new = []
        for a in axes:
            if a == "auto" and (mode == "all" or not done):
                new.append(text)
                done = True
            else:
                new.append(a)
        if isinstance(spec, dict):
            return {i: a for i, a in enumerate(new) if i in spec}
        if isinstance(spec, str):
            return text if mode == "all" else tuple(new)
        return type(spec)(new)

    if src == "arg":
        return call_normalize(CU, spec, shape, L, dtype, prev, cfg)
    if src == "spec":
        return call_normalize(CU, with_bytes(spec, L, case.get("bytes_mode", "all")), shape, None, dtype, prev, cfg)
    if src == "spec+arg":
        return call_normalize(CU, with_bytes(spec, L, case.get("bytes_mode", "all")), shape, int(V), dtype, prev, cfg)
    if src == "config":
        cfg["array.chunk-size"] = L
        return call_normalize(CU, spec, shape, None, dtype, prev, cfg)
    old = signal.signal(signal.SIGALRM, _alarm)
    signal.setitimer(signal.ITIMER_REAL, 20.0)
    try:
        if src in ("create", "create-config"):
            fn = case.get("via") or "zeros"
            s2 = with_bytes(spec, L, case.get("bytes_mode", "all")) if src == "create" else spec
            if src == "create-config":
                cfg["array.chunk-size"] = L
            with dask.config.set(cfg):
                f = getattr(da, fn)
                x = f(shape, 7, chunks=s2, dtype=dtype) if fn == "full" else f(shape, chunks=s2, dtype=dtype)
                return "ok", x.chunks
        if src in ("rechunk", "rechunk-config"):
            kw = {}
            if src == "rechunk":
                kw["block_size_limit"] = L
            else:
                cfg["array.chunk-size"] = L
            with dask.config.set(cfg):
                x = da.zeros(shape, chunks=prev, dtype=dtype)
                y = x.rechunk(spec, **kw) if case.get("via") != "function" else da.rechunk(x, spec, **kw)
                return "ok", y.chunks
        raise AssertionError(src)
    except Timeout:
        return "hang", None
    except Exception as e:
        return "err", e
    finally:
        signal.setitimer(signal.ITIMER_REAL, 0)
        signal.signal(signal.SIGALRM, old)


def run_limits_case(ctx, CU, case):
    """The spelled call must (1) be a valid layout within max(limit, what the fixed axes force) [validate], and (2) equal
    the plain call normalize_chunks(spec, shape, limit=int(value), dtype=, previous_chunks=) — the same request."""
    import warnings

    with warnings.catch_warnings():
        warnings.simplefilter("ignore")  # NumPy-scalar limits turn the ZeroDivisionError of a zero-length fixed axis into a warning
        status, out = limits_call(CU, case)
    res = validate(ctx, case, status, out)  # case["limit"] == value: the limit in force whatever its spelling / source
    spec, shape, prev = dec(case["spec"]), tuple(case["shape"]), dec(case.get("prev"))
    st0, out0 = call_normalize(CU, spec, shape, int(case["value"]), case["dtype"], prev, case.get("config"))
    if st0 == "ok" and status == "ok" and tuple(out) != tuple(out0):
        ctx.fail("limit:spelling-differs", dict(case, got=repr(out), want=repr(out0)),
                 f"limit {case['value']} B written as {spelled(case['spelling'], case['value'])!r} through {case['source']} gives a layout "
                 f"different from normalize_chunks(..., limit={int(case['value'])})")
        res = "limit:spelling-differs"
    elif (st0 == "ok") != (status == "ok") and "hang" not in (st0, status):
        # one spelling refused, the other accepted: not a bad layout (a refusal), but recorded
        ctx.notes["limit_spellings_refused_while_int_accepted"] = ctx.notes.get("limit_spellings_refused_while_int_accepted", 0) + 1
        ex = ctx.notes.setdefault("limit_spelling_refusal_examples", [])
        if len(ex) < 5:
            ex.append({"source": case["source"], "spelling": case["spelling"], "value": case["value"], "dtype": case["dtype"],
                       "spelled": status if status != "err" else type(out).__name__, "int": st0 if st0 != "err" else type(out0).__name__})
        res = "spelling-refusal-differs"
    return status, out, res


def search_limits(ctx, CU, go_count):
    """Systematic: every limit class (0, 1, itemsize±1, one row ±1, what the fixed axes force ±1, one previous chunk ±1, the array
    ±1, far beyond) x every spelling x every source x spec shapes x itemsizes 1..16 x shapes with length-0/1 axes."""
    rng = ctx.rng
    t_start = ctx.elapsed()
    budget = ctx.scale(7.0, 90.0)
    groups = 0
    calls = 0
    seen_classes = set()
    fixed_shapes = [(12,), (6, 10), (3, 4, 5), (1, 7), (5, 1), (1,), (2, 3, 1, 4)]
    it = 0
    while ctx.elapsed() - t_start < budget and it < ctx.scale(4000, 100000):
        it += 1
        if it <= len(fixed_shapes) * 3:
            shape = fixed_shapes[(it - 1) % len(fixed_shapes)]
        else:
            shape = tuple(rng.choice([0, 1, 1, 2, 3, 5, 6, 8, 10, 13, 40]) for _ in range(rng.randint(1, 3)))
        r = len(shape)
        dtype = LIMIT_DTYPES[(it - 1) % len(LIMIT_DTYPES)] if it <= 40 else rng.choice(LIMIT_DTYPES)
        kind = "all" if it % 3 == 1 else rng.choice(["all", "mixed", "mixed", "dict", "scalar"])
        if kind in ("all", "scalar") or r == 1:
            specs = ["auto"] * r
        else:
            specs = [rng.choice(["auto", "auto", -1, None, rng.randint(1, max(1, n)), max(1, n // 2), tuple(gen.rand_chunks(rng, n, maxparts=4))]) for n in shape]
            if "auto" not in specs:
                specs[rng.randrange(r)] = "auto"
        if kind == "scalar":
            spec = "auto"
        elif kind == "dict":
            spec = {i: c for i, c in enumerate(specs) if c is not None}
        else:
            spec = tuple(specs) if rng.random() < 0.8 else list(specs)
        prev = tuple(tuple(gen.rand_chunks(rng, n, maxparts=5)) for n in shape) if rng.random() < 0.45 and all(n > 0 for n in shape) else None
        fixed_elems = math.prod((n if (c is None or c == -1) else (max(c) if isinstance(c, tuple) else min(c, max(1, n)))) for c, n in zip(specs, shape) if c != "auto")
        vals = limits_values(rng, shape, dtype, prev, fixed_elems)
        # every run: 0 and 1 first, then a random subset of the other classes
        chosen = [0, 1] + rng.sample(vals, min(len(vals), 3))
        ambient = rng.choice([{}, {}, {"array.chunk-size": "1MiB"}, {"array.chunk-size": 7}, {"array.chunk-size": "64B"}])
        for V in dict.fromkeys(chosen):
            sps = spellings_of(V)
            strs = [s for s in sps if s[0] == "str"]
            nonstr = [s for s in sps if s[0] != "str"]
            plan = [("arg", ["int"])]
            plan += [("arg", s) for s in rng.sample(nonstr, min(3, len(nonstr)))]
            plan += [("arg", s) for s in rng.sample(strs, min(2, len(strs)))]
            plan += [("spec", s) for s in rng.sample(strs, min(2, len(strs)))]
            plan += [("spec+arg", rng.choice(strs))] if strs else []
            plan += [("config", s) for s in rng.sample(sps, min(2, len(sps)))]
            if prev is not None and not isinstance(spec, dict) and None not in specs and V <= 2**40 + 1:
                plan += [("rechunk", s) for s in rng.sample(sps, min(3, len(sps)))] + [("rechunk", ["int"]), ("rechunk-config", rng.choice(sps))]
            if prev is None and V <= 2**40 + 1:
                plan += [("create", rng.choice(strs))] if strs else []
                plan += [("create-config", rng.choice(sps))]
            groups += 1
            for src, sp in plan:
                case = {"kind": "limits", "source": src, "value": V, "spelling": sp, "spec": enc(spec), "shape": list(shape), "limit": V,
                        "dtype": dtype, "prev": enc(prev), "config": dict(ambient)}
                if src in ("spec", "spec+arg", "create"):
                    case["bytes_mode"] = rng.choice(["all", "one"])
                if src in ("create", "create-config"):
                    case["via"] = rng.choice(["zeros", "ones", "empty", "full"])
                if src in ("rechunk", "rechunk-config") and rng.random() < 0.3:
                    case["via"] = "function"
                status, out, res = run_limits_case(ctx, CU, case)
                calls += 1
                b = np.dtype(dtype).itemsize
                vclass = ("0" if V == 0 else "1" if V == 1 else "<item" if V < b else "item" if V == b else
                          "<fixed" if V < b * fixed_elems else ">=array" if V >= b * math.prod(shape) else "mid")
                spclass = sp[0] if sp[0] != "str" else "str"
                go_count(("limits", src, spclass, vclass, kind, prev is not None, res))
                seen_classes.add((src, spclass, vclass))
    ctx.notes["limits_stream"] = {"groups(spec,shape,dtype,prev,value)": groups, "calls": calls, "distinct(source,spelling kind,value class)": len(seen_classes),
                                  "seconds": round(ctx.elapsed() - t_start, 1)}


# ------------------------------------------------------------------------------ main

def run(ctx, replay=None):
    from dask_array import _core_utils as CU

    if replay is not None:
        case = replay.get("case", replay)
        if case.get("kind") == "limits":
            case = {k: v for k, v in case.items() if k not in ("got", "want", "block_bytes", "limit_bytes", "fixed_bytes", "tolerance")}
            status, out, res = run_limits_case(ctx, CU, case)
            ctx.count(("replay", res))
            ctx.notes["replay_result"] = f"{status} {out!r} -> {res}"
            return
        if "spec" in case:
            case = {k: case.get(k) for k in ("spec", "shape", "limit", "dtype", "prev", "config", "history", "via") if k in case or k not in ("history", "via")}
            status, out, res = run_case(ctx, CU, case)
            if replay.get("case", replay).get("fresh_check") and status == "ok":
                compare_with_fresh(ctx, [(case, out)])
            ctx.count(("replay", res))
            ctx.notes["replay_result"] = f"{status} {out!r} -> {res}"
        return

    rng = ctx.rng
    ctx.rule = (
        "correspondence: exhaustive small (axis ≤ N, every int/None/-1/tuple spec incl. 0, negatives, bad sums) + seeded "
        "random large, distinct by (family, model output prefix, size class); search: exhaustive rank ≤ 2 small shapes × "
        "every spec kind × limits + seeded random rank ≤ 4 with dtype/limit/config/previous_chunks, distinct by "
        "(sorted per-axis spec kinds, rank, presentation, previous_chunks?, limit source, verdict class); huge lazy axes "
        "(2^53..2^62, n = k*c + r, k <= 40, r around the chunk edge) mixed with small axes x every spec kind, through "
        "normalize_chunks and da.zeros/ones/empty/full; call histories (same arguments, 2-5 configurations, A..A)"
    )
    ctx.assumptions += [
        "byte-limit clause read as: itemsize·∏max(all axes) ≤ limit unless itemsize·∏max(non-auto axes) > limit "
        "(then even one-element auto blocks cannot fit); limit = `limit=` argument, else the byte string in the spec, "
        "else config array.chunk-size",
        f"random limits < 2^40 B; beyond 2^48 elements the float root of auto_chunks loses exactness "
        "(dedicated probe, known finding auto:limit-exceeded:float-root)",
        "explicit tuples containing the user's own zeros are documented input ('Express zero length dimensions with 0(s)') "
        "and are not flagged when echoed; a raised exception is a refusal, never a bad layout",
        "unknown (NaN) sizes, object/None dtype, itemsize 0 are outside C16 (C28 / refusals)",
    ]
    N = ctx.scale(7, 10)
    NR = ctx.scale(2500, 40000)

    t0 = ctx.elapsed()
    correspondence(ctx, CU, N, NR)
    t1 = ctx.elapsed()
    search(ctx, CU)
    t2 = ctx.elapsed()
    if ctx.disagreements:
        targeted(ctx, CU)
    ctx.notes["phase_seconds"] = {"lean_audit": round(t0, 1), "correspondence": round(t1 - t0, 1), "search": round(t2 - t1, 1),
                                  "targeted": round(ctx.elapsed() - t2, 1)}


# ---------------------------------------------------------------------- correspondence

def small_tuples(n):
    """explicit tuples around an axis of length n: all chunkings, zero-size entries, wrong sums, negatives, empty."""
    out = set(gen.compositions(n)) if n <= 6 else set()
    for t in gen.compositions(min(n, 3), zeros=True, maxparts=3):
        out.add(t)
    out |= {(), (n,), (n + 1,), (0, n), (n, 0), (n + 1, -1), (-1, n + 1), (-1,), (1,) * n or (0,), (n - 1,) if n else (1,)}
    return sorted(out)


def correspondence(ctx, CU, N, NR):
    rng = ctx.rng
    # --- blockdims_from_blockshape, one axis
    pairs = []
    one = lambda d, bd: impl_call(lambda: CU.blockdims_from_blockshape((d,), (bd,)), lambda r: "ok " + f_list(r[0]))
    for d in range(0, N + 6):
        for bd in range(-4, N + 8):
            pairs.append((f"ck.blockdim {d} {bd}", one(d, bd)))
    for _ in range(NR):
        d = rng.choice([0, 1, 7, 100, 12345, 10**6 + 3])
        bd = rng.choice([1, 2, 3, 7, 64, 1000, d, d + 1, max(1, d - 1), max(1, d // 3), -2, -7, 0])
        if d // max(1, abs(bd)) > 5000:
            continue
        pairs.append((f"ck.blockdim {d} {bd}", one(d, bd)))
    for _ in range(NR // 4):  # huge lazy axes around a chunk edge (exact integer arithmetic in the model)
        d, bd, _k = rand_huge_axis(rng)
        pairs.append((f"ck.blockdim {d} {bd}", one(d, bd)))
    ctx.correspond("blockdims_from_blockshape", pairs)

    # --- round_to on ints and on floats (floor / exactness are all the model sees)
    pairs = []
    for c in range(-3, 4 * N):
        for s in range(0, 2 * N):
            pairs.append((f"ck.round_to {c} {s}", impl_call(lambda: CU.round_to(c, s), lambda r: f"ok {int(r)}")))
    for _ in range(NR):
        c = rng.choice([rng.randint(0, 50), rng.randint(0, 10**9)])
        s = rng.choice([1, 2, 3, 7, 64, rng.randint(1, 10**6), c, c + 1])
        pairs.append((f"ck.round_to {c} {s}", impl_call(lambda: CU.round_to(c, s), lambda r: f"ok {int(r)}")))
        x = rng.choice([rng.random() * 40, float(rng.randint(0, 40)), rng.random() * 1e7, rng.random()])
        s = rng.choice([1, 2, 3, 5, 16, 1000, max(1, int(x)), int(x) + 1])

        def fmt(r):
            assert float(r).is_integer()
            return f"ok {int(r)}"

        pairs.append((f"ck.round_to_f {math.floor(x)} {int(x == math.floor(x))} {s}", impl_call(lambda: CU.round_to(x, s), fmt)))
    ctx.correspond("round_to", pairs)

    # --- one axis of normalize_chunks for every non-auto spec kind (through the public function; the second
    #     axis (length 1) is a plain int 1 (allints stays true) or the tuple (1,) (allints false))
    pairs = []
    for n in range(0, N + 1):
        specs = [None] + list(range(-4, n + 3)) + small_tuples(n)
        for c in specs:
            for ai in (True, False):
                if ai and not (c is None or isinstance(c, int)):
                    continue
                other = 1 if ai else (1,)
                impl = impl_call(lambda: CU.normalize_chunks((c, other), (n, 1)), lambda r: "ok " + f_list(r[0]))
                pairs.append((f"ck.norm_axis {int(ai)} {f_spec(c)} {n}", impl))
    for _ in range(NR):
        n = rng.choice([0, 1, 5, 17, 100, 1000])
        c = rng.choice([None, -1, rng.randint(-3, n + 2), rng.randint(1, max(1, n)), tuple(gen.rand_chunks(rng, n, zeros=0.2, maxparts=8)),
                        tuple(gen.rand_chunks(rng, n + rng.choice([0, 0, 1]), maxparts=5))])
        ai = rng.random() < 0.5 and not isinstance(c, tuple)
        other = 1 if ai else (1,)
        impl = impl_call(lambda: CU.normalize_chunks((c, other), (n, 1)), lambda r: "ok " + f_list(r[0]))
        pairs.append((f"ck.norm_axis {int(ai)} {f_spec(c)} {n}", impl))
    for _ in range(NR // 4):
        n, c, _k = rand_huge_axis(rng)
        c = rng.choice([c, c, -1, None, brute_uniform(n, c), rand_partition(rng, n, rng.randint(1, 9))])
        ai = rng.random() < 0.5 and not isinstance(c, tuple)
        other = 1 if ai else (1,)
        impl = impl_call(lambda: CU.normalize_chunks((c, other), (n, 1)), lambda r: "ok " + f_list(r[0]))
        pairs.append((f"ck.norm_axis {int(ai)} {f_spec(c)} {n}", impl))
    ctx.correspond("normalize_chunks:axis", pairs)

    # --- whole normalize_chunks incl. auto / byte strings (oracle recovered from the real run), and auto_chunks itself
    pairs, apairs = [], []
    stats = {"levels": 0, "relation_checked": 0, "relation_violations": 0, "skipped_outside_model": 0}

    def one_case(specs, shape, limit, dtype, presentation=None):
        specs = [("%dB" % rng.choice([0, 1, 2, 8, 100, 1024]) if c == "auto-bytes" else c) for c in specs]
        bytes_vals = {parse_bytes(c) for c in specs if isinstance(c, str) and c != "auto"}
        if len(bytes_vals) > 1 and rng.random() < 0.8:
            b = sorted(bytes_vals)[0]
            specs = [(f"{b}B" if isinstance(c, str) and c != "auto" else c) for c in specs]
        spec = presentation(specs) if presentation else tuple(specs)
        with Recorder(CU) as rec:
            impl = impl_call(lambda: CU.normalize_chunks(spec, shape, limit=limit, dtype=np.dtype(dtype)), lambda r: "ok " + f_ll(r))
        orc, badrel, usable = recover_oracle(rec.levels, rec.round_calls)
        if not usable:
            stats["skipped_outside_model"] += 1
            return
        stats["levels"] += len(orc)
        stats["relation_checked"] += len(orc)
        for b in badrel:
            stats["relation_violations"] += 1
            if len(ctx.disagreements) < 200:
                ctx.disagree("oracle-relation", f"ck.norm {f_orc(orc)} {'N' if limit is None else limit} {f_specs(specs)} {f_list(shape)} # {dtype}",
                             "isize^k*largest_block*itemsize <= limit", repr(b))
        if impl.startswith("err ") and impl not in ("err ValueError", "err ZeroDivisionError"):
            stats["skipped_outside_model"] += 1  # e.g. TypeError for dtype-less auto: refusal outside the model
            return
        # the model's `limit` is only used by the byte-string consistency check
        pairs.append((f"ck.norm {f_orc(orc)} {'N' if limit is None else limit} {f_specs(specs)} {f_list(shape)}", impl))
        # auto_chunks itself (first level), when reached with a modelled input
        if rec.levels:
            ch, sh, lim, dt = rec.levels[0]
            if all((isinstance(c, str) and c == "auto") or isinstance(c, (int, tuple)) for c in ch) and not any(isinstance(c, bool) for c in ch):
                def fmt(r):
                    # compare the layout (ints expanded), not the int/tuple representation auto_chunks happens to use
                    return "ok " + f_ll(CU._convert_int_chunk_to_tuple(sh, r))
                aimpl = impl_call(lambda: CU.auto_chunks(ch, sh, lim, dt), fmt)
                apairs.append((f"ck.auto_layout {f_orc(orc)} {f_specs(ch)} {f_list(sh)}", aimpl))

    axis_specs_small = lambda n: [None, -1, 0, 1, 2, n, n + 1, -2, "auto", "auto-bytes"] + [t for t in ((n,), (1,) * n or (0,), (0, n), (n + 1,), ()) ]
    for shape in itertools.product(range(0, 4), repeat=2):
        for specs in itertools.product(*(axis_specs_small(n) for n in shape)):
            for limit in (None, 0, 1, 4):
                if limit == 0 and not any(isinstance(c, str) for c in specs):
                    continue  # the limit is only read on auto / byte-string axes
                one_case(list(specs), shape, limit, rng.choice(["int8", "int32"]))
    for n in range(0, 5):  # rank 1 incl. the missing-outer-tuple clean-up
        for specs in [[2, 3], [n, 0], [1] * max(2, n), ["auto", "auto"], [1, "auto"], [None, 2], [-1, n + 1], [n], ["auto"], [None], [], [(n,)], ["3B"]]:
            for limit in (None, 3):
                one_case(list(specs), (n,), limit, "int8", presentation=lambda s: tuple(s))
    for _ in range(NR):
        r = rng.randint(1, 4)
        shape = tuple(rng.choice([0, 1, 2, 3, 5, 8, 13, 40, 100, 1000, 4096]) for _ in range(r))
        specs = [rand_spec_axis(rng, n) for n in shape]
        if rng.random() < 0.05:
            specs = specs[:-1] if rng.random() < 0.5 else specs + [1]
        limit = rng.choice([None, 0, 1, 2, 7, 8, 16, 64, 100, 1000, 4096, 10**5, 10**6, 2**27, rng.randint(1, 10**7)])
        if limit is None and any(c == "auto" for c in specs) and not any(c == "auto-bytes" for c in specs) and math.prod(shape) > 10**7:
            limit = 10**6
        one_case(specs, shape, limit, rng.choice(DTYPES), presentation=lambda s: present(rng, s, shape))
    # boundary limits (0, 1, itemsize±1, one row ±1, the array ±1, far beyond) as limit= and as a byte string, itemsizes 1..16
    for shape in [(12,), (6, 10), (3, 4, 5), (1, 7), (5, 1), (2, 3, 1, 4)]:
        for dtype in ("int8", "S3", "int32", "S7", "float64", "complex128"):
            b = np.dtype(dtype).itemsize
            nb = b * math.prod(shape)
            row = b * math.prod(shape[1:])
            for limit in sorted({0, 1, b - 1, b, b + 1, row - 1, row, row + 1, nb - 1, nb, nb + 1, 3 * nb, 2**40 + 1}):
                variants = [["auto"] * len(shape)]
                if len(shape) > 1:
                    variants += [[2] + ["auto"] * (len(shape) - 1), ["auto"] * (len(shape) - 1) + [-1]]
                for specs in variants:
                    one_case(list(specs), shape, limit, dtype)
                    one_case([(f"{limit}B" if c == "auto" else c) for c in specs], shape, None, dtype)
    ctx.correspond("normalize_chunks", pairs)
    ctx.correspond("auto_chunks", apairs)
    ctx.notes["oracle"] = stats

    # --- the integer kernels of the previous_chunks branch, through the public function, one auto axis:
    #     multiplier >= 1 and every previous chunk within tolerance -> greedy merge; otherwise round_to(proposed, ideal)
    pairs = []
    kst = {"merge": 0, "round": 0, "whole-axis": 0}
    for _ in range(NR):
        n = rng.choice([1, 2, 3, 5, 9, 17, 40, 100, 1000])
        prev = tuple(gen.rand_chunks(rng, n, maxparts=12))
        if rng.random() < 0.3:
            c = rng.randint(1, max(1, n // 2))
            prev = brute_uniform(n, c)
        L = rng.choice([1, 2, 3, 5, 8, 13, 64, rng.randint(1, 2 * n)])
        if L == n:
            continue  # proposed = median*(L/median) sits on the `proposed > shape` boundary up to an ulp
        with Recorder(CU) as rec:
            impl_out = impl_call(lambda: CU.normalize_chunks("auto", (n,), limit=L, dtype=np.dtype("int8"), previous_chunks=(prev,)), lambda r: r)
        if isinstance(impl_out, str):
            continue
        m = np.median(prev)
        mult = L / 1 / 1 / m  # _compute_multiplier with itemsize 1, no fixed axes
        proposed = m * mult ** (1 / 1)
        if proposed > n:
            kst["whole-axis"] += 1
            continue
        if rec.round_calls:
            c, s = rec.round_calls[-1]
            if not (isinstance(c, float) or isinstance(c, (int, np.integer))) or c < 0:
                continue
            kst["round"] += 1
            c = float(c)
            pairs.append((f"ck.prev1d_reduce {math.floor(c)} {int(c == math.floor(c))} {f_list(prev)} {n}", f"ok {int(s)} {f_list(impl_out[0])}"))
        else:
            kst["merge"] += 1
            pairs.append((f"ck.merge_prev {math.floor(proposed)} {f_list(prev)}", "ok " + f_list(impl_out[0])))
    ctx.correspond("auto_chunks:previous_chunks-kernels", pairs)
    ctx.notes["prev_kernels"] = kst


# ------------------------------------------------------------------------------ search

def search(ctx, CU):
    rng = ctx.rng
    verdicts = {}

    def go(case, tag):
        status, out, res = run_case(ctx, CU, case)
        spec, shape = dec(case["spec"]), case["shape"]
        axes = expand(spec, tuple(shape))
        kinds = tuple(sorted(kind_of(a) for a in axes)) if axes is not None else ("?",)
        ctx.count((tag, kinds, len(shape), type(spec).__name__, case.get("prev") is not None,
                   "arg" if case.get("limit") is not None else ("cfg" if case.get("config") else "default"), res))
        verdicts[res] = verdicts.get(res, 0) + 1
        if res in ("ok", "auto-fits") and rng.random() < 0.001:
            ctx.sample({"case": case, "result": repr(out)})
        return status, out, res

    # ---- exhaustive small domain
    EX = ctx.scale(3, 4)
    ctx.exhaustive = True
    ctx.extra["exhaustive_domain"] = (
        f"normalize_chunks: shapes of rank ≤ 2 with lengths 0..{EX} × per-axis specs {{None,-1,0,1..{EX}+1,-2,'auto','2B', every chunking of the "
        "axis, (0,n), (n,0), (n+1,), ()}} (× limit ∈ {None(config 5B),1,3,8} × dtype ∈ {int8,int32} when an auto/byte-string axis is present)"
    )

    def axis_specs(n):
        return [None, -1, 0, -2, "auto", "2B"] + list(range(1, EX + 2)) + sorted(set(gen.compositions(n)) | {(0, n), (n, 0), (n + 1,), ()})

    for r in (1, 2):
        for shape in itertools.product(range(0, EX + 1), repeat=r):
            for specs in itertools.product(*(axis_specs(n) for n in shape)):
                for limit in (None, 1, 3, 8):
                    for dtype in ("int8", "int32"):
                        if not any(isinstance(c, str) for c in specs) and (limit not in (None,) or dtype != "int8"):
                            continue
                        go(mk_case(tuple(specs), shape, limit, dtype, config={"array.chunk-size": 5} if limit is None else None), "ex")

    # ---- random, all spec kinds and presentations, limit= / config, dtypes, previous_chunks
    NS = ctx.scale(20000, 300000)
    for it in range(NS):
        r = rng.randint(1, 4)
        shape = tuple(rng.choice([0, 1, 1, 2, 3, 5, 8, 9, 13, 40, 100, 1000, 4096, 4096, 65536]) for _ in range(r))
        specs = [rand_spec_axis(rng, n) for n in shape]
        b = rng.choice(["1B", "2B", "100B", "1KiB", "1kB", "4 KiB", "1MiB", "0.5kB"])
        specs = [b if c == "auto-bytes" else c for c in specs]
        dtype = rng.choice(DTYPES)
        limit = None
        config = {}
        lim_val = rng.choice([1, 2, 3, 4, 5, 7, 8, 12, 16, 17, 24, 31, 32, 50, 64, 100, 128, 500, 1000, 4096, 10**5, 10**6, 2**27, rng.randint(1, 2**30)])
        src = rng.random()
        if any(isinstance(c, str) and c != "auto" for c in specs):
            if src < 0.2:
                limit = parse_bytes(b)
        elif src < 0.5:
            limit = lim_val
        elif src < 0.65:
            limit = rng.choice(["100B", "1KiB", "2MiB"])
        elif src < 0.95:
            config["array.chunk-size"] = lim_val if rng.random() < 0.6 else rng.choice(["100B", "1KiB", "64KiB", "2MiB"])
        prev = None
        if any(c == "auto" or (isinstance(c, str)) for c in specs) and rng.random() < 0.5:
            prev = tuple(tuple(gen.rand_chunks(rng, n, maxparts=40)) for n in shape)
            if rng.random() < 0.15:
                config["array.chunk-size-tolerance"] = rng.choice([1.0, 1.1, 1.5, 2.0])
        if prev is None and limit is None and "array.chunk-size" not in config and math.prod(max(1, s) for s in shape) > 10**9:
            config["array.chunk-size"] = "2MiB"
        go(mk_case(present(rng, specs, shape), shape, limit, dtype, prev, config), "rnd")

    tm = {"exhaustive+random": round(ctx.elapsed(), 1)}
    # ---- huge lazy axes (no data is allocated by normalize_chunks or by the metadata of a creation function)
    hangs = 0
    for it in range(ctx.scale(6000, 80000)):
        case = rand_huge_case(rng)
        if hangs >= 2 and case["prev"] is not None:
            # every hang costs the watchdog time: after two concrete ones stop drawing from that class in this run
            ctx.notes["huge_prev_cases_skipped_after_two_hangs"] = ctx.notes.get("huge_prev_cases_skipped_after_two_hangs", 0) + 1
            continue
        hangs += go(case, "huge")[2] == "hang"
        if it % 5 == 0 and case["limit"] is None and case["prev"] is None and case["dtype"] != "complex128" or it % 50 == 0:
            if case["limit"] is None and case["prev"] is None:
                go(dict(case, via=rng.choice(["zeros", "ones", "empty", "full"])), "huge-api")
    for d, c in [(2**54 + 1, 2**50), (2**54, 2**50), (2**54 - 1, 2**50), (10**17 + 1, 10**16), (2**61 + 1, 2**60), (2**53 + 1, 2**53)]:
        for spec, shape in ((c, (d,)), ({0: c}, (d,)), ((c, 1), (d, 3)), ({1: c}, (2, d))):
            go(mk_case(spec, shape), "huge-edge")
            go(mk_case(spec, shape, dtype="int8", via="zeros"), "huge-edge-api")

    tm["huge"] = round(ctx.elapsed(), 1)
    # ---- call histories: the same arguments under a sequence of configurations in this process
    fresh_items = []
    for it in range(ctx.scale(1500, 20000)):
        r = rng.randint(1, 3)
        shape = tuple(rng.choice([1, 2, 3, 5, 8, 9, 13, 40, 100, 1000, 4096]) for _ in range(r))
        specs = [rand_spec_axis(rng, n, kinds=("int", "full", "none", "tuple", "auto", "auto", "auto")) for n in shape]
        if not any(sp == "auto" for sp in specs):
            specs[rng.randrange(r)] = "auto"
        dtype = rng.choice(DTYPES)
        nbytes = np.dtype(dtype).itemsize * math.prod(shape)
        sizes = sorted({1, 8, 64, max(1, nbytes // 64), max(1, nbytes // 8), max(1, nbytes // 2), nbytes, 4 * nbytes})
        prev = tuple(tuple(gen.rand_chunks(rng, n, maxparts=20)) for n in shape) if rng.random() < 0.5 else None
        vary = rng.choice(["size", "size", "size", "tolerance", "both"]) if prev is not None else "size"
        base = {"array.chunk-size": rng.choice(sizes)}
        seq = []
        for _ in range(rng.choice([2, 3, 3, 4])):
            cfg = dict(base)
            if vary in ("size", "both"):
                v = rng.choice(sizes)
                cfg["array.chunk-size"] = v if rng.random() < 0.6 else f"{v}B"
            if vary in ("tolerance", "both"):
                cfg["array.chunk-size-tolerance"] = rng.choice([1.0, 1.1, 1.25, 1.5, 2.0, 4.0])
            seq.append(cfg)
        if rng.random() < 0.5:
            seq.append(dict(seq[0]))  # A, B, ..., A
        spec = present(rng, specs, shape)
        for i, cfg in enumerate(seq):
            case = mk_case(spec, shape, None, dtype, prev, cfg, history=seq[:i])
            status, out, res = go(case, "hist")
            if i == len(seq) - 1 and status == "ok" and res in ("ok", "auto-fits", "auto-exempt"):
                fresh_items.append((case, out))
    compare_with_fresh(ctx, fresh_items)

    tm["histories"] = round(ctx.elapsed(), 1)
    # ---- extreme / falsy / boundary limits x spellings x sources (limit=, byte string, config, rechunk block_size_limit, creation)
    search_limits(ctx, CU, ctx.count)
    tm["limits"] = round(ctx.elapsed(), 1)
    ctx.notes["search_stream_elapsed"] = tm
    # ---- previous_chunks with zero-size chunks (known class auto:limit-exceeded:prev-zero-chunk lives here)
    for it in range(ctx.scale(2000, 40000)):
        r = rng.randint(1, 3)
        shape = tuple(rng.choice([1, 2, 3, 5, 9, 13, 40]) for _ in range(r))
        specs = [rng.choice(["auto", "auto", -1, None, rng.randint(1, n)]) for n in shape]
        if "auto" not in specs:
            specs[0] = "auto"
        prev = tuple(tuple(gen.rand_chunks(rng, n, zeros=0.6, maxparts=10)) for n in shape)
        go(mk_case(tuple(specs), shape, rng.choice([1, 2, 4, 8, 16, 64, 128, 1000]), rng.choice(DTYPES), prev), "prev0")

    # ---- malformed specs must raise, never return a bad layout
    mal = 0
    accepted_valid = 0
    for it in range(ctx.scale(3000, 40000)):
        r = rng.randint(1, 3)
        shape = tuple(rng.choice([0, 1, 2, 3, 5, 8, 100]) for _ in range(r))
        specs = [rng.choice([1, 2, -1, None, tuple(gen.rand_chunks(rng, n, maxparts=5))]) for n in shape]
        k = rng.choice(["rank+", "rank-", "sum", "neg-int", "neg-entry", "string", "empty", "float", "bytes-conflict", "bytes-neg", "nested-str", "zero-int"])
        i = rng.randrange(r)
        n = shape[i]
        kw = {}
        if k == "rank+":
            specs = specs + [1]
            if r == 1 and all(isinstance(c, int) for c in specs):
                specs = specs + [(1,)]
        elif k == "rank-":
            specs = specs[:-1]
            if not specs and all(s == 0 for s in shape):
                continue
        elif k == "sum":
            t = list(gen.rand_chunks(rng, n, maxparts=5))
            t[rng.randrange(len(t))] += rng.choice([1, 2, -1]) if n else 1
            if sum(t) == n or any(x < 0 for x in t):
                continue
            specs[i] = tuple(t)
        elif k == "neg-int":
            specs[i] = rng.choice([-2, -3, -7, -n - 1, -max(2, n)])
        elif k == "neg-entry":
            t = list(gen.rand_chunks(rng, n, maxparts=5))
            j = rng.randrange(len(t))
            d = rng.randint(1, 3)
            t[j] += d
            t.insert(rng.randint(0, len(t)), -d)
            specs[i] = tuple(t)
        elif k == "string":
            specs[i] = rng.choice(["foo", "12", "", "Auto", "auto ", "1 potato", "-"])
            kw = dict(dtype="int8")
        elif k == "empty":
            specs[i] = ()
        elif k == "float":
            specs[i] = rng.choice([1.5, 2.25, 0.5])
        elif k == "bytes-conflict":
            specs[i] = "1KiB"
            kw = dict(dtype="int8", limit=rng.choice([1, 100, 1025]))
        elif k == "bytes-neg":
            specs[i] = "-5B"
            kw = dict(dtype="int8")
        elif k == "nested-str":
            specs[i] = (max(1, n), "auto")
            kw = dict(dtype="int8")
        elif k == "zero-int":
            if n == 0:
                continue
            specs[i] = 0
        spec = tuple(specs) if rng.random() < 0.7 else list(specs)
        if len(shape) == 1 and len(specs) > 1 and all(isinstance(c, int) for c in specs) and sum(specs) == shape[0] and all(c >= 0 for c in specs):
            continue  # that is a valid explicit chunking of a 1-d axis
        case = mk_case(spec, shape, kw.get("limit"), kw.get("dtype"))
        status, out = call_normalize(CU, spec, shape, kw.get("limit"), kw.get("dtype"), None, None)
        mal += 1
        ctx.count(("malformed", k, status))
        if status == "ok":
            res = validate(ctx, case, status, out)
            if res in ("ok", "auto-fits", "auto-exempt"):
                # returned a VALID layout for an input we called malformed (e.g. -2 on a zero-length axis -> (0,)):
                # not a bad layout; counted
                accepted_valid += 1
                if k in ("rank+", "rank-", "sum", "neg-entry", "empty", "float", "string", "bytes-conflict", "bytes-neg", "nested-str"):
                    c = dict(case)
                    c["got"] = repr(out)
                    ctx.fail("malformed:accepted", c, f"malformed spec ({k}) was accepted instead of raising")
    ctx.notes["malformed_cases"] = mal
    ctx.notes["malformed_accepted_with_valid_layout"] = accepted_valid

    # ---- dedicated probes for the listed known findings (printed as KNOWN-FINDING while they still fail)
    probes = [
        mk_case((-1, "auto"), (1, 9), 16, "int32", ((1,), (5, 1, 2, 1))),
        mk_case(("auto", "auto"), (2, 1), 1, "int8", ((2,), (0, 1))),
        mk_case(("auto", -1, "auto"), (13, 13, 1), 128, "float64", ((1, 2, 2, 3, 2, 2, 1), (2, 1, 1, 3, 2, 3, 1), (1, 0))),
        mk_case("auto", (854,) * 5, 854**5 - 1, "int8"),
        mk_case("auto", (8182,) * 4, 8182**4 - 1, "int8"),
        # auto:hang:huge-previous_chunks (found by the huge-axis stream on the unchanged tree): the reduce loop of
        # auto_chunks alternates between 3518267071406258 and ...259 forever (costs the 3 s watchdog while it fails)
        mk_case("auto", (20971694341362582,), 56292273142500139, "complex128", ((10485847170681291, 10485847170681291),)),
    ]
    for c in probes:
        go(c, "probe")
    # ---- documented examples (docstring of normalize_chunks) as fixed points of the validator
    for spec, shape, kw in [
        (((2, 2, 1), (2, 2, 2)), (5, 6), {}), ((2, 2), (5, 6), {}), ((3, 2), (5,), {}), (10, (30, 5), {}), ({0: 2, 1: 3}, (6, 6), {}),
        ((5, -1), (10, 10), {}), ((5, None), (10, 10), {}), (("auto",), (20,), dict(limit=5, dtype="uint8")),
        ("auto", (2, 3), dict(dtype="int32")), ("1kiB", (2000,), dict(dtype="float32")), ((), (0, 0), {}),
    ]:
        go(mk_case(spec, shape, kw.get("limit"), kw.get("dtype")), "doc")
    ctx.notes["search_verdicts"] = verdicts
    # refusals worth recording (not flagged: raising is not a bad layout)
    st, out = call_normalize(CU, (-1, "auto"), (0, 5), None, "int8", None, None)
    ctx.notes["refusal_auto_with_zero_length_axis"] = f"normalize_chunks((-1,'auto'),(0,5),dtype=int8) -> {st} {type(out).__name__ if st == 'err' else out!r}"
    st, out = call_normalize(CU, 0, (5,), None, None, None, None)
    ctx.notes["refusal_zero_block_size"] = f"normalize_chunks(0,(5,)) -> {st} {type(out).__name__ if st == 'err' else out!r}"


# ------------------------------------------------------------------- targeted search

def p_spec(tok):
    if tok == "N":
        return None
    if tok == "A":
        return "auto"
    if tok[0] == "i":
        return int(tok[1:])
    if tok[0] == "b":
        return f"{int(tok[1:])}B"
    if tok[0] == "t":
        return () if tok[1:] == "_" else tuple(int(x) for x in tok[1:].split(","))
    raise ValueError(tok)


def p_list(tok):
    return [] if tok == "_" else [int(x) for x in tok.split(",")]


def targeted(ctx, CU):
    """Lift every model/implementation disagreement (and oracle-relation violation) to calls of the real
    normalize_chunks on that input and its neighbours, judged by the model-independent validator."""
    tried = 0
    for d in ctx.disagreements[:60]:
        toks = d["request"].split("#")[0].split()
        cases = []
        try:
            if toks[0] == "ck.blockdim":
                n, c = int(toks[1]), int(toks[2])
                for dn in (-1, 0, 1):
                    for dc in (-1, 0, 1):
                        if n + dn >= 0:
                            cases.append(mk_case(c + dc, (n + dn,)))
                            cases.append(mk_case((c + dc, (1,)), (n + dn, 1)))
            elif toks[0] in ("ck.round_to", "ck.round_to_f"):
                c = int(toks[1])
                s = int(toks[-1])
                for lim in (c - 1, c, c + 1):
                    if lim >= 1 and s >= 1:
                        cases.append(mk_case("auto", (s,), lim, "int8"))
                        cases.append(mk_case("auto", (s,), lim, "int8", (brute_uniform(s, max(1, s // 3)),)))
            elif toks[0] == "ck.norm_axis":
                c, n = p_spec(toks[2]), int(toks[3])
                for dn in (-1, 0, 1):
                    if n + dn >= 0:
                        cases.append(mk_case((c, 1), (n + dn, 1)))
                        cases.append(mk_case((c, (1,)), (n + dn, 1)))
                        cases.append(mk_case({0: c}, (n + dn, 2)))
            elif toks[0] in ("ck.norm", "ck.auto_layout"):
                if toks[0] == "ck.norm":
                    lim = None if toks[2] == "N" else int(toks[2])
                    specs = [] if toks[3] == "-" else [p_spec(t) for t in toks[3].split("/")]
                    shape = p_list(toks[4])
                else:
                    lim = None
                    specs = [] if toks[2] == "-" else [p_spec(t) for t in toks[2].split("/")]
                    shape = p_list(toks[3])
                dts = [d["request"].split("#")[1].strip()] if "#" in d["request"] else ["int8", "float64"]
                for dt in dts:
                    for l2 in {lim, 1, 8, 64, 1000} - {None} | ({None} if lim is None else set()):
                        cases.append(mk_case(tuple(specs), shape, l2, dt, config={"array.chunk-size": 16} if l2 is None else None))
                        for i in range(len(shape)):
                            for dn in (-1, 1):
                                sh = list(shape)
                                sh[i] += dn
                                if sh[i] >= 0:
                                    cases.append(mk_case(tuple(specs), sh, l2, dt, config={"array.chunk-size": 16} if l2 is None else None))
            elif toks[0] in ("ck.merge_prev", "ck.prev1d_reduce"):
                prev = p_list(toks[-1] if toks[0] == "ck.merge_prev" else toks[3])
                n = sum(prev)
                pf = int(toks[1])
                for lim in (pf - 1, pf, pf + 1, pf + 2):
                    if lim >= 1:
                        cases.append(mk_case("auto", (n,), lim, "int8", (tuple(prev),)))
                        cases.append(mk_case(("auto", -1), (n, 2), 2 * lim, "int8", (tuple(prev), (2,))))
        except Exception as e:  # an unparsable request is a harness problem, not a verdict
            ctx.notes["targeted_parse_errors"] = ctx.notes.get("targeted_parse_errors", 0) + 1
            continue
        for c in cases:
            tried += 1
            status, out, res = run_case(ctx, CU, c)
            ctx.count(("targeted", toks[0], res))
    ctx.notes["targeted_search"] = f"{tried} calls of the real normalize_chunks around {min(60, len(ctx.disagreements))} disagreeing helper inputs"
