"""C12 — indexing follows NumPy semantics for every supported index.

Correspondence: Lean models (Model/Indexing.lean, handler `ix.*`) vs `normalize_index`,
`replace_ellipsis`, `SliceSlicesIntegers.chunks/_layer`, `x[idx].chunks`, `.blocks`,
`_compute_indexer`, `Shuffle._new_chunks`, and the SPEC `npIndex` vs NumPy itself.
Search (model independent): `x[idx]`, `x.vindex[idx]`, `x.blocks[idx]` on the real code vs
NumPy / brute force, optimized and with `array.optimize-graph=False`.

A *case* is a JSON-able dict: {"fam", "shape", "chunks", "acc", "index", ["pre"]}; index items:
  ["i",v] int   ["s",a,b,c] slice   ["n"] None   ["e"] Ellipsis   ["l",[..]] python list
  ["a",[..],dtype] numpy int array (any nesting)   ["bl",[..]] python bool list
  ["ba",nested] numpy bool array   ["dai",v,chunks[,{"dtype","form"}]] dask int array (0-d when v is an int;
  form: from_array | add0 | rechunk | sliced = how the indexer collection is produced)
  ["dab",nested,chunks] dask bool array   ["f",v] float   ["b",v] python bool   ["np0",v] 0-d numpy int
Element types (every integer position of an index): ["i",v,tag], ["s",a,b,c,[ta,tb,tc]], ["l",[..],tag] (python list of
scalars of that type), ["np0",v,dtype]; tag = "int" (python int, default) | "bool" (python bool, values 0/1) | a NumPy integer
dtype name (np.int8(v) … np.uint64(v), np.intp(v)).  Rule masks for LARGE axes (kept out of the replay file):
["bam",n,k,r] numpy bool mask arange(n)%k==r, ["dabm",n,k,r,chunks] the same as a dask array.
"pre" (an array with unknown chunk sizes: the result of a boolean dask mask) takes the mask as a list ("mask") or as a rule
("rule": [n,k,r]).
Optional keys: "post" = follow-on ops applied to the indexed array (["getitem", index-spec],
["sum", axis], ["add", k], ["T"]), "hist" = {"chunks_first", "recompute"} (evaluate `.chunks` first;
compute the ORIGINAL indexed collection again after the derived one), "config" = dask config.
`run_case(case)` is deterministic from the dict alone (replay).
Extension streams with their own case formats (dispatched on a marker key at replay): {"shf": 1, …} props_ext/c12_shuffle.py
(take / shuffle / vindex layers), {"vix": 1, …} props_ext/c12_vindex.py (vindex on every subset of axes of rank 1-5 sources,
MEMORY LAYOUT of integer / boolean indexers, 0-d indexers, what vindex must refuse).
The random stream follows a stratified `schedule` (every generator family spread evenly over the run) under a wall-clock cap.
"""
from __future__ import annotations

import itertools
import math
import warnings

import numpy as np

from harness import gen
from harness.core import err_name, f_list, f_ll, f_slice
from harness.props_ext import c12_sizes

REFUSALS = (IndexError, ValueError, TypeError, NotImplementedError)

# ----------------------------------------------------------------------------- tokens


def f_item(it):
    if it is None:
        return "None"
    if it is Ellipsis:
        return "..."
    if isinstance(it, slice):
        return f_slice(it)
    if isinstance(it, (list, tuple, np.ndarray)):
        return "L" + f_list(np.asarray(it, dtype=np.int64).tolist() if len(it) else [])
    return str(int(it))


def f_index(idx):
    idx = tuple(idx)
    return "()" if not idx else "|".join(f_item(i) for i in idx)


def f_chunks(chunks):
    return f_ll(chunks)


def impl_call(fn, fmt):
    try:
        return fmt(fn())
    except (NotImplementedError, IndexError, ValueError, TypeError, ZeroDivisionError, AssertionError) as e:
        return err_name(e)


# ------------------------------------------------------------------------ spec <-> objects


def spec_of(it):
    """python index object -> spec item (basic items and int lists)."""
    if it is None:
        return ["n"]
    if it is Ellipsis:
        return ["e"]
    if isinstance(it, slice):
        return ["s", it.start, it.stop, it.step]
    if isinstance(it, list):
        return ["l", list(it)]
    return ["i", int(it)]


INT_TAGS = ("int8", "uint8", "int16", "uint16", "int32", "uint32", "int64", "uint64", "intp")


def typed(v, tag):
    """the integer v as an object of the element type `tag` (see the module docstring)."""
    if v is None:
        return None
    if tag in (None, "int"):
        return v if isinstance(v, float) else int(v)
    if tag == "bool":
        return bool(v)
    return np.dtype(tag).type(v)


def fit_tags(v):
    """the NumPy integer types that can hold every value of v (an int or a list of ints)"""
    vs = [int(q) for q in (v if isinstance(v, (list, tuple)) else [v]) if q is not None]
    lo, hi = (min(vs), max(vs)) if vs else (0, 0)
    return [t for t in INT_TAGS if np.iinfo(t).min <= lo and hi <= np.iinfo(t).max]


def rand_tag(rng, v, p_plain=0.0):
    """a random element type for the value(s) v: python int with probability p_plain, else one of the NumPy integer
    types that hold it, narrow types preferred (their limits are the nearest)"""
    if rng.random() < p_plain:
        return "int"
    tags = fit_tags(v)
    w = [4 if t in ("int8", "uint8") else 3 if t in ("int16", "uint16") else 1 for t in tags]
    return rng.choices(tags, w)[0]


def rule_mask(n, k, r):
    return (np.arange(int(n)) % int(k)) == int(r)


def build_item(sp, for_dask):
    import dask_array as da

    k = sp[0]
    if k == "i":
        return typed(sp[1], sp[2] if len(sp) > 2 else None)
    if k == "s":
        tg = sp[4] if len(sp) > 4 and sp[4] else (None, None, None)
        return slice(typed(sp[1], tg[0]), typed(sp[2], tg[1]), typed(sp[3], tg[2]))
    if k == "n":
        return None
    if k == "e":
        return Ellipsis
    if k == "l":
        if len(sp) > 2 and sp[2]:
            return [typed(q, sp[2]) for q in sp[1]]
        return list(sp[1])
    if k == "bam":
        return rule_mask(*sp[1:4])
    if k == "dabm":
        v = rule_mask(*sp[1:4])
        return da.from_array(v, chunks=(tuple(sp[4]),)) if for_dask else v
    if k == "a":
        return np.array(sp[1], dtype=np.dtype(sp[2])) if np.size(sp[1]) else np.zeros(np.shape(sp[1]), dtype=np.dtype(sp[2]))
    if k == "bl":
        return list(bool(b) for b in sp[1])
    if k == "ba":
        return np.array(sp[1], dtype=bool).reshape(sp[2]) if len(sp) > 2 else np.array(sp[1], dtype=bool)
    if k == "dai":
        opts = sp[3] if len(sp) > 3 and sp[3] else {}
        v = np.array(sp[1], dtype=np.dtype(opts.get("dtype", "int64")))
        if not for_dask:
            return v if v.ndim else int(v)
        chunks = tuple(tuple(c) for c in sp[2]) if v.ndim else ()
        form = opts.get("form", "from_array")
        if form == "add0":      # the indexer is the result of an elementwise op
            return da.from_array(v, chunks=chunks) + np.array(0, dtype=v.dtype)
        if form == "rechunk":   # ... of a rechunk
            return da.from_array(v, chunks=v.shape).rechunk(chunks)
        if form == "sliced":    # ... of a slice of a longer array
            pad = np.concatenate([np.zeros(2, dtype=v.dtype), v.ravel()]) if v.ndim else v
            return da.from_array(pad, chunks=((2,) + chunks[0],))[2:] if v.ndim else da.from_array(np.array([0, int(v)], dtype=v.dtype), chunks=1)[1]
        return da.from_array(v, chunks=chunks)
    if k == "dab":
        v = np.array(sp[1], dtype=bool)
        if len(sp) > 3:
            v = v.reshape(sp[3])
        if not for_dask:
            return v
        return da.from_array(v, chunks=tuple(tuple(c) for c in sp[2]))
    if k == "f":
        return float(sp[1])
    if k == "b":
        return bool(sp[1])
    if k == "np0":
        return np.array(int(sp[1]), dtype=np.dtype(sp[2])) if len(sp) > 2 else np.array(int(sp[1]))
    raise ValueError(sp)


def build_index(spec, for_dask):
    return tuple(build_item(s, for_dask) for s in spec)


def is_arrayish(sp):
    return sp[0] in ("l", "a", "bl", "ba", "dai", "dab", "bam", "dabm") and not (sp[0] == "dai" and np.ndim(sp[1]) == 0)


def np_transposes(spec):
    """NumPy moves the broadcast (advanced) axes to the front when advanced items (arrays, and
    integers in the presence of an array) are separated by a slice/None/Ellipsis."""
    adv = [i for i, s in enumerate(spec) if is_arrayish(s) or s[0] in ("i", "np0") or (s[0] == "dai")]
    if not any(is_arrayish(s) for s in spec) or len(adv) < 2:
        return False
    return any(spec[j][0] in ("s", "n", "e") for j in range(adv[0], adv[-1]))


# ------------------------------------------------------------------------------- oracles


def np_vindex(x, idx):
    """Brute-force meaning of `.vindex`: slices/ints first, then the array-indexed axes are
    moved to the front and indexed pointwise (broadcast); the sliced axes follow."""
    idx = list(idx)
    if any(i is Ellipsis for i in idx):
        loc = [k for k, i in enumerate(idx) if i is Ellipsis][0]
        idx[loc: loc + 1] = [slice(None)] * (x.ndim - (len(idx) - 1))
    if len(idx) > x.ndim:
        raise IndexError("too many indices")
    idx += [slice(None)] * (x.ndim - len(idx))
    nonfancy = tuple(i if isinstance(i, (int, slice)) else slice(None) for i in idx)
    x1 = x[nonfancy]
    reduced = [i for i in idx if not isinstance(i, int)]
    axes = [k for k, i in enumerate(reduced) if not isinstance(i, slice)]
    arrs = [np.asarray(reduced[k]) if np.size(reduced[k]) else np.zeros(np.shape(reduced[k]), dtype=np.intp) for k in axes]
    for k, a in zip(axes, arrs):
        if a.dtype.kind not in "iu":
            raise IndexError("not an integer array")
        if a.size and ((a >= x1.shape[k]) | (a < -x1.shape[k])).any():
            raise IndexError("out of bounds")
    arrs = np.broadcast_arrays(*arrs)
    xt = np.moveaxis(x1, axes, list(range(len(axes))))
    return xt[tuple(arrs)]


def blocks_oracle(x, chunks, idx):
    """Brute force `.blocks[idx]`: (values, chunks).  Per axis NumPy indexing of
    arange(numblocks); integers keep their axis; the result is the concatenation of the selected
    blocks."""
    idx = list(idx)
    if any(i is None for i in idx):
        raise ValueError("None")
    if sum(isinstance(i, (list, np.ndarray)) for i in idx) > 1:
        raise ValueError("two lists")
    if sum(i is Ellipsis for i in idx) > 1:
        raise IndexError("two ellipses")
    nd = len(chunks)
    if any(i is Ellipsis for i in idx):
        loc = [k for k, i in enumerate(idx) if i is Ellipsis][0]
        if len(idx) - 1 > nd:
            raise IndexError("too many")
        idx[loc: loc + 1] = [slice(None)] * (nd - (len(idx) - 1))
    if len(idx) > nd:
        raise IndexError("too many")
    idx += [slice(None)] * (nd - len(idx))
    pos = []
    out_chunks = []
    for c, i in zip(chunks, idx):
        sel = np.arange(len(c))[i]  # NumPy semantics (raises IndexError when out of bounds)
        sel = np.atleast_1d(sel)
        starts = np.concatenate([[0], np.cumsum(c)])
        p = [q for b in sel for q in range(starts[b], starts[b + 1])]
        pos.append(np.array(p, dtype=np.intp))
        out_chunks.append(tuple(int(c[b]) for b in sel))
    return x[np.ix_(*pos)] if nd else x, tuple(out_chunks)


# ---------------------------------------------------------------------------- run one case


def make_arrays(case):
    import dask_array as da

    shape = tuple(case["shape"])
    x = np.arange(int(np.prod(shape, dtype=np.int64)), dtype=np.int64).reshape(shape)
    d = da.from_array(x, chunks=tuple(tuple(c) for c in case["chunks"]))
    pre = case.get("pre")
    if pre:
        if pre["kind"] == "mask-full":
            mk = np.array(pre["mask"], dtype=bool).reshape(shape)
            d = d[da.from_array(mk, chunks=d.chunks)]
            x = x[mk]
        elif pre["kind"] == "mask-axis":
            mk = rule_mask(*pre["rule"]) if "rule" in pre else np.array(pre["mask"], dtype=bool)
            ax = pre["axis"]
            sl = (slice(None),) * ax
            d = d[sl + (da.from_array(mk, chunks=(d.chunks[ax],)),)]
            x = x[sl + (mk,)]
        if pre.get("ccs"):
            d.compute_chunk_sizes()
    return x, d


def oracle(case, x, d0_chunks):
    idx = build_index(case["index"], False)
    acc = case["acc"]
    try:
        if acc == "getitem":
            return ("ok", np.asarray(x[idx]), None)
        if acc == "vindex":
            return ("ok", np.asarray(np_vindex(x, idx)), None)
        if acc == "blocks":
            v, ch = blocks_oracle(x, d0_chunks, idx)
            return ("ok", np.asarray(v), ch)
    except Exception as e:  # NumPy refuses the index
        return ("err", type(e).__name__, str(e)[:100])
    raise ValueError(acc)


def impl(case, d, opt):
    import dask

    idx = build_index(case["index"], True)
    acc = case["acc"]
    with dask.config.set({"array.optimize-graph": opt, "scheduler": "sync"}), warnings.catch_warnings():
        warnings.simplefilter("ignore")
        try:
            if acc == "getitem":
                y = d[idx]
            elif acc == "vindex":
                y = d.vindex[idx]
            else:
                y = d.blocks[idx]
            r = np.asarray(y.compute())
            return ("ok", r, y)
        except REFUSALS as e:
            return ("err", type(e).__name__, str(e)[:100])
        except Exception as e:  # not a refusal: a crash
            return ("crash", type(e).__name__, str(e)[:100])


def order_free(case):
    """full-rank dask boolean mask where the code documents block-major order (unknown shapes)."""
    return bool(case.get("order_free"))


def must_succeed(case):
    return bool(case.get("must", True))


def _colon(sp):
    return sp[0] == "s" and sp[1] is None and sp[2] is None and sp[3] is None


def _has_float(case):
    for s in case["index"]:
        if s[0] == "f" and float(s[1]) == int(s[1]):
            return True
        if s[0] == "s" and any(isinstance(v, float) for v in s[1:]):
            return True
        if s[0] in ("l", "a") and np.size(s[1]) and np.asarray(s[1]).dtype.kind == "f" and \
                np.allclose(np.asarray(s[1]), np.asarray(s[1]).astype(int)):
            return True
    return False


def _item_dims(case):
    """(item, axis length it indexes) for the getitem families whose items map 1:1 to leading
    axes (no Ellipsis / None before the item)."""
    shape = list(case["shape"])
    if case.get("pre"):
        return []
    out = []
    ax = 0
    for s in case["index"]:
        if s[0] in ("n",):
            continue
        if s[0] == "e":
            return out
        nd = np.ndim(s[1]) if s[0] in ("ba", "dab") and len(s) <= 3 - (s[0] == "ba") else (len(s[-1]) if s[0] in ("ba", "dab") else 1)
        out.append((s, shape[ax: ax + nd]))
        ax += nd
    return out


def _blocks_empty(case):
    try:
        x = np.zeros(tuple(case["shape"]), dtype=np.int8)
        _, ch = blocks_oracle(x, tuple(tuple(c) for c in case["chunks"]), build_index(case["index"], False))
        return any(len(c) == 0 for c in ch)
    except Exception:
        return False


def _vindex_multi(case):
    """>= 2 index arrays, sliced axes left over, more than one output block."""
    if sum(is_arrayish(s) for s in case["index"]) < 2:
        return False
    try:
        _, d = make_arrays(case)
        y = d.vindex[build_index(case["index"], True)]
        nb = sum(np.ndim(np.asarray(s[1])) >= 1 for s in case["index"] if is_arrayish(s))
        bshape = np.broadcast_shapes(*(np.shape(np.asarray(s[1])) for s in case["index"] if is_arrayish(s)))
        # (1-D point dimension: the final reshape is then the identity and the flat key list of VIndexArray reaches the
        # collection; with a 2-D or higher point dimension the same inputs compute correctly and stay in the stream)
        return len(bshape) == 1 and y.ndim > len(bshape) and math.prod(y.numblocks) > 1 and nb >= 2
    except Exception:
        return False


def _axis_items(case):
    """(item, axis it indexes) for indices without boolean masks: None consumes no axis and an
    Ellipsis expands to the missing axes."""
    spec = case["index"]
    if case.get("pre") or any(s[0] in ("ba", "dab", "bl", "b", "bam", "dabm") for s in spec):
        return []
    nd = len(case["shape"])
    consuming = sum(s[0] not in ("n", "e") for s in spec)
    out, ax, seen_e = [], 0, False
    for s in spec:
        if s[0] == "n":
            continue
        if s[0] == "e":
            if not seen_e:
                ax += max(0, nd - consuming)
            seen_e = True
            continue
        if ax < nd:
            out.append((s, ax))
        ax += 1
    return out


def _dai_oob(case):
    shape = case["shape"]
    for s, ax in _axis_items(case):
        if s[0] == "dai":
            v = np.atleast_1d(np.asarray(s[1]))
            if v.size and ((v >= shape[ax]) | (v < -shape[ax])).any():
                return True
    return False


def _narrow_array(case):
    """an integer ARRAY / list of NumPy scalars whose integer type cannot hold the length of the axis it indexes"""
    if case["acc"] not in ("getitem", "vindex"):
        return False
    shape = case["shape"]
    for s, ax in _axis_items(case):
        dt = s[2] if s[0] in ("a", "l") and len(s) > 2 else None
        if dt and dt not in ("int", "bool") and np.dtype(dt).kind in "iu" and np.size(s[1]) and np.iinfo(dt).max < shape[ax]:
            return True
    return False


def _dai_zero_slots(case):
    """number of array axes with a zero-length chunk (on a non-empty axis) + 1-d dask integer indexers whose
    own chunks have a zero-length chunk (of a non-empty indexer); 0 without a dask integer indexer"""
    dais = [s for s in case["index"] if s[0] == "dai"]
    if not dais:
        return 0
    k = sum(1 for c, n in zip(case["chunks"], case["shape"]) if 0 in c and n)
    k += sum(1 for s in dais if np.ndim(s[1]) == 1 and len(s[1]) and 0 in s[2][0])
    return k


def _dab_wrong_shape(case):
    for s, dims in _item_dims(case):
        if s[0] == "dab":
            shp = list(s[3]) if len(s) > 3 else list(np.shape(s[1]))
            if shp != list(dims):
                return True
    return False


def _full_mask_zero_chunk(case):
    """full-rank boolean mask (ndim >= 2) on an array (or with a mask) that has a zero-length chunk."""
    nd = len(case["shape"])
    zero = any(0 in c for c in case["chunks"])
    if case.get("pre"):
        return case["pre"]["kind"] == "mask-full" and nd >= 2 and zero
    if nd < 2:
        return False
    for s in case["index"]:
        if s[0] == "ba" and len(s) > 2 and len(s[2]) == nd and zero:
            return True
        if s[0] == "dab" and len(s) > 3 and len(s[3]) == nd and (zero or any(0 in c for c in s[2])):
            return True
    return False


# Classes of C12 violations found on the unchanged tree.  Each: (signature, membership predicate
# on the case, failure kinds the class explains, probe cases).  Members are kept out of the random
# stream (`avoid`), the probes run on every check run, and a failure of a member whose kind is
# not listed keeps the generic `<family>:<kind>` signature (so a different violation still shows).
KNOWN_CLASSES = [
    ("int-list-separated:transposed",
     lambda c: c["acc"] == "getitem" and np_transposes(c["index"]), ("values", "shape"),
     [{"fam": "list", "shape": [2, 3, 4], "chunks": [[1, 1], [2, 1], [3, 1]], "acc": "getitem",
       "index": [["i", 0], ["s", None, None, None], ["l", [1, 2]]]},
      {"fam": "list", "shape": [3, 4], "chunks": [[2, 1], [3, 1]], "acc": "getitem", "index": [["i", 1], ["n"], ["l", [0, 1]]]}]),
    ("float-index:accepted",
     lambda c: c["acc"] == "getitem" and _has_float(c), ("accepts-index-numpy-rejects",),
     [{"fam": "exotic", "shape": [3, 4], "chunks": [[2, 1], [3, 1]], "acc": "getitem", "index": [["f", 1.0]], "must": False},
      {"fam": "exotic", "shape": [3, 4], "chunks": [[2, 1], [3, 1]], "acc": "getitem", "index": [["s", 1.0, 2.0, None]], "must": False},
      {"fam": "exotic", "shape": [3, 4], "chunks": [[2, 1], [3, 1]], "acc": "getitem", "index": [["l", [0.0, 1.0]]], "must": False}]),
    ("scalar-bool-index:treated-as-int",
     lambda c: any(s[0] == "b" for s in c["index"]), ("values", "shape", "refuses-valid-index"),
     [{"fam": "exotic", "shape": [3, 4], "chunks": [[2, 1], [3, 1]], "acc": "getitem", "index": [["b", True]], "must": False}]),
    ("zero-d-array-index:AssertionError",
     lambda c: any(s[0] == "np0" for s in c["index"]), ("crash:AssertionError",),
     [{"fam": "exotic", "shape": [3, 4], "chunks": [[2, 1], [3, 1]], "acc": "getitem", "index": [["np0", 1]], "must": False}]),
    ("nd-int-array-index:wrong-shape",
     lambda c: c["acc"] == "getitem" and any(s[0] == "a" and np.ndim(s[1]) >= 2 for s in c["index"]), ("values", "shape"),
     [{"fam": "exotic", "shape": [3, 6], "chunks": [[3], [6]], "acc": "getitem", "index": [["a", [[0, 0], [0, 0]], "intp"]], "must": False}]),
    ("blocks:empty-selection",
     lambda c: c["acc"] == "blocks" and _blocks_empty(c), ("shape", "values", "refuses-valid-index", "advertised-shape", "chunks-sum"),
     [{"fam": "blocks", "shape": [1, 4], "chunks": [[1], [4]], "acc": "blocks", "index": [["s", None, 2, -1]]},
      {"fam": "blocks", "shape": [5, 2], "chunks": [[5], [2]], "acc": "blocks", "index": [["s", -9, None, -1], ["i", 0]]}]),
    ("daint:with-newaxis:AssertionError",
     # slice_with_int_dask_array asserts len(index) == x.ndim after normalize_index kept the None entries
     lambda c: c["acc"] == "getitem" and any(s[0] == "dai" for s in c["index"]) and any(s[0] == "n" for s in c["index"]),
     ("crash:AssertionError", "index-crash:AssertionError"),
     [{"fam": "daint", "shape": [3, 4], "chunks": [[2, 1], [3, 1]], "acc": "getitem", "index": [["dai", [2, 0], [[1, 1]]], ["n"]]},
      {"fam": "daint", "shape": [3], "chunks": [[3]], "acc": "getitem", "index": [["n"], ["dai", 1, None]]}]),
    ("daint:zero-length-chunks-on-two-axes:refuses",
     # chunk unification of the two blockwise stages drops the zero-length chunks and rechunks the per-chunk pieces
     # of the first stage (which do not have the advertised dimensionality): getitem raises at compute time
     lambda c: c["acc"] == "getitem" and _dai_zero_slots(c) >= 2,
     ("refuses-valid-index", "index-refuses-valid-program", "post-refuses-valid-program", "recompute-refuses-valid-program"),
     [{"fam": "daint", "shape": [4], "chunks": [[2, 0, 2]], "acc": "getitem", "index": [["dai", [1], [[1, 0]]]]},
      {"fam": "daint", "shape": [4, 2], "chunks": [[4], [1, 0, 1]], "acc": "getitem", "index": [["s", None, None, None], ["dai", [1], [[1, 0]]]]}]),
    ("daint:out-of-bounds-accepted",
     lambda c: c["acc"] == "getitem" and _dai_oob(c), ("accepts-index-numpy-rejects",),
     [{"fam": "daint", "shape": [6, 2], "chunks": [[3, 3], [2]], "acc": "getitem", "index": [["dai", [3, 9], [[2]]]]}]),
    ("dabool:wrong-length-accepted",
     lambda c: c["acc"] == "getitem" and _dab_wrong_shape(c), ("accepts-index-numpy-rejects",),
     [{"fam": "dabool-axis", "shape": [1], "chunks": [[1]], "acc": "getitem", "index": [["dab", [False, True], [[1, 1]]]]}]),
    ("boolmask-full:zero-length-chunk:reshape-refuses",
     lambda c: c["acc"] == "getitem" and _full_mask_zero_chunk(c), ("refuses-valid-index", "setup:NotImplementedError", "setup:ValueError"),
     [{"fam": "npbool-full", "shape": [0, 5], "chunks": [[0], [1, 4]], "acc": "getitem", "index": [["ba", [], [0, 5]]]},
      {"fam": "npbool-full", "shape": [2, 2], "chunks": [[2, 0], [2]], "acc": "getitem", "index": [["ba", [True, False, True, True], [2, 2]]]}]),
    ("vindex:multi-array-multi-block",
     lambda c: c["acc"] == "vindex" and _vindex_multi(c), ("refuses-valid-index", "shape", "values"),
     [{"fam": "vindex", "shape": [5, 2, 3], "chunks": [[2, 3], [1, 1], [3]], "acc": "vindex",
       "index": [["l", [2, 1, 4, 0, 1]], ["l", [0, 0, 1, 0, 1]], ["s", None, None, None]]},
      {"fam": "vindex", "shape": [2, 5, 2], "chunks": [[1, 1], [2, 3], [1, 1]], "acc": "vindex",
       "index": [["s", None, None, None], ["l", [2]], ["l", [0]]]}]),
]


def _dai_with_basic(c):
    """the members of the repaired class: a dask integer index together with an integer / a
    non-trivial slice on a multi-chunk array, or with a stepped slice."""
    return c["acc"] == "getitem" and any(s[0] == "dai" for s in c["index"]) and (
        (any(s[0] in ("i",) or (s[0] == "s" and not _colon(s)) for s in c["index"]) and any(len(ch) > 1 for ch in c["chunks"]))
        or any(s[0] == "s" and s[3] not in (None, 1) for s in c["index"]))


_D34 = {"fam": "daint", "shape": [3, 4], "chunks": [[2, 1], [3, 1]], "acc": "getitem"}

# Classes that WERE violated on the unchanged tree and have been repaired in /repo (known_findings.json kind=fixed).
# Their members are part of the random stream again (not in `avoid`); the inputs of the former probes are REGRESSION
# probes: every failure on them is reported under the class signature (a fixed entry does not suppress it), and a
# failure of a listed kind on a member found by the random stream gets the same signature.
FIXED_CLASSES = [
    ("daint:with-slice:AttributeError", _dai_with_basic,
     ("crash:AttributeError", "crash:IndexError", "index-crash:AttributeError", "post-crash:AttributeError", "post-crash:IndexError",
      "recompute-crash:AttributeError"),
     [{**_D34, "index": [["dai", [2, 0], [[1, 1]]], ["s", None, 2, None]]},                 # x[i, :2]
      {**_D34, "index": [["dai", -2, None], ["s", None, 2, None]]},                          # x[i0, :2]
      {**_D34, "index": [["dai", [2, 0], [[1, 1]]], ["i", 1]]},                              # x[i, 1]
      {**_D34, "index": [["dai", -2, None], ["i", 1]]},
      {**_D34, "index": [["dai", [2, 0], [[1, 1]]], ["s", None, None, -2]]},                 # x[i, ::-2]
      {**_D34, "index": [["s", 1, None, None], ["dai", [3, 0, 3], [[2, 1]]]]},               # x[1:, j]
      {**_D34, "index": [["i", -1], ["dai", [3, 0, 3], [[2, 1]]]]},                          # x[-1, j]
      {**_D34, "index": [["dai", [2, 0], [[1, 1]]]], "post": [["getitem", [["s", None, None, None], ["s", None, None, 2]]]]},   # x[i][:, ::2]
      {**_D34, "index": [["dai", [2, 0], [[1, 1]]]], "post": [["getitem", [["l", [1, 0, 1]]]]]},                                # x[i][[1,0,1]]
      {**_D34, "index": [["dai", [2, 0], [[1, 1]]]], "post": [["getitem", [["i", 1]]]]},                                        # x[i][1]
      {**_D34, "index": [["dai", [2, 0], [[1, 1]]]], "post": [["getitem", [["s", 1, None, None], ["i", -1]]]]},                 # x[i][1:, -1]
      {**_D34, "index": [["dai", -2, None]], "post": [["getitem", [["s", None, None, 2]]]]},                                    # x[i0][::2]
      {**_D34, "index": [["dai", -2, None]], "post": [["getitem", [["l", [1, 0, 1]]]]]},                                        # x[i0][[1,0,1]]
      {"fam": "daint", "shape": [5], "chunks": [[2, 3]], "acc": "getitem", "index": [["dai", [4, 0, 2], [[2, 1]]]],
       "post": [["getitem", [["s", None, None, -1]]], ["sum", 0]]},
      {"fam": "daint-multi", "shape": [3, 4, 2], "chunks": [[2, 1], [3, 1], [1, 1]], "acc": "getitem",
       "index": [["dai", 1, None], ["dai", [3, 0], [[1, 1]]], ["s", None, None, -1]]}]),
    ("narrow-int-array-index:OverflowError", _narrow_array,
     # (was: posify_index `ind + shape` / _vindex `ind >= size` did the bounds arithmetic in the dtype of the index array and NumPy
     # refused the Python integer `shape` when the dtype cannot hold it; repaired in /repo ec3e431)
     ("crash:OverflowError", "index-crash:OverflowError"),
     [{"fam": "list", "shape": [256], "chunks": [[256]], "acc": "getitem", "index": [["a", [0], "uint8"]]},
      {"fam": "list", "shape": [128, 2], "chunks": [[64, 64], [2]], "acc": "getitem", "index": [["l", [-1, 5], "int8"]]},
      {"fam": "list", "shape": [70000], "chunks": [[65536, 4464]], "acc": "getitem", "index": [["a", [-32768, 32767, -1, 0], "int16"]]},
      {"fam": "list", "shape": [65537], "chunks": [[300] * 218 + [137]], "acc": "getitem", "index": [["a", [65535, 0, 256, 255], "uint16"]]},
      {"fam": "vindex", "shape": [300], "chunks": [[100, 100, 100]], "acc": "vindex", "index": [["a", [1, 0], "uint8"]]},
      {"fam": "vindex", "shape": [3, 300], "chunks": [[3], [150, 150]], "acc": "vindex", "index": [["s", None, None, None], ["a", [-128, 127, -1], "int8"]]}]),
]


def classify(case, kind):
    """stable signature for a failure of `kind` on `case` (known classes get their own name)."""
    for sig, pred, kinds, _ in KNOWN_CLASSES + FIXED_CLASSES:
        try:
            if kind in kinds and pred(case):
                return sig
        except Exception:
            pass
    return f"{case['fam']}:{kind}"


def avoid(case):
    """membership in a class of KNOWN_CLASSES (kept out of the random stream; probed separately)."""
    for _, pred, _, _ in KNOWN_CLASSES:
        try:
            if pred(case):
                return True
        except Exception:
            pass
    return False


def apply_post(y, post, for_dask):
    for op in post:
        if op[0] == "getitem":
            y = y[build_index(op[1], for_dask)]
        elif op[0] == "sum":
            y = y.sum(axis=op[1])
        elif op[0] == "add":
            y = y + op[1]
        elif op[0] == "T":
            y = y.T
        elif op[0] == "max":
            y = y.max(axis=op[1])
        elif op[0] == "addrev":
            y = y + y[(slice(None),) * op[1] + (slice(None, None, -1),)]
        elif op[0] == "mulself":
            y = y * y
        else:
            raise ValueError(op)
    return y


def run_post_case(case):
    """index, then follow-on ops on the result (slices on other axes, reductions, elemwise), then —
    history — compute the original indexed collection again: every value vs NumPy."""
    import dask

    out = []
    x, d0 = None, None
    try:
        x, _ = make_arrays(case)
        wbase = np.asarray(x[build_index(case["index"], False)])
        wpost = np.asarray(apply_post(wbase, case["post"], False))
    except Exception:
        return []  # not a valid NumPy program: outside this family's domain
    hist = case.get("hist", {})
    for opt in (True, False):
        cfg = {"array.optimize-graph": opt, "scheduler": "sync"}
        cfg.update(case.get("config", {}))
        kind, detail = None, {"optimize": opt}
        with dask.config.set(cfg), warnings.catch_warnings():
            warnings.simplefilter("ignore")
            stage = "index"
            try:
                _, d = make_arrays(case)
                y = d[build_index(case["index"], True)]
                if hist.get("chunks_first"):
                    _ = y.chunks
                stage = "post"
                z = apply_post(y, case["post"], True)
                rz = np.asarray(z.compute())
                if rz.shape != wpost.shape:
                    kind = "post-shape"
                elif not np.array_equal(rz, wpost):
                    kind = "post-values"
                elif tuple(z.shape) != rz.shape or any(sum(c) != n for c, n in zip(z.chunks, rz.shape)):
                    kind = "post-chunks-sum"
                if kind:
                    detail.update(want_shape=list(wpost.shape), got_shape=list(rz.shape), chunks=repr(z.chunks))
                if kind is None and hist.get("recompute"):
                    stage = "recompute"
                    ry = np.asarray(y.compute())
                    if ry.shape != wbase.shape:
                        kind = "recompute-shape"
                    elif not np.array_equal(ry, wbase):
                        kind = "recompute-values"
                    if kind:
                        detail.update(want_shape=list(wbase.shape), got_shape=list(ry.shape), chunks=repr(y.chunks))
            except REFUSALS as e:
                kind = f"{stage}-refuses-valid-program"
                detail["error"] = type(e).__name__ + ": " + str(e)[:100]
            except Exception as e:
                kind = f"{stage}-crash:{type(e).__name__}"
                detail["error"] = str(e)[:100]
        if kind:
            out.append((classify(case, kind), kind, detail))
    seen = {}
    for sg, k, dt in out:
        seen.setdefault(sg, (sg, k, dt))
    return list(seen.values())


def run_case(case):
    """Returns a list of (signature, what, detail)."""
    if case.get("post"):
        return run_post_case(case)
    out = []
    try:
        x, d = make_arrays(case)
    except Exception as e:
        return [(classify(case, f"setup:{type(e).__name__}"), f"setup:{type(e).__name__}", {"error": repr(e)[:200]})]
    want = oracle(case, x, tuple(tuple(c) for c in case["chunks"]))
    for opt in (True, False):
        got = impl(case, d, opt)
        kind = None
        detail = {"optimize": opt}
        if got[0] == "crash":
            kind = "crash:" + got[1]
            detail["error"] = got[2]
        elif want[0] == "err" and got[0] == "ok":
            kind = "accepts-index-numpy-rejects"
            detail.update(numpy=want[1], got=got[1].tolist() if got[1].size < 50 else "…")
        elif want[0] == "ok" and got[0] == "err":
            if must_succeed(case):
                kind = "refuses-valid-index"
                detail.update(error=got[1] + ": " + got[2], want_shape=list(want[1].shape))
        elif want[0] == "ok":
            w, r, y = want[1], got[1], got[2]
            if order_free(case):
                if sorted(w.ravel().tolist()) != sorted(r.ravel().tolist()):
                    kind = "values"
            elif w.shape != r.shape:
                kind = "shape"
            elif not np.array_equal(w, r):
                kind = "values"
            if kind is None:
                ysh = tuple(y.shape)
                if not any(isinstance(s, float) and math.isnan(s) for s in ysh):
                    if tuple(int(s) for s in ysh) != r.shape:
                        kind = "advertised-shape"
                    elif any(sum(c) != s for c, s in zip(y.chunks, r.shape)) or len(y.chunks) != r.ndim:
                        kind = "chunks-sum"
                    elif want[2] is not None and tuple(tuple(int(v) for v in c) for c in y.chunks) != want[2]:
                        kind = "blocks-chunks"
            if kind:
                detail.update(want=w.tolist() if w.size < 50 else "…", got=r.tolist() if r.size < 50 else "…",
                              want_shape=list(w.shape), got_shape=list(r.shape), chunks=repr(getattr(y, "chunks", None)))
        if kind:
            out.append((classify(case, kind), kind, detail))
    # one entry per signature
    seen = {}
    for s, k, dt in out:
        seen.setdefault(s, (s, k, dt))
    return list(seen.values())


# ------------------------------------------------------------------------------ shrinking


def _simpler_items(sp, dim):
    k = sp[0]
    if k == "s":
        yield ["s", None, None, None]
        a, b, c = sp[1:4]
        if len(sp) > 4 and sp[4]:   # typed bounds: plain python ints first, then simpler bounds of the same types
            yield ["s", a, b, c]
            tg = list(sp[4])
            if a is not None:
                yield ["s", None, b, c, [None] + tg[1:]]
            if b is not None:
                yield ["s", a, None, c, [tg[0], None, tg[2]]]
            if c is not None:
                yield ["s", a, b, None, tg[:2] + [None]]
            return
        if c not in (None, 1, -1):
            yield ["s", a, b, -1 if c < 0 else None]
        if a is not None:
            yield ["s", None, b, c]
        if b is not None:
            yield ["s", a, None, c]
    elif k == "i":
        if len(sp) > 2 and sp[2] not in (None, "int"):
            yield ["i", sp[1]]
        elif sp[1] != 0:
            yield ["i", 0]
            yield ["i", sp[1] - 1 if sp[1] > 0 else sp[1] + 1]
    elif k == "dai":
        if len(sp) > 3:
            yield sp[:3]
        if np.ndim(sp[1]) == 1:
            v = list(sp[1])
            if len(sp[2][0]) > 1:
                yield ["dai", v, [[len(v)]]] + sp[3:]
            if len(v) > 1:
                for j in range(len(v)):
                    yield ["dai", v[:j] + v[j + 1:], [[len(v) - 1]]] + sp[3:]
    elif k in ("l", "a"):
        v = list(np.asarray(sp[1]).ravel().tolist())
        if k == "a" or len(sp) > 2:
            yield ["l", v]
        for j in range(len(v)):
            yield [k, v[:j] + v[j + 1:]] + sp[2:]
        if any(v):
            yield [k, [0 if q else q for q in v]] + sp[2:]


def shrink(case, sig, avoid, budget=250):
    """greedy: single chunks, simpler items, fewer items; keeps the signature."""

    def fails(c):
        try:
            if avoid(c):
                return False
            return any(s == sig for s, _, _ in run_case(c))
        except Exception:
            return False

    cur = case
    steps = 0
    improved = True
    while improved and steps < budget:
        improved = False
        cands = []
        # merge chunks
        for ax, c in enumerate(cur["chunks"]):
            if len(c) > 1 and "pre" not in cur and not any(s[0] in ("dab", "dabm") for s in cur["index"]):
                cc = [list(q) for q in cur["chunks"]]
                cc[ax] = [sum(c)]
                cands.append({**cur, "chunks": cc})
                if len(c) > 2:
                    cc2 = [list(q) for q in cur["chunks"]]
                    cc2[ax] = [c[0] + c[1]] + list(c[2:])
                    cands.append({**cur, "chunks": cc2})
        # fewer follow-on ops / less history / no config
        if cur.get("post"):
            for j in range(len(cur["post"])):
                if len(cur["post"]) > 1:
                    cands.append({**cur, "post": cur["post"][:j] + cur["post"][j + 1:]})
            if cur.get("config"):
                cands.append({k: v for k, v in cur.items() if k != "config"})
            if cur.get("hist", {}).get("chunks_first"):
                cands.append({**cur, "hist": {**cur["hist"], "chunks_first": False}})
        # simpler / fewer items
        for j, sp in enumerate(cur["index"]):
            for alt in _simpler_items(sp, None):
                ix = list(cur["index"])
                ix[j] = alt
                cands.append({**cur, "index": ix})
            if sp[0] in ("n", "e"):
                ix = list(cur["index"])
                del ix[j]
                cands.append({**cur, "index": ix})
        if cur["index"] and cur["index"][-1] == ["s", None, None, None]:
            cands.append({**cur, "index": cur["index"][:-1]})
        # drop an axis that is indexed by an integer / a full slice / nothing, shrink an axis
        if "pre" not in cur and not any(s[0] in ("e", "ba", "dab", "bl", "bam", "dabm") for s in cur["index"]) and len(cur["shape"]) > 1:
            axes_of = []
            for j, sp in enumerate(cur["index"]):
                if sp[0] != "n":
                    axes_of.append(j)
            for ax in range(len(cur["shape"])):
                j = axes_of[ax] if ax < len(axes_of) else None
                if j is None or cur["index"][j][0] == "i" or _colon(cur["index"][j]):
                    if j is not None and cur["index"][j][0] == "i" and not (-cur["shape"][ax] <= cur["index"][j][1] < cur["shape"][ax]):
                        continue
                    ix = [sp for k, sp in enumerate(cur["index"]) if k != j]
                    cands.append({**cur, "shape": [n for k, n in enumerate(cur["shape"]) if k != ax],
                                  "chunks": [c for k, c in enumerate(cur["chunks"]) if k != ax], "index": ix})
        if "pre" not in cur and not any(s[0] in ("ba", "dab", "bl", "bam", "dabm") for s in cur["index"]):
            for ax, n in enumerate(cur["shape"]):
                last = cur["chunks"][ax][-1]
                for cut in ([last] if len(cur["chunks"][ax]) > 1 and n > 16 else []) + ([last // 2] if last > 16 else []):
                    # large axes: drop the last chunk / halve it (the index must stay valid: `fails` decides)
                    cc = [list(q) for q in cur["chunks"]]
                    cc[ax][-1] -= cut
                    if cc[ax][-1] == 0:
                        cc[ax].pop()
                    sh = list(cur["shape"])
                    sh[ax] = n - cut
                    cands.append({**cur, "shape": sh, "chunks": cc})
                if n > 1 and cur["chunks"][ax][-1] >= 1:
                    cc = [list(q) for q in cur["chunks"]]
                    cc[ax][-1] -= 1
                    if cc[ax][-1] == 0 and len(cc[ax]) > 1:
                        cc[ax].pop()
                    sh = list(cur["shape"])
                    sh[ax] = n - 1
                    cands.append({**cur, "shape": sh, "chunks": cc})
        for c in cands:
            steps += 1
            if steps > budget:
                break
            if fails(c):
                cur = c
                improved = True
                break
    return cur


# ------------------------------------------------------------------------------ generators


def rand_shape_chunks(rng, maxrank=3, maxdim=6, minrank=1, zero_chunks=0.08):
    r = rng.randint(minrank, maxrank)
    shape = [rng.randint(0 if rng.random() < 0.06 else 1, maxdim) for _ in range(r)]
    chunks = [list(gen.rand_chunks(rng, n, zeros=zero_chunks, maxparts=4)) for n in shape]
    return shape, chunks


def rand_int(rng, n, oob=0.08):
    if rng.random() < oob or n == 0:
        return rng.choice([n, n + 1, -n - 1, -n - 2, 3 * n + 5])
    return rng.randint(-n, n - 1)


def rand_basic_item(rng, n, p_int=0.3):
    if rng.random() < p_int:
        return ["i", rand_int(rng, n)]
    s = gen.rand_slice(rng, n)
    return ["s", s.start, s.stop, s.step]


def rand_basic_index(rng, shape, p_none=0.25, p_ell=0.3, p_short=0.3, p_long=0.04, p_int=0.3):
    items = [rand_basic_item(rng, n, p_int) for n in shape]
    if rng.random() < p_short and items:
        items = items[: rng.randint(0, len(items))]
    if rng.random() < p_long:
        items.append(rand_basic_item(rng, 3))
    if rng.random() < p_ell:
        # an Ellipsis replaces a (possibly empty) run of items
        a = rng.randint(0, len(items))
        b = rng.randint(a, len(items))
        items[a:b] = [["e"]]
        if rng.random() < 0.05:
            items.insert(rng.randint(0, len(items)), ["e"])
    while rng.random() < p_none and len(items) < 6:
        items.insert(rng.randint(0, len(items)), ["n"])
        p_none *= 0.6
    return items


def rand_int_list(rng, n, oob=0.06, maxlen=7):
    k = rng.choice([0, 1, 1, 2, 3, 4, 5, maxlen, n, n])
    if n == 0:
        return [] if rng.random() > oob else [0]
    style = rng.random()
    if style < 0.15:
        v = list(range(n))[: max(k, 1)]
    elif style < 0.3:
        v = sorted(rng.randint(0, n - 1) for _ in range(k))
    elif style < 0.4:
        v = [rng.randint(0, n - 1)] * k
    else:
        v = [rng.randint(-n, n - 1) for _ in range(k)]
    if rng.random() < oob and v:
        v[rng.randrange(len(v))] = rng.choice([n, -n - 1, n + 3])
    return v


def gen_basic(rng):
    shape, chunks = rand_shape_chunks(rng, minrank=0 if rng.random() < 0.04 else 1)
    return {"fam": "basic", "shape": shape, "chunks": chunks, "acc": "getitem", "index": rand_basic_index(rng, shape)}


def gen_list(rng):
    """one integer list / array on one axis, basic items elsewhere."""
    shape, chunks = rand_shape_chunks(rng)
    ax = rng.randrange(len(shape))
    items = [rand_basic_item(rng, n, p_int=0.25) for n in shape]
    v = rand_int_list(rng, shape[ax])
    r = rng.random()
    items[ax] = ["l", v] if r < 0.5 else ["a", v, rng.choice(["intp", "int64", "int32", "uint8" if all(q >= 0 for q in v) else "int16"])]
    if rng.random() < 0.2:
        items = items[: max(ax + 1, rng.randint(1, len(items)))]
    if rng.random() < 0.15:
        items[:0] = [["e"]] if ax == len(items) - 1 and rng.random() < 0.5 else []
        if items and items[0] == ["e"]:
            items = [["e"]] + items[ax + 1:]
    if rng.random() < 0.2:
        items.insert(rng.randint(0, len(items)), ["n"])
    return {"fam": "list", "shape": shape, "chunks": chunks, "acc": "getitem", "index": items}


def gen_two_lists(rng):
    shape, chunks = rand_shape_chunks(rng, minrank=2)
    a, b = rng.sample(range(len(shape)), 2)
    items = [["s", None, None, None] if rng.random() < 0.7 else rand_basic_item(rng, n) for n in shape]
    k = rng.randint(1, 4)
    for ax in (a, b):
        n = shape[ax]
        items[ax] = ["l", [rng.randint(-n, n - 1) if n else 0 for _ in range(k)]]
    return {"fam": "two-lists", "shape": shape, "chunks": chunks, "acc": "getitem", "index": items, "must": False}


def gen_npbool(rng):
    shape, chunks = rand_shape_chunks(rng)
    r = rng.random()
    if r < 0.35:  # full-rank numpy mask
        mk = [rng.random() < 0.5 for _ in range(int(np.prod(shape)))]
        items = [["ba", mk, list(shape)]]
        return {"fam": "npbool-full", "shape": shape, "chunks": chunks, "acc": "getitem", "index": items}
    ax = rng.randrange(len(shape))
    n = shape[ax]
    # wrong lengths must raise; NumPy itself accepts a wrong-length mask of length 0 (a NumPy quirk:
    # x[np.array([], bool)] is empty for every x) — that one is kept out of the domain
    ln = n if rng.random() < 0.85 else rng.choice([max(1, n - 1), n + 1])
    mk = [rng.random() < 0.5 for _ in range(ln)]
    items = [["s", None, None, None] if rng.random() < 0.6 else rand_basic_item(rng, m, p_int=0.0) for m in shape]
    items[ax] = ["bl", mk] if rng.random() < 0.5 else ["ba", mk]
    if rng.random() < 0.15 and len(shape) > 1:  # second mask on another axis
        bx = rng.choice([k for k in range(len(shape)) if k != ax])
        items[bx] = ["bl", [rng.random() < 0.5 for _ in range(shape[bx])]]
        return {"fam": "npbool-two", "shape": shape, "chunks": chunks, "acc": "getitem", "index": items, "must": False}
    items = items[: max(ax + 1, rng.randint(1, len(items)))]
    return {"fam": "npbool-axis", "shape": shape, "chunks": chunks, "acc": "getitem", "index": items}


def gen_dabool(rng):
    shape, chunks = rand_shape_chunks(rng, zero_chunks=0.0)
    r = rng.random()
    if r < 0.55:  # full rank dask mask
        mk = [rng.random() < 0.5 for _ in range(int(np.prod(shape)))]
        mch = chunks if rng.random() < 0.6 else [list(gen.rand_chunks(rng, n, maxparts=4)) for n in shape]
        return {"fam": "dabool-full", "shape": shape, "chunks": chunks, "acc": "getitem",
                "index": [["dab", mk, mch, list(shape)]]}
    ax = rng.randrange(len(shape))
    n = shape[ax]
    ln = n if rng.random() < 0.9 else n + 1
    mk = [rng.random() < 0.5 for _ in range(ln)]
    mch = [chunks[ax]] if (ln == n and rng.random() < 0.6) else [list(gen.rand_chunks(rng, ln, maxparts=4))]
    items = [["s", None, None, None] for _ in shape]
    items[ax] = ["dab", mk, mch]
    items = items[: ax + 1]
    return {"fam": "dabool-axis", "shape": shape, "chunks": chunks, "acc": "getitem", "index": items}


def _multi_chunks(rng, shape, p_multi=0.75, maxparts=4):
    """random chunks; with probability p_multi at least one axis (of length >= 2) has several chunks"""
    chunks = [list(gen.rand_chunks(rng, n, maxparts=maxparts)) for n in shape]
    if rng.random() < p_multi and not any(len(c) > 1 for c in chunks):
        big = [k for k, n in enumerate(shape) if n >= 2]
        if big:
            k = rng.choice(big)
            c = rng.randint(1, shape[k] - 1)
            chunks[k] = [c, shape[k] - c]
    return chunks


def _dai_item(rng, n, p0=0.25, oob=0.05, maxparts=3, maxlen=7, p_opts=0.3):
    """a dask integer indexer for an axis of length n: 0-d, or 1-d with random index chunks; sometimes
    of another integer dtype / produced by an op instead of from_array"""
    opts = {}
    if rng.random() < p_opts:
        if rng.random() < 0.6:
            opts["dtype"] = rng.choice(["int32", "int16", "uint8", "uint64", "intp"])
        if rng.random() < 0.6:
            opts["form"] = rng.choice(["add0", "rechunk", "sliced"])
    unsigned = opts.get("dtype", "i").startswith("u")
    if n and rng.random() < p0:
        q = rng.randint(-n, n - 1)
        return ["dai", q % n if unsigned else q, None] + ([opts] if opts else [])
    v = rand_int_list(rng, n, oob=oob, maxlen=maxlen)
    if not v:
        v = [0] if n else []
    if unsigned:
        v = [q % n if -n <= q < n else abs(q) for q in v]
    return ["dai", v, [list(gen.rand_chunks(rng, len(v), maxparts=maxparts))]] + ([opts] if opts else [])


def _zero_chunk_one_slot(rng, case, ax):
    """put zero-length chunks on exactly ONE slot: an array axis or the chunks of the 1-d indexer"""
    it = case["index_item"]
    slots = list(range(len(case["chunks"]))) + (["index"] if np.ndim(it[1]) == 1 else [])
    sl = rng.choice(slots + [ax])
    tgt = it[2][0] if sl == "index" else case["chunks"][sl]
    for _ in range(rng.randint(1, 2)):
        tgt.insert(rng.randint(0, len(tgt)), 0)


def _any_slice(rng, n):
    s = gen.rand_slice(rng, n)  # every step incl. negative / larger than n, bounds beyond the axis
    return ["s", s.start, s.stop, s.step]


def gen_daint(rng):
    """ONE dask integer indexer (0-d or 1-d) on one axis of a (mostly multi-chunk) array, the other axes
    indexed by plain integers, slices with every step, an integer list (1-d dask indexer + list is a
    documented refusal: may raise, may not return other data), short indices, an Ellipsis standing for
    a run of axes, None entries."""
    shape, _ = rand_shape_chunks(rng, zero_chunks=0.0)
    chunks = _multi_chunks(rng, shape)
    nd = len(shape)
    ax = rng.randrange(nd)
    items = [["s", None, None, None] if rng.random() < 0.35 else (["i", rand_int(rng, m, oob=0.04)] if rng.random() < 0.3 else _any_slice(rng, m))
             for m in shape]
    items[ax] = _dai_item(rng, shape[ax])
    case = {"fam": "daint", "shape": shape, "chunks": chunks, "acc": "getitem"}
    if rng.random() < 0.12:   # zero-length chunks (array axis or indexer) on one slot; rarely on more (known class)
        for _ in range(1 if rng.random() < 0.9 else 2):
            _zero_chunk_one_slot(rng, {"chunks": chunks, "index_item": items[ax]}, ax)
    if nd > 1 and rng.random() < 0.15:
        bx = rng.choice([k for k in range(nd) if k != ax])
        items[bx] = ["l", rand_int_list(rng, shape[bx], oob=0.0, maxlen=4) or ([0] if shape[bx] else [])]
        if np.ndim(items[ax][1]) == 1:
            case["must"] = False
    r = rng.random()
    if r < 0.2:      # short index
        items = items[: rng.randint(ax + 1, nd)]
    elif r < 0.45:   # an Ellipsis for a (possibly empty) run of axes on one side of the dask indexer
        if rng.random() < 0.5:
            lo = rng.randint(0, ax)
            hi = rng.randint(lo, ax)
        else:
            lo = rng.randint(ax + 1, nd)
            hi = rng.choice([nd, rng.randint(lo, nd)])
        items[lo:hi] = [["e"]]
    p_none = 0.12
    while rng.random() < p_none and len(items) < 6:
        items.insert(rng.randint(0, len(items)), ["n"])
        p_none *= 0.5
    case["index"] = items
    return case


def gen_daint_multi(rng):
    """several integer dask indexers in ONE tuple on 3-D/4-D arrays (single- and multi-chunk): 0-d
    dask ints (each drops its axis), at most one 1-d dask int array, plain ints, in every order; the
    remaining axes take slices with every step.  The advanced items are kept adjacent (NumPy moves
    separated ones to the front: known class)."""
    nd = rng.choice([3, 3, 4])
    shape = [rng.randint(2, 6) for _ in range(nd)]
    single = rng.random() < 0.25
    # (at most 2 chunks per axis and one axis of 3: the graphs of stacked dask-int stages grow with the product)
    chunks = [[n] for n in shape] if single else _multi_chunks(rng, shape, p_multi=1.0, maxparts=2)
    if not single and rng.random() < 0.4:
        q = rng.randrange(nd)
        chunks[q] = list(gen.rand_chunks(rng, shape[q], maxparts=3))
    k = rng.randint(2, min(3, nd))          # length of the advanced run
    a = rng.randint(0, nd - k)              # where it starts
    kinds = ["i0"] * k
    if rng.random() < 0.8:
        kinds[rng.randrange(k)] = "j1"
    if rng.random() < 0.5:
        q = rng.randrange(k)
        if kinds[q] == "i0":
            kinds[q] = "int"
    if "i0" not in kinds:
        kinds[rng.choice([q for q in range(k) if kinds[q] != "j1"] or [0])] = "i0"
    items = []
    for ax, n in enumerate(shape):
        if a <= ax < a + k:
            kd = kinds[ax - a]
            if kd == "i0":
                items.append(["dai", rng.randint(-n, n - 1), None])
            elif kd == "int":
                items.append(["i", rng.randint(-n, n - 1)])
            else:
                v = [rng.randint(-n, n - 1) for _ in range(rng.randint(1, 4))]
                items.append(["dai", v, [list(gen.rand_chunks(rng, len(v), maxparts=2))]])
        elif rng.random() < 0.5:
            items.append(_any_slice(rng, n))
        else:
            items.append(["s", None, None, None])
    while items and _colon(items[-1]) and rng.random() < 0.5:
        items.pop()
    if items and _colon(items[0]) and a > 0 and rng.random() < 0.15:
        j = 0
        while j < a and _colon(items[j]):
            j += 1
        items[:j] = [["e"]]
    return {"fam": "daint-multi", "shape": shape, "chunks": chunks, "acc": "getitem", "index": items}


def _rand_post_getitem(rng, oshape):
    """an index for an array of shape oshape made of full slices, slices with every step, integers,
    at most one integer list (then no integers: an integer and a list separated by a slice is the
    known transposition class), None entries and an Ellipsis for a run of full slices."""
    use_list = rng.random() < 0.25 and any(oshape)
    lax = rng.choice([k for k, m in enumerate(oshape) if m]) if use_list else -1
    sub = []
    for k2, m in enumerate(oshape):
        r = rng.random()
        if k2 == lax:
            sub.append(["l", [rng.randint(-m, m - 1) for _ in range(rng.randint(1, 4))]])
        elif r < 0.3:
            sub.append(["s", None, None, None])
        elif r < 0.5 and m and not use_list:
            sub.append(["i", rng.randint(-m, m - 1)])
        else:
            sub.append(_any_slice(rng, m))
    if rng.random() < 0.3:
        sub = sub[: rng.randint(lax + 1 if use_list else 0, len(sub))]
    if rng.random() < 0.15:
        runs = [j for j, sp in enumerate(sub) if _colon(sp)]
        if runs:
            sub[runs[0]] = ["e"]
    elif rng.random() < 0.08 and not any(sp[0] == "e" for sp in sub):
        sub.append(["e"])
    if rng.random() < 0.15 and not use_list:
        sub.insert(rng.randint(0, len(sub)), ["n"])
    return sub


def rand_post(rng, w, nops):
    """follow-on ops for the NumPy value w of an indexed array (consumers: slices / integer / list
    indices, reductions, elementwise ops, transposition); returns (ops, final NumPy value)."""
    post = []
    for _ in range(nops):
        r = rng.random()
        if r < 0.55 and w.ndim:
            op = ["getitem", _rand_post_getitem(rng, list(w.shape))]
        elif r < 0.75 and w.ndim:
            # (sum only: min/max over a result with a zero-length chunk — which stepped slices produce — is the
            # listed min/max zero-length-chunk family of C18/C28, not an indexing matter)
            op = ["sum", rng.choice([None] + list(range(w.ndim)))]
        elif r < 0.83:
            op = ["add", rng.randint(1, 3)]
        elif r < 0.9 and w.ndim:
            op = ["addrev", rng.randrange(w.ndim)]
        elif r < 0.95:
            op = ["mulself"]
        elif w.ndim >= 2:
            op = ["T"]
        else:
            op = ["add", 1]
        try:
            w = np.asarray(apply_post(w, [op], False))
        except Exception:
            continue
        post.append(op)
    return post, w


def gen_daint_post(rng):
    """x[<dask integer indexer> (+ integers / slices on the other axes)] on a multi-chunk array, then
    consumers of the result: slices with every step, integers, integer lists, None, reductions,
    elementwise ops, transposition; then the indexed collection itself is computed again."""
    nd = rng.choice([1, 2, 2, 3])
    shape = [rng.randint(2, 7) for _ in range(nd)]
    chunks = _multi_chunks(rng, shape, p_multi=0.9)
    ax = rng.randrange(nd)
    if rng.random() < 0.8 and len(chunks[ax]) == 1:
        c = rng.randint(1, shape[ax] - 1)
        chunks[ax] = [c, shape[ax] - c]
    items = [["s", None, None, None] for _ in shape]
    items[ax] = _dai_item(rng, shape[ax], p0=0.2, oob=0.0, maxlen=9)
    if rng.random() < 0.35:
        for k2, m in enumerate(shape):
            if k2 != ax and rng.random() < 0.6:
                items[k2] = ["i", rng.randint(-m, m - 1)] if rng.random() < 0.3 else _any_slice(rng, m)
    while len(items) > ax + 1 and _colon(items[-1]):
        items.pop()
    case = {"fam": "daint-post", "shape": shape, "chunks": chunks, "acc": "getitem", "index": items}
    if avoid(case):  # (an integer and the 1-d indexer separated by a slice: transposition class)
        for k2 in range(len(items)):
            if items[k2][0] == "i":
                items[k2] = ["s", None, None, None]
    x = np.arange(int(np.prod(shape)), dtype=np.int64).reshape(shape)
    w = np.asarray(x[build_index(items, False)])
    post, _ = rand_post(rng, w, rng.choice([1, 1, 2, 2, 3]))
    if not post:
        post = [["add", 1]]
    case["post"] = post
    case["hist"] = {"chunks_first": rng.random() < 0.4, "recompute": rng.random() < 0.6}
    return case


def gen_take_post(rng):
    """a list/array take, then follow-on ops (basic slices on the other axes or a unit slice on
    the take axis, reductions, elemwise), then the original collection computed again."""
    nd = rng.choice([2, 2, 3])
    ax = rng.randrange(nd)
    shape = [rng.randint(2, 6) for _ in range(nd)]
    shape[ax] = rng.randint(4, 12)
    n = shape[ax]
    chunks = [list(gen.rand_chunks(rng, m, maxparts=4)) for m in shape]
    if rng.random() < 0.6:  # a few equal chunks on the take axis so that groups overflow the limit
        c = rng.randint(2, 4)
        chunks[ax] = [c] * (n // c) + ([n % c] if n % c else [])
    style = rng.random()
    if style < 0.55:   # sorted subset with holes: runs per input chunk of uneven length
        v = [q for q in range(n) if rng.random() < 0.7] or [0]
    elif style < 0.75:
        v = sorted(rng.randint(0, n - 1) for _ in range(rng.randint(2, n + 2)))
    else:
        v = [rng.randint(-n, n - 1) for _ in range(rng.randint(1, n + 2))]
    items = [["s", None, None, None] for _ in shape]
    items[ax] = ["l", v] if rng.random() < 0.6 else ["a", v, "intp"]
    items = items[: ax + 1]
    oshape = list(shape)
    oshape[ax] = len(v)
    post = []
    for _ in range(rng.randint(1, 2)):
        r = rng.random()
        cur_nd = len(oshape)
        if r < 0.6 and cur_nd:
            sub = []
            for k2, m in enumerate(oshape):
                if k2 == ax and rng.random() < 0.7:
                    sub.append(["s", None, None, None])
                elif rng.random() < 0.15 and m and len(oshape) > 1:
                    sub.append(["i", rng.randint(0, m - 1)])
                else:
                    lo = rng.randint(0, max(0, m - 1))
                    hi = rng.randint(lo, m)
                    sub.append(["s", lo if rng.random() < 0.8 else None, hi if rng.random() < 0.8 else None,
                                rng.choice([None, None, 1, 2]) if k2 != ax else None])
            post.append(["getitem", sub])
            new_shape = []
            for sp, m in zip(sub, oshape):
                if sp[0] == "s":
                    new_shape.append(len(range(*slice(sp[1], sp[2], sp[3]).indices(m))))
                elif sp[0] != "i":
                    new_shape.append(m)
            if any(sp[0] == "i" for sp in sub):
                ax = -1  # axis bookkeeping no longer needed
            oshape = new_shape
        elif r < 0.8 and cur_nd:
            a2 = rng.randrange(cur_nd)
            post.append(["sum", a2])
            oshape = [m for k2, m in enumerate(oshape) if k2 != a2]
            ax = -1
        elif r < 0.92:
            post.append(["add", rng.randint(1, 3)])
        elif cur_nd >= 2:
            post.append(["T"])
            oshape = oshape[::-1]
            ax = -1
    case = {"fam": "take-post", "shape": shape, "chunks": chunks, "acc": "getitem", "index": items, "post": post,
            "hist": {"chunks_first": rng.random() < 0.5, "recompute": rng.random() < 0.8}}
    if rng.random() < 0.5:
        case["config"] = {"array.chunk-size": rng.choice(["16B", "64B", "256B"])}
    return case


def gen_vindex(rng):
    shape, chunks = rand_shape_chunks(rng, zero_chunks=0.0)
    nd = len(shape)
    narr = rng.randint(1, nd)
    axes = sorted(rng.sample(range(nd), narr))
    k = rng.choice([0, 1, 2, 3, 5])
    items = []
    two_d = rng.random() < 0.2 and narr >= 2
    for ax, n in enumerate(shape):
        if ax in axes:
            if n == 0:
                v = []
            else:
                v = [rng.randint(-n, n - 1) for _ in range(k)]
                if rng.random() < 0.04 and v:
                    v[0] = n
            if two_d and ax == axes[0]:
                items.append(["a", [[q] for q in v], "intp"])
            elif rng.random() < 0.5:
                items.append(["l", v])
            else:
                items.append(["a", v, "intp"])
        elif rng.random() < 0.3 and n:
            items.append(["i", rand_int(rng, n, oob=0.03)])
        else:
            s = gen.rand_slice(rng, n, steps=(None, 1, 2, -1))
            items.append(["s", s.start, s.stop, s.step])
    if rng.random() < 0.2:
        # trailing full slices dropped / replaced by an Ellipsis
        while items and items[-1][0] == "s" and items[-1][1:] == [None, None, None]:
            items.pop()
    return {"fam": "vindex", "shape": shape, "chunks": chunks, "acc": "vindex", "index": items or [["l", []]]}


def gen_blocks(rng):
    shape, chunks = rand_shape_chunks(rng, zero_chunks=0.05)
    items = []
    have_list = False
    for c in chunks:
        nb = len(c)
        r = rng.random()
        if r < 0.3:
            items.append(["i", rand_int(rng, nb, oob=0.05)])
        elif r < 0.45 and not have_list:
            have_list = True
            items.append(["l", rand_int_list(rng, nb, oob=0.04, maxlen=4)])
        else:
            s = gen.rand_slice(rng, nb)
            items.append(["s", s.start, s.stop, s.step])
    if rng.random() < 0.3:
        items = items[: rng.randint(0, len(items))]
    if rng.random() < 0.2:
        a = rng.randint(0, len(items))
        items[a: rng.randint(a, len(items))] = [["e"]]
    must = True
    if rng.random() < 0.03:
        items.insert(rng.randint(0, len(items)), ["n"])
    return {"fam": "blocks", "shape": shape, "chunks": chunks, "acc": "blocks", "index": items, "must": must}


def gen_unknown(rng):
    """index an array with unknown chunk sizes (before / after compute_chunk_sizes)."""
    shape, chunks = rand_shape_chunks(rng, maxrank=2, zero_chunks=0.0)
    ccs = rng.random() < 0.5
    if rng.random() < 0.5:
        mk = [rng.random() < 0.6 for _ in range(int(np.prod(shape)))]
        pre = {"kind": "mask-full", "mask": mk, "ccs": ccs}
        oshape = [sum(mk)]
    else:
        ax = rng.randrange(len(shape))
        mk = [rng.random() < 0.6 for _ in range(shape[ax])]
        pre = {"kind": "mask-axis", "axis": ax, "mask": mk, "ccs": ccs}
        oshape = list(shape)
        oshape[ax] = sum(mk)
    style = rng.random()
    if style < 0.4:
        items = []
        for n in oshape:
            s = gen.rand_slice(rng, n, steps=(None, 1, 1, -1))
            items.append(["s", s.start, s.stop, s.step])
    else:
        items = rand_basic_index(rng, oshape, p_long=0.0)
    return {"fam": "unknown-ccs" if ccs else "unknown", "shape": shape, "chunks": chunks, "acc": "getitem",
            "index": items, "pre": pre, "must": ccs}


def gen_exotic(rng):
    """index types NumPy rejects or treats specially: must raise or agree."""
    shape, chunks = rand_shape_chunks(rng, zero_chunks=0.0)
    n = shape[0]
    r = rng.random()
    if r < 0.25:
        it = ["f", rng.choice([0.5, 1.5, -0.5, 2.25])]
    elif r < 0.45:
        it = ["l", [0.5, 1.0][: rng.randint(1, 2)]]
    elif r < 0.6:
        it = ["bl", [True] * (n + 1)]
    elif r < 0.8:
        it = ["a", [[0, 0], [0, 0]] if n else [[], []], "intp"]
    else:
        it = ["l", [n]]
    return {"fam": "exotic", "shape": shape, "chunks": chunks, "acc": "getitem", "index": [it], "must": False}


GENS = [
    (gen_basic, 5), (gen_list, 3), (gen_two_lists, 0.4), (gen_npbool, 1.2), (gen_dabool, 1.2), (gen_daint, 1.0),
    (gen_vindex, 1.5), (gen_blocks, 1.5), (gen_unknown, 1.5), (gen_exotic, 0.3),
    (gen_daint_multi, 1.2), (gen_take_post, 1.6), (gen_daint_post, 1.6),
]
# SIZE classes (large axes) and INDEX ELEMENT TYPES (props_ext/c12_sizes.py): random part
GENS += [(g, w * 0.7) for g, w in c12_sizes.GENS]


def case_key(case, res):
    spec = case["index"]
    kinds = tuple(sorted({s[0] for s in spec}))
    neg = any(s[0] == "s" and s[3] is not None and s[3] < 0 for s in spec)
    if case.get("post"):
        kinds = kinds + tuple(op[0] for op in case["post"]) + (bool(case.get("hist", {}).get("chunks_first")),)
    return (case["fam"], kinds, neg, len(case["shape"]), len(spec) < len(case["shape"]),
            any(len(c) > 1 for c in case["chunks"]), bool(case.get("pre", {}).get("ccs")))


def report(ctx, case, probs, do_shrink=True):
    for sig, kind, detail in probs:
        c = case
        if do_shrink and sig not in ctx.extra.setdefault("_shrunk", set()):
            ctx.extra["_shrunk"].add(sig)
            try:
                c = shrink(case, sig, avoid if not any(sig == k[0] for k in KNOWN_CLASSES) else (lambda _c: False))
                if c is not case:
                    for s2, k2, d2 in run_case(c):
                        if s2 == sig:
                            kind, detail = k2, d2
            except Exception:
                c = case
        ctx.fail(sig, {"case": c, "kind": kind, "detail": detail},
                 f"{c['acc']} with index {c['index']} on shape {c['shape']} chunks {c['chunks']}: {kind}")


def schedule(rng, n_cases):
    """the order in which the generator families are drawn: every family gets its share of n_cases (proportional to its
    weight, at least one) and its draws are spread EVENLY over the run (position (j + u) / quota, u random per family), so
    that a run cut short by the wall-clock cap has explored every family in the same proportions as a full one"""
    total = sum(w for _, w in GENS)
    slots = []
    for g, w in GENS:
        q = max(1, round(n_cases * w / total))
        u = rng.random()
        slots += [((j + u) / q, g.__name__, g) for j in range(q)]
    slots.sort(key=lambda t: t[:2])
    return [g for _, _, g in slots]


def search(ctx, n_cases):
    import time

    rng = ctx.rng
    done = 0
    skipped = 0
    # wall-clock cap of the random stream (loaded machines): the quick tier has to stay inside its budget; the
    # stratified schedule keeps the family mix of a cut run equal to that of a full one
    cap = ctx.scale(30.0, 1500.0)
    t_start = time.time()
    order = schedule(rng, n_cases)
    capped = False
    for g in order:
        if done % 50 == 0 and time.time() - t_start > cap:
            capped = True
            break
        case = g(rng)
        for _ in range(20):                  # members of a listed class are re-drawn from the same family
            if not avoid(case):
                break
            skipped += 1
            case = g(rng)
        else:
            continue
        probs = run_case(case)
        done += 1
        ctx.count(case_key(case, probs))
        if done % 400 == 1:
            ctx.sample({"case": case})
        if probs:
            report(ctx, case, probs)
    ctx.notes["search_cases"] = done
    ctx.notes["search_planned"] = len(order)
    if capped:
        ctx.notes["search_capped_at_s"] = cap
    ctx.notes["search_skipped_known_class"] = skipped
    ctx.notes["wall_random_stream_s"] = round(time.time() - t_start, 1)
    # the stratified sweep over size classes x element types (every run; thorough: several passes)

    swept, t_sweep = 0, time.time()
    for _ in range(ctx.scale(1, 6)):
        for case in c12_sizes.stratified(rng):
            if avoid(case):
                skipped += 1
                continue
            probs = run_case(case)
            swept += 1
            ctx.count(("sweep",) + case_key(case, probs) + (tuple(len(c) > 1 for c in case["chunks"]),))
            if swept % 100 == 1:
                ctx.sample({"case": case})
            if probs:
                report(ctx, case, probs)
    ctx.notes["size_type_sweep_cases"] = swept
    ctx.notes["wall_sweep_s"] = round(time.time() - t_sweep, 1)
    # dedicated probes for the known classes
    for sig, _, _, probes in KNOWN_CLASSES:
        for case in probes:
            probs = run_case(case)
            ctx.count(("probe", sig))
            for s, kind, detail in probs:
                ctx.fail(s, {"case": case, "kind": kind, "detail": detail}, f"probe {sig}")
    # regression probes of the repaired classes: every failure keeps the class signature
    for sig, _, _, probes in FIXED_CLASSES:
        for case in probes:
            probs = run_case(case)
            ctx.count(("regression-probe", sig, bool(case.get("post"))))
            for s, kind, detail in probs:
                ctx.fail(sig, {"case": case, "kind": kind, "detail": detail, "generic_signature": s},
                         f"regression probe of the repaired class {sig}: {kind}")
    # the known finding listed by the coordinator (take through broadcast_to)
    probe_broadcast(ctx)


def probe_broadcast(ctx):
    import dask
    import dask_array as da

    xb = np.broadcast_to(np.ones((4, 5)), (2, 4, 5))
    want = xb[:, :, [-4, 1, 2, 0, -5, 4]]
    for opt in (True, False):
        with dask.config.set({"array.optimize-graph": opt, "scheduler": "sync"}), warnings.catch_warnings():
            warnings.simplefilter("ignore")
            try:
                b = da.broadcast_to(da.ones((4, 5), chunks=(2, 3)), (2, 4, 5))
                r = np.asarray(b[:, :, [-4, 1, 2, 0, -5, 4]].compute())
                bad = r.shape != want.shape or not np.array_equal(r, want)
                how = f"shape {r.shape} instead of {want.shape}"
            except Exception as e:
                bad, how = True, f"{type(e).__name__}: {str(e)[:60]}"
        ctx.count(("probe", "take-through-broadcast", opt))
        if bad:
            ctx.fail("take-through-broadcast", {"case": "b=da.broadcast_to(da.ones((4,5),chunks=(2,3)),(2,4,5)); b[:,:,[-4,1,2,0,-5,4]]", "optimize": opt, "how": how},
                     "list take on an axis of a broadcast_to result")


# ------------------------------------------------------------------------- correspondence


def fmt_norm(r):
    return "ok " + f_index(r)


def canon_layer(layer, name):
    from dask._task_spec import Alias

    ents = []
    for k, t in layer.items():
        out = f_list(k[1:])
        if isinstance(t, Alias):
            tgt = t.target
            tgt = tgt.key if hasattr(tgt, "key") else tgt
            ents.append(f"{out}>{f_list(tgt[1:])}>" + ("|".join(["N:N:N"] * (len(tgt) - 1)) or "()"))
        else:
            ref, sl = t.args
            ents.append(f"{out}>{f_list(ref.key[1:])}>" + ("|".join(f_item(s) for s in sl) or "()"))
    return "ok " + ";".join(sorted(ents))


def one_d_index_space(n, steps):
    vals = gen.slice_values(n)
    for a, b, c in itertools.product(vals, vals, steps):
        yield slice(a, b, c)
    for i in range(-n - 2, n + 3):
        yield i


def correspondence(ctx):
    import dask_array as da
    from dask_array.slicing import SliceSlicesIntegers
    from dask_array.slicing import _utils as U
    from dask_array.slicing._vindex import _compute_indexer
    from dask_array._shuffle import Shuffle

    rng = ctx.rng
    NEX = ctx.scale(5, 7)
    NR = ctx.scale(2500, 40000)
    steps = (None, 1, 2, 3, -1, -2, -3)
    ctx.exhaustive = True
    ctx.extra["exhaustive_domain"] = (
        f"normalize_index / npIndex-vs-NumPy / SliceSlicesIntegers chunks+layer / x[idx].chunks: 1-D, n≤{NEX}, all chunkings of n × "
        f"all slices with bounds in [-n-2,n+2]∪{{None}} × steps {steps} and all ints in [-n-2,n+2]; wrapped as (i,), (None,i), (...,i), (i,None), (i,i)"
    )

    def norm(idx, shape):
        return impl_call(lambda: U.normalize_index(idx, shape), fmt_norm)

    def strict(v):
        """an integer position of a NORMALIZED index must be a Python int: a NumPy scalar left in place is rendered
        `<value>@<type>` (the model, over unbounded Int, prints the plain value: a disagreement)"""
        if v is None or type(v) is int:
            return "N" if v is None else str(v)
        return f"{int(v)}@{type(v).__name__}"

    def f_item_strict(it):
        if isinstance(it, slice):
            return ":".join(strict(v) for v in (it.start, it.stop, it.step))
        if isinstance(it, (int, np.integer, np.bool_)) and it is not None:
            return strict(it)
        return f_item(it)

    def norm_typed(idx, shape):
        try:   # (any exception class is an answer to compare with the model's, never a harness error)
            r = U.normalize_index(idx, shape)
            return "ok " + ("()" if not r else "|".join(f_item_strict(i) for i in r))
        except Exception as e:
            return err_name(e)

    def npflat(idx, shape):
        x = np.arange(int(np.prod(shape, dtype=np.int64)), dtype=np.int64).reshape(shape)
        try:
            r = x[idx]
        except Exception as e:
            return err_name(e)
        return "ok " + f_list(r.shape) + " " + f_list(np.asarray(r).ravel().tolist())

    # ---- replace_ellipsis / normalize_index / spec-vs-NumPy, exhaustive 1-D
    p_norm, p_np, p_re, p_normt = [], [], [], []
    typed_table = ctx.extra.setdefault("_typed_norm", {})
    for n in range(0, NEX + 1):
        for it in one_d_index_space(n, steps):
            for idx in ((it,), (None, it), (Ellipsis, it), (it, None), (it, it), (it, Ellipsis, None)):
                p_norm.append((f"ix.normalize {f_list((n,))} {f_index(idx)}", norm(idx, (n,))))
                p_np.append((f"ix.npflat {f_list((n,))} {f_index(idx)}", npflat(idx, (n,))))
    # ---- random n-D
    for _ in range(NR):
        shape = tuple(rng.randint(0 if rng.random() < 0.1 else 1, 6) for _ in range(rng.randint(0, 4)))
        spec = rand_basic_index(rng, shape, p_long=0.08)
        if rng.random() < 0.15:
            spec.insert(rng.randint(0, len(spec)), ["e"])
        if rng.random() < 0.03 and spec:
            spec[rng.randrange(len(spec))] = ["s", None, None, 0]
        idx = build_index(spec, False)
        p_re.append((f"ix.replace_ellipsis {len(shape)} {f_index(idx)}", impl_call(lambda: U.replace_ellipsis(len(shape), idx), fmt_norm)))
        p_norm.append((f"ix.normalize {f_list(shape)} {f_index(idx)}", norm(idx, shape)))
        if rng.random() < 0.35:   # the same tuple with its integer positions of NumPy integer types / bool slice bounds
            tspec = [c12_sizes.retag_item(rng, sp, 0.8) for sp in spec]
            if tspec != spec:
                req = f"ix.normalize {f_list(shape)} {f_index(idx)}"
                p_normt.append((req, norm_typed(build_index(tspec, False), shape)))
                typed_table.setdefault(req, tspec)
        # the spec's error CLASS is NumPy's; dask's may differ only as documented (two Ellipses -> TypeError)
        p_np.append((f"ix.npflat {f_list(shape)} {f_index(idx)}", npflat(idx, shape)))
        # lists: one list, no integers (the spec's claimed NumPy domain for `lst`)
        if shape and rng.random() < 0.4:
            ax = rng.randrange(len(shape))
            sp2 = [["s", q.start, q.stop, q.step] for q in (gen.rand_slice(rng, m) for m in shape)]
            sp2[ax] = ["l", rand_int_list(rng, shape[ax], oob=0.1)]
            if rng.random() < 0.3:
                sp2.insert(rng.randint(0, len(sp2)), ["n"])
            idx2 = build_index(sp2, False)
            p_norm.append((f"ix.normalize {f_list(shape)} {f_index(idx2)}", norm(idx2, shape)))
            p_np.append((f"ix.npflat {f_list(shape)} {f_index(idx2)}", npflat(idx2, shape)))
    # typed elements on LARGE axes, values near the type limits (props_ext/c12_sizes)
    for _ in range(ctx.scale(600, 8000)):
        case = c12_sizes.case_basic(rng)
        shape = tuple(case["shape"])
        idx = build_index([sp[:4] if sp[0] == "s" else sp[:2] if sp[0] == "i" else sp for sp in case["index"]], False)
        req = f"ix.normalize {f_list(shape)} {f_index(idx)}"
        p_normt.append((req, norm_typed(build_index(case["index"], False), shape)))
        typed_table.setdefault(req, case["index"])
    ctx.correspond("normalize_index:typed-elements", p_normt,
                   branch_key=lambda req, m: (m[:12], req.count("|"), "..." in req, "None" in req, len(req) // 10))
    ctx.correspond("replace_ellipsis", p_re)
    ctx.correspond("normalize_index", p_norm, branch_key=lambda req, m: (m[:12], req.count("|"), "..." in req, "None" in req, "L" in req))
    ctx.correspond("npIndex-vs-NumPy", p_np, branch_key=lambda req, m: (m[:6], req.count("|"), "..." in req, "None" in req, "L" in req))

    # ---- SliceSlicesIntegers chunks / _layer and x[idx].chunks
    p_ch, p_ly, p_gc = [], [], []

    def ssi_pairs(shape, chunks, idx):
        x = np.zeros(shape, dtype=np.int8)
        d = da.from_array(x, chunks=chunks)
        cks = f_chunks(chunks)
        try:
            nidx = U.normalize_index(idx, shape)
        except REFUSALS:
            nidx = None
        if nidx is not None:
            index2 = tuple(i for i in nidx if i is not None)
            e = SliceSlicesIntegers(d.expr, index2, False)
            p_ch.append((f"ix.ssi_chunks {cks} {f_index(index2)}", impl_call(lambda: e.chunks, lambda r: "ok " + f_ll(r))))
            p_ly.append((f"ix.ssi_layer {cks} {f_index(index2)}", impl_call(lambda: e._layer(), lambda r: canon_layer(r, e._name))))
        p_gc.append((f"ix.getitem_chunks {cks} {f_index(idx)}", impl_call(lambda: d[idx].chunks, lambda r: "ok " + f_ll(r))))
        p_gc.append((f"ix.out_chunks {cks} {f_index(idx)}", p_gc[-1][1]))

    for n in range(1, NEX + 1):
        its = list(one_d_index_space(n, steps))
        # normalisation collapses many slices: keep one representative per normal form (+ all ints)
        seen = {}
        for it in its:
            try:
                key = repr(U.normalize_index((it,), (n,)))
            except REFUSALS:
                key = ("err", repr(it)) if isinstance(it, int) else "err-slice"
            seen.setdefault(key, it)
        for cks in gen.compositions(n):
            for it in seen.values():
                ssi_pairs((n,), (cks,), (it,))
    for n in range(1, 4):
        for cks in gen.compositions(n, zeros=True, maxparts=3):
            if 0 in cks:
                for it in one_d_index_space(n, (None, 2, -1, -2)):
                    if isinstance(it, slice) and (it.start not in (None, 0, 1, -1) or it.stop not in (None, 0, n, -1)):
                        continue
                    ssi_pairs((n,), (cks,), (it,))
    for _ in range(ctx.scale(1200, 20000)):
        shape = tuple(rng.randint(1, 7) for _ in range(rng.randint(1, 3)))
        chunks = tuple(gen.rand_chunks(rng, m, zeros=0.1, maxparts=4) for m in shape)
        spec = rand_basic_index(rng, shape, p_long=0.02)
        ssi_pairs(shape, chunks, build_index(spec, False))
    ctx.correspond("SliceSlicesIntegers.chunks", p_ch)
    ctx.correspond("SliceSlicesIntegers._layer", p_ly, branch_key=lambda req, m: (m.count(";") > 0, m.count("|"), "-1" in req))
    ctx.correspond("getitem.chunks", p_gc)

    # ---- .blocks
    p_bl = []
    for _ in range(ctx.scale(1500, 20000)):
        case = gen_blocks(rng)
        if rng.random() < 0.05:
            ax = rng.randrange(len(case["index"]) + 1)
            case["index"].insert(ax, ["l", [0]])
        shape, chunks = tuple(case["shape"]), tuple(tuple(c) for c in case["chunks"])
        idx = build_index(case["index"], False)
        d = da.from_array(np.zeros(shape, dtype=np.int8), chunks=chunks)

        def blocks_out():
            y = d.blocks[idx]
            e = y.expr
            maps = [np.arange(nb)[i] for nb, i in zip(e.array.numblocks, e.index)]
            layer = e._layer()
            for k, t in layer.items():  # the layer must be the grid of the maps
                tgt = t.target.key if hasattr(t.target, "key") else t.target
                assert tuple(int(m[q]) for m, q in zip(maps, k[1:])) == tuple(tgt[1:]), "Blocks._layer wiring"
            assert len(layer) == int(np.prod([len(m) for m in maps])), "Blocks._layer size"
            return "ok " + f_ll(e.chunks) + " " + f_ll(m.tolist() for m in maps)

        p_bl.append((f"ix.blocks {f_chunks(chunks)} {f_index(idx)}", impl_call(blocks_out, lambda r: r)))
    ctx.correspond("blocks", p_bl, branch_key=lambda req, m: (m[:8], req.count("|"), "L" in req, "..." in req))

    # ---- take helpers
    p_tk = []
    for _ in range(ctx.scale(1500, 20000)):
        n = rng.choice([1, 2, 3, 5, 8, 13])
        cks = gen.rand_chunks(rng, n, zeros=0.1, maxparts=5)
        v = [q % n for q in rand_int_list(rng, n, oob=0.0, maxlen=12)]
        if rng.random() < 0.3:  # runs, as produced by np.repeat-like patterns
            v = sorted(v) if rng.random() < 0.5 else [q for q in v for _ in range(rng.randint(1, 3))]
        if v:
            p_tk.append((f"ix.compute_indexer {f_list(v)} {f_list(cks)}",
                         impl_call(lambda: _compute_indexer(np.array(v), tuple(cks)), lambda r: "ok " + f_ll(r))))
            indexer = _compute_indexer(np.array(v), tuple(cks))
            d = da.from_array(np.zeros((n,), dtype=np.int8), chunks=(cks,))
            e = Shuffle(d.expr, indexer, 0, "getitem-")
            p_tk.append((f"ix.new_chunks {max(cks)} {f_ll(indexer)}", impl_call(lambda: e._new_chunks, lambda r: "ok " + f_ll(r))))
            p_tk.append((f"ix.take_chunks {f_list(v)} {f_list(cks)}", impl_call(lambda: d[np.array(v)].chunks[0], lambda r: "ok " + f_list(r))))
        # regrouping on arbitrary indexers / limits
        ind2 = [[rng.randint(0, 9) for _ in range(rng.choice([1, 1, 2, 3, 5, 9]))] for _ in range(rng.randint(1, 6))]
        lim = rng.randint(1, 6)
        d2 = da.from_array(np.zeros((10 + lim,), dtype=np.int8), chunks=((lim,) + (1,) * 10,))
        e2 = Shuffle(d2.expr, ind2, 0, "getitem-")
        p_tk.append((f"ix.new_chunks {lim} {f_ll(ind2)}", impl_call(lambda: e2._new_chunks, lambda r: "ok " + f_ll(r))))
    ctx.correspond("take:_compute_indexer/_new_chunks/chunks", p_tk, branch_key=lambda req, m: (req.split()[0], m.count(";") > 1))


# ----------------------------------------------------------------------------- targeted


def targeted(ctx):
    """Lift model/implementation disagreements to API level (same shape/chunks/index and
    neighbours) against NumPy."""
    from harness.core import p_slice

    def p_index(tok):
        if tok == "()":
            return []
        out = []
        for t in tok.split("|"):
            if t == "None":
                out.append(["n"])
            elif t == "...":
                out.append(["e"])
            elif t.startswith("L"):
                out.append(["l", [] if t == "L_" else [int(q) for q in t[1:].split(",")]])
            elif ":" in t:
                s = p_slice(t)
                out.append(["s", s.start, s.stop, s.step])
            else:
                out.append(["i", int(t)])
        return out

    def p_ll(tok):
        return [] if tok == "-" else [[] if t == "_" else [int(q) for q in t.split(",")] for t in tok.split(";")]

    tried = 0
    for dis in ctx.disagreements[:60]:
        toks = dis["request"].split()
        cases = []
        try:
            if toks[0] in ("ix.normalize", "ix.npflat", "ix.np", "ix.replace_ellipsis"):
                shape = [] if toks[1] == "_" else [int(q) for q in toks[1].split(",")] if toks[0] != "ix.replace_ellipsis" else [2] * int(toks[1])
                spec = p_index(toks[2])
                if dis["family"] == "normalize_index:typed-elements" and dis["request"] in ctx.extra.get("_typed_norm", {}):
                    spec = ctx.extra["_typed_norm"][dis["request"]]
                    big = [n > 64 for n in shape]
                    cks = [c12_sizes.large_chunks(ctx.rng, n, "edge") if b else [n] for n, b in zip(shape, big)]
                    cases.append({"fam": "targeted-typed", "shape": shape, "chunks": cks, "acc": "getitem", "index": spec})
                    # the element may only matter once a later index is fused into it: x[spec][0 on every axis] and x[1:][spec]
                    try:
                        w = np.empty(shape, dtype=np.int8)[build_index(spec, False)]
                        if w.ndim and 0 not in w.shape:
                            cases.append({"fam": "targeted-typed", "shape": shape, "chunks": cks, "acc": "getitem", "index": spec,
                                          "post": [["getitem", [["s", None, None, None]] * 0 + [["i", m - 1] for m in w.shape]]], "hist": {}})
                        cases.append({"fam": "targeted-typed", "shape": [n + 1 for n in shape], "chunks": [c[:-1] + [c[-1] + 1] for c in cks], "acc": "getitem",
                                      "index": [["s", 1, None, None] for _ in shape], "post": [["getitem", spec]], "hist": {}})
                        cases.append({"fam": "targeted-typed", "shape": [2 * n for n in shape], "chunks": [c + c for c in cks], "acc": "getitem",
                                      "index": [["s", None, None, 2] for _ in shape], "post": [["getitem", spec]], "hist": {}})
                    except Exception:
                        pass
                for chunks in () if cases else ([[n] for n in shape], [[1] * n if n else [0] for n in shape], [list(gen.rand_chunks(ctx.rng, n, maxparts=3)) for n in shape]):
                    cases.append({"fam": "targeted", "shape": shape, "chunks": chunks, "acc": "getitem", "index": spec,
                                  "must": not any(s[0] == "l" for s in spec) or sum(s[0] == "l" for s in spec) == 1})
            elif toks[0] in ("ix.ssi_chunks", "ix.ssi_layer", "ix.getitem_chunks", "ix.out_chunks"):
                chunks = p_ll(toks[1])
                cases.append({"fam": "targeted", "shape": [sum(c) for c in chunks], "chunks": chunks, "acc": "getitem", "index": p_index(toks[2])})
            elif toks[0] == "ix.blocks":
                chunks = p_ll(toks[1])
                cases.append({"fam": "targeted", "shape": [sum(c) for c in chunks], "chunks": chunks, "acc": "blocks", "index": p_index(toks[2])})
            elif toks[0] in ("ix.compute_indexer", "ix.take_chunks"):
                v = [] if toks[1] == "_" else [int(q) for q in toks[1].split(",")]
                cks = [int(q) for q in toks[2].split(",")]
                cases.append({"fam": "targeted", "shape": [sum(cks)], "chunks": [cks], "acc": "getitem", "index": [["l", v]]})
                cases.append({"fam": "targeted", "shape": [sum(cks), 3], "chunks": [cks, [2, 1]], "acc": "getitem", "index": [["l", v], ["s", None, None, -1]]})
            elif toks[0] == "ix.new_chunks":
                lim = int(toks[1])
                ind = p_ll(toks[2])
                flat = [q for g in ind for q in g]
                n = max(flat + [lim]) + 1
                cks = [lim] + [1] * (n - lim) if n > lim else [lim]
                cases.append({"fam": "targeted", "shape": [sum(cks)], "chunks": [cks], "acc": "getitem", "index": [["l", flat]]})
        except Exception as e:  # unparsable request: report, never hide
            ctx.fail("targeted:unparsable", {"request": dis["request"], "error": repr(e)}, "cannot lift a disagreement to API level")
            continue
        for case in cases:
            if avoid(case):
                continue
            tried += 1
            probs = run_case(case)
            ctx.count(("targeted", toks[0]))
            if probs:
                report(ctx, case, probs)
    ctx.notes["targeted_search"] = f"{tried} API-level replays of disagreeing model inputs (x[idx]/.blocks vs NumPy, both optimize settings)"


# ---------------------------------------------------------------------------------- run


def run(ctx, replay=None):
    warnings.simplefilter("ignore")
    ctx.rule = (
        "correspondence: exhaustive 1-D domain (see exhaustive_domain) + seeded random n-D tuples (rank ≤ 4); distinct by "
        "(family, model-output prefix, #items, Ellipsis/None/list present). search: seeded random cases from 13 generator "
        "families (basic, list, two-lists, numpy bool, dask bool, one dask int indexer (0-d/1-d, several integer dtypes, from_array or the "
        "result of an op) with ints / slices of every step / an int list / Ellipsis / None / short indices on mostly multi-chunk arrays "
        "(zero-length chunks on one axis), several dask ints (0-d/1-d) mixed with ints and slices of every step "
        "on single- and multi-chunk 3-D/4-D arrays, consumers of x[dask int] (slices, ints, lists, None, reductions, elementwise ops, "
        "transposition, re-computation), vindex, blocks, unknown-chunks ± compute_chunk_sizes, exotic types, list take followed by slices/"
        "reductions/elemwise ops and re-computation of the original collection under small array.chunk-size; "
        "SIZE classes and ELEMENT TYPES (props_ext/c12_sizes): a stratified sweep in every run over (basic, chained basic, list/array, NumPy/dask "
        "mask, vindex with every subset of point-wise axes, blocks, dask int, unknown-chunks) x rank x which axis is LARGE (257…70000; "
        ">256 blocks for .blocks) x chunk class (one chunk, <256, =256, >256, >65536, edges at 255/256/257/65535/65536/65537) with integers, "
        "slice bounds/steps, list entries and array dtypes of python int / np.int8…np.uint64 / np.intp / bool, values near the type limits, "
        "chunk edges and in-block offsets >= 256, plus the same generators and re-typed small cases in the random stream) on from_array(arange(prod(shape)).reshape(shape), random chunks incl. zero-length), each evaluated "
        "optimized and with array.optimize-graph=False against NumPy / brute force; distinct by (family, item kinds, negative "
        "step, rank, short index, multi-chunk, chunk sizes computed)"
    )
    ctx.assumptions = [
        "integer data (arange), so equality is exact; dtype int64 only",
        "small stream: shapes ≤ 6 per axis, rank ≤ 3 (search) / ≤ 4 (normalize_index correspondence), zero-length axes and chunks included; "
        "size stream: one or two axes of 257…70000 elements (≤ 140000 elements per array), the others ≤ 6",
        "full-rank dask boolean mask on arrays with unknown shape: compared as multisets (the code documents block-major order)",
        "an index NumPy accepts but dask documents as unsupported (two list axes, two boolean masks) may raise "
        "IndexError/ValueError/TypeError/NotImplementedError; it may not return different data",
        "error CLASS: the model's normalize_index is compared with the implementation's exactly; against NumPy only "
        "refusal-vs-success is required (dask raises TypeError for a second Ellipsis, IndexError before ValueError for step 0)",
    ]
    if replay is not None and isinstance(replay.get("case"), dict) and replay["case"].get("shf"):  # harness/props_ext/c12_shuffle.py
        from harness.props_ext import c12_shuffle
        return c12_shuffle.run(ctx, replay_case=replay["case"])
    if replay is not None and isinstance(replay.get("case"), dict) and replay["case"].get("vix"):  # harness/props_ext/c12_vindex.py
        from harness.props_ext import c12_vindex
        return c12_vindex.run(ctx, replay_case=replay["case"])
    if replay is not None and isinstance(replay, dict) and isinstance(replay.get("case"), dict) and "case" in replay["case"]:
        case = replay["case"]["case"]
        if isinstance(case, dict):
            probs = run_case(case)
            ctx.count(("replay",))
            ctx.sample({"replay": case, "problems": [p[0] for p in probs]})
            for sig, _, _, probes in FIXED_CLASSES:   # a regression probe keeps its class signature
                if case in probes:
                    probs = [(sig, k, d) for _, k, d in probs]
            report(ctx, case, probs, do_shrink=False)
            return
        probe_broadcast(ctx)
        return
    import time

    t0 = time.time()
    correspondence(ctx)
    t1 = time.time()
    search(ctx, ctx.scale(5200, 105000))
    ctx.notes["wall_correspondence_s"] = round(t1 - t0, 1)
    ctx.notes["wall_search_s"] = round(time.time() - t1, 1)
    from harness.props_ext import c12_shuffle  # take / shuffle / vindex layers (Props/C12Shuffle.lean; shf.*)
    t2 = time.time()
    c12_shuffle.run(ctx)
    ctx.notes["wall_shuffle_s"] = round(time.time() - t2, 1)
    from harness.props_ext import c12_vindex  # vindex on every subset of axes (rank 1-5) / indexer memory layouts / 0-d indexers
    t3 = time.time()
    c12_vindex.run(ctx)
    ctx.notes["wall_vindex_layout_s"] = round(time.time() - t3, 1)
    if ctx.disagreements:
        targeted(ctx)
    ctx.extra.pop("_shrunk", None)
    ctx.extra.pop("_typed_norm", None)
