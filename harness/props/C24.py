"""C24 — source reads return exactly the requested elements.

Correspondence: Lean model (Model/SourceIO.lean) vs the real `FromArray._accept_slice`,
`FromArray._layer` (slices of the getter tasks / positions of the eager NumPy views),
`FromArray._accept_rechunk`, `slices_from_chunks`, `_compute_sliced_chunks`.
Search (independent of the model): programs `from_array(src, chunks)` + chains of slices /
ints / stepped slices / rechunks / transposes / elemwise over plain NumPy sources and over
recording sources (storage grid, lock, custom getitem, asarray/fancy flags); oracle =
NumPy indexing of the wrapped array + an explicit bounds check of every logged read request.
Locked stores: every (store mode eager/lazy-window/matrix) x (lock kind True / SerializableLock /
threading.Lock / RLock / user object) x (getitem default / getter* / custom 4-arg / custom 2-arg) x
asarray x (sync / threaded scheduler) over a shared-cursor backend; deterministic oracle: every
non-empty backend read happens while the lock given to from_array is held, nothing overlaps, the
lock is free afterwards; plus direct calls of getter / getter_nofancy / getter_inline.
Rebuilt reads (props_ext/c24_rebuild.py): sources that store ENCODED samples read through a decoding `getitem=`; every rewrite
that rebuilds the source node must still read through the same getitem / lock / asarray / fancy / inline_array / meta
(signatures from_array-rebuild:values[:read-without-getitem], :getter-handed-other-lock/-asarray, :option-not-carried:<opt>, …).
The random program search also draws decoding getters (d4 / d2).
Same-named sources (props_ext/c24_named.py): 2-3 DIFFERENT sources wrapped with one user-supplied `name=`, one slice / slice-rechunk
chain pushed into each read, every history of build / optimize / compute / drop with the earlier collections still alive; each read
must return its own source's elements (signatures from_array-named:values[:elements-of-another-source], …).
"""
from __future__ import annotations

import contextlib
import itertools
import threading
from numbers import Integral
from types import SimpleNamespace

import numpy as np

from harness import gen
from harness.core import err_name, f_list, f_ll, f_slice, p_slice

# --------------------------------------------------------------------------- sources

_UID = itertools.count()


def key_problem(key, shape):
    """None if the read request `key` stays inside an array of `shape`; else a description.
    NumPy would silently clamp out-of-range slice bounds, so they are checked explicitly."""
    if not isinstance(key, tuple):
        key = (key,)
    ax = 0
    for k in key:
        if k is None:
            continue
        if k is Ellipsis:
            return "ellipsis in read request"
        if ax >= len(shape):
            return f"too many indices ({key!r}) for shape {shape}"
        n = shape[ax]
        if isinstance(k, slice):
            step = 1 if k.step is None else k.step
            for name, v in (("start", k.start), ("stop", k.stop)):
                if v is None:
                    continue
                if not isinstance(v, Integral):
                    return f"non-integer slice {name} {v!r}"
                if step > 0 and not (0 <= v <= n):
                    return f"axis {ax}: slice {name} {v} outside [0, {n}]"
                if step < 0 and not (0 <= v <= n):
                    return f"axis {ax}: slice {name} {v} outside [0, {n}] (negative step)"
        elif isinstance(k, Integral):
            if not (0 <= k < n):
                return f"axis {ax}: integer {k} outside [0, {n})"
        else:
            a = np.asarray(k)
            if a.dtype == bool:
                if a.shape != (n,):
                    return f"axis {ax}: boolean mask of shape {a.shape} for length {n}"
            elif a.size and (a.min() < 0 or a.max() >= n):
                return f"axis {ax}: fancy index outside [0, {n})"
        ax += 1
    return None


class RecSource:
    """Array-like wrapping a NumPy array; logs every `__getitem__` key and checks it against
    the bounds.  Optional storage grid (`.chunks` / `.shards`)."""

    def __init__(self, a, grid=None, shards=None):
        self.a = a
        self.shape = a.shape
        self.dtype = a.dtype
        self.ndim = a.ndim
        self.log = []
        self.bad = []
        if grid is not None:
            self.chunks = grid
        if shards is not None:
            self.shards = shards
        self._uid = next(_UID)

    def __dask_tokenize__(self):
        # equal-content sources must not be merged into one expression (the log lives here)
        return ("verif-recsource", self._uid)

    def __getitem__(self, key):
        self.log.append(key)
        p = key_problem(key, self.shape)
        if p is not None:
            self.bad.append((repr(key), p))
        return self.a[key]


_GETLOG = []


def g2(a, b):
    """custom getitem without asarray/lock keywords"""
    _GETLOG.append(b)
    return np.asarray(a[b])


def g4(a, b, asarray=True, lock=None):
    """custom getitem with the full getter signature"""
    _GETLOG.append(b)
    if lock:
        lock.acquire()
    try:
        return np.asarray(a[b])
    finally:
        if lock:
            lock.release()


@contextlib.contextmanager
def np_limit(value):
    """emulate sources larger than _NUMPY_SLICE_PUSHDOWN_NBYTES_LIMIT (64 MiB) with small arrays"""
    import dask_array.io._from_array as FA

    if value is None:
        yield
        return
    old = FA._NUMPY_SLICE_PUSHDOWN_NBYTES_LIMIT
    FA._NUMPY_SLICE_PUSHDOWN_NBYTES_LIMIT = value
    try:
        yield
    finally:
        FA._NUMPY_SLICE_PUSHDOWN_NBYTES_LIMIT = old


# --------------------------------------------------------------------------- tokens

def f_regions(region):
    if region is None:
        return "N"
    if len(region) == 0:
        return "_"
    return "|".join(f_slice(s) for s in region)


def f_index(idx):
    toks = []
    for i in idx:
        if i is None:
            toks.append("nx")
        elif isinstance(i, slice):
            toks.append(f_slice(i))
        elif isinstance(i, Integral):
            toks.append(str(int(i)))
        else:
            toks.append("F")
    return "|".join(toks) if toks else "_"


def enc_index(idx):
    out = []
    for i in idx:
        if i is None:
            out.append("None")
        elif isinstance(i, slice):
            out.append(["s", i.start, i.stop, i.step])
        elif isinstance(i, Integral):
            out.append(int(i))
        else:
            out.append(["l", [int(v) for v in i]])
    return out


def dec_index(enc):
    out = []
    for i in enc:
        if i == "None":
            out.append(None)
        elif isinstance(i, list) and i[0] == "s":
            out.append(slice(i[1], i[2], i[3]))
        elif isinstance(i, list) and i[0] == "l":
            out.append(list(i[1]))
        else:
            out.append(int(i))
    return tuple(out)


# --------------------------------------------------------------------------- generators

def rand_unit_slice(rng, n):
    def v():
        r = rng.random()
        if r < 0.25:
            return None
        if r < 0.93:
            return rng.randint(-n - 1, n + 1)
        return rng.choice([-3 * n - 2, 3 * n + 2])

    return slice(v(), v(), rng.choice([None, None, 1]))


def rand_index(rng, shape, unit_only=False, allow_none=True, allow_fancy=True):
    """a NumPy-valid basic index (plus rarely one integer list) for `shape`"""
    nd = len(shape)
    fancy_axis = None
    if allow_fancy and not unit_only and nd and rng.random() < 0.04:
        cand = [k for k in range(nd) if shape[k] > 0]
        if cand:
            fancy_axis = rng.choice(cand)
    idx = []
    for k, n in enumerate(shape):
        if k == fancy_axis:
            idx.append([rng.randint(-n, n - 1) for _ in range(rng.randint(1, 4))])
            continue
        r = rng.random()
        if r < 0.22:
            idx.append(slice(None))
        elif r < 0.62 or (unit_only and r >= 0.78):
            idx.append(rand_unit_slice(rng, n))
        elif r < 0.78 and n > 0 and fancy_axis is None:
            idx.append(rng.randint(-n, n - 1))
        elif r < 0.78:
            idx.append(rand_unit_slice(rng, n))
        elif r < 0.90:
            s = gen.rand_slice(rng, n, steps=(2, 3, 5))
            idx.append(s)
        else:
            idx.append(gen.rand_slice(rng, n, steps=(-1, -1, -2, -3)))
    if rng.random() < 0.15 and idx:
        idx = idx[: rng.randint(0, len(idx))] if fancy_axis is None else idx
    if allow_none and not unit_only and fancy_axis is None and rng.random() < 0.06:
        idx.insert(rng.randint(0, len(idx)), None)
    return tuple(idx)


def rand_grid(rng, shape):
    return tuple(rng.choice([1, 2, 3, 4, max(1, n), max(1, n // 2)]) for n in shape)


def rand_shape(rng, maxrank=3, maxdim=9):
    r = rng.choice([1, 1, 2, 2, 3][: maxrank + 2])
    return tuple(0 if rng.random() < 0.05 else rng.randint(1, maxdim) for _ in range(r))


def nd_chunks(rng, shape, zeros=0.0):
    return tuple(gen.rand_chunks(rng, n, zeros=zeros, maxparts=5) for n in shape)


def aligned_target(rng, start, length, storage):
    """chunks of `length` whose boundaries (offset by `start`) sit on storage multiples"""
    if length == 0:
        return (0,)
    bounds = [b - start for b in range(((start + storage - 1) // storage) * storage, start + length, storage) if b > start]
    keep = [b for b in bounds if rng.random() < 0.6]
    pts = [0] + keep + [length]
    return tuple(b - a for a, b in zip(pts, pts[1:]))


# --------------------------------------------------------------------------- layer decoding

def layer_axis_slices(fa):
    """Per axis: list over block numbers of (start, stop) or None (not observable), derived
    from the REAL `_layer()`.  Raises ValueError('NotProduct') if the per-block slices are
    not the cartesian product of per-axis slices."""
    dsk = fa._layer()
    nb = tuple(len(c) for c in fa.chunks)
    nd = len(nb)
    per = [[set() for _ in range(nb[k])] for k in range(nd)]
    seen = 0
    for key, v in dsk.items():
        if not (isinstance(key, tuple) and len(key) == nd + 1 and key[0] == fa._name):
            continue
        seen += 1
        bid = key[1:]
        if isinstance(v, np.ndarray):
            if v.size == 0:
                continue
            first = v[(0,) * v.ndim]
            pos = np.argwhere(np.asarray(fa.array) == first)
            if len(pos) != 1:
                raise ValueError("AmbiguousValue")
            start = tuple(int(p) for p in pos[0])
            stop = tuple(s + l for s, l in zip(start, v.shape))
            want = np.asarray(fa.array)[tuple(slice(a, b) for a, b in zip(start, stop))]
            if want.shape != v.shape or not np.array_equal(want, v):
                raise ValueError("NotASlice")
            for k in range(nd):
                per[k][bid[k]].add((start[k], stop[k]))
        elif isinstance(v, tuple) and len(v) >= 3 and isinstance(v[2], tuple):
            slc = v[2]
            for k in range(nd):
                s = slc[k]
                if s.step not in (None, 1):
                    raise ValueError("SteppedRead")
                per[k][bid[k]].add((s.start, s.stop))
        else:
            raise ValueError("UnknownTask")
    if seen != int(np.prod(nb)):
        raise ValueError("MissingBlocks")
    out = []
    for k in range(nd):
        row = []
        for s in per[k]:
            if len(s) > 1:
                raise ValueError("NotProduct")
            row.append(next(iter(s)) if s else None)
        out.append(row)
    return out


def layer_pairs(fa):
    """correspondence requests for the layer of one real FromArray (one per axis)"""
    dims = fa.array.shape
    region = fa.operand("_region")
    try:
        per = layer_axis_slices(fa)
    except Exception as e:  # noqa: BLE001
        per = None
        err = "err " + (str(e) if isinstance(e, ValueError) and " " not in str(e) else type(e).__name__)
    pairs = []
    for k in range(len(dims)):
        r = "N" if region is None else f_slice(region[k])
        if per is None:
            pairs.append((f"io.layer {dims[k]} {r} {f_list(fa.chunks[k])}", err))
            continue
        mask = "".join("1" if p is not None else "0" for p in per[k])
        impl = "ok " + (";".join("?" if p is None else f"{p[0]}:{p[1]}" for p in per[k]) if per[k] else "_")
        pairs.append((f"io.layer {dims[k]} {r} {f_list(fa.chunks[k])} {mask}", impl))
    return pairs


# --------------------------------------------------------------------------- correspondence

def canon_accept(res, fa):
    from dask_array.io._from_array import FromArray

    if res is None:
        return "decline", None
    nd = fa.array.ndim
    if isinstance(res, FromArray):
        new, bits = res, "0" * nd
    else:
        new = res.array
        if not isinstance(new, FromArray):
            return "err UnexpectedResult", None
        bits = "".join("1" if isinstance(i, Integral) else "0" for i in res.index)
        for i in res.index:
            if isinstance(i, Integral) and i != 0:
                return "err ExtractNotZero", None
            if isinstance(i, slice) and i != slice(None):
                return "err ExtractNotFull", None
    rebased = "0" if new.array is fa.array else "1"
    out = (
        f"ok R={f_regions(new.operand('_region'))} C={f_ll(new.chunks)} D={f_list(new.array.shape)} "
        f"rebased={rebased} X={bits or '_'}"
    )
    return out, new


def storage_token(fa):
    from dask_array.io._from_array import _source_storage_chunks

    raw = _source_storage_chunks(fa.array)
    if raw is None:
        return "N"
    try:
        return f_list(tuple(int(c) for c in raw))
    except (TypeError, ValueError):
        return "N"


def rechunk_pair(rng, fa):
    from dask_array._rechunk import Rechunk
    from dask_array.io._from_array import FromArray

    dims = fa.array.shape
    region = fa.operand("_region")
    eff = fa._effective_shape
    st = storage_token(fa)
    stl = None if st == "N" else [int(t) for t in st.split(",")]
    target = []
    for k, n in enumerate(eff):
        r = rng.random()
        if stl is not None and len(stl) == len(eff) and stl[k] > 0 and r < 0.45:
            start = 0 if region is None else region[k].indices(dims[k])[0]
            target.append(aligned_target(rng, start, n, stl[k]))
        elif stl is not None and len(stl) == len(eff) and stl[k] > 0 and r < 0.62 and n > 0:
            # storage-multiple chunk sizes regardless of where the region starts
            out, left = [], n
            while left > 0:
                c = min(left, stl[k] * rng.randint(1, 2))
                out.append(c)
                left -= c
            target.append(tuple(out))
        elif r < 0.72:
            target.append(tuple(fa.chunks[k]))
        else:
            target.append(gen.rand_chunks(rng, n, zeros=0.1, maxparts=5))
    target = tuple(target)
    req = f"io.accept_rechunk {f_list(dims)} {f_regions(region)} {f_ll(fa.chunks)} {st} {f_ll(target)}"
    try:
        res = fa._accept_rechunk(target)
    except Exception as e:  # noqa: BLE001
        return req, err_name(e)
    if res is None:
        return req, "none"
    if isinstance(res, FromArray):
        return req, ("ok direct" if res.chunks == target and res.operand("_region") == region else "err DirectMismatch")
    if isinstance(res, Rechunk) and isinstance(res.array, FromArray):
        try:
            if res.chunks != target or res.array.operand("_region") != region:
                return req, "err RechunkMismatch"
            out = [(req, "ok read " + f_ll(res.array.chunks))]
            # asking the storage-aligned node again for the same target must decline (read == self.chunks)
            inner = res.array
            req2 = f"io.accept_rechunk {f_list(dims)} {f_regions(region)} {f_ll(inner.chunks)} {st} {f_ll(target)}"
            r2 = inner._accept_rechunk(target)
            out.append((req2, "none" if r2 is None else ("ok direct" if isinstance(r2, FromArray) else "ok read " + f_ll(r2.array.chunks))))
            return out
        except Exception as e:  # noqa: BLE001
            return req, err_name(e)
    return req, "err UnexpectedResult"


def make_source(rng, shape, kind):
    arr = np.arange(int(np.prod(shape)), dtype=np.int64).reshape(shape)
    if kind == "numpy":
        return arr, arr
    if kind == "rec":
        return RecSource(arr), arr
    grid = rand_grid(rng, shape)
    if rng.random() < 0.15:
        return RecSource(arr, grid=tuple(1 for _ in shape), shards=grid), arr
    return RecSource(arr, grid=grid), arr


class _Batched:
    """answers driver requests from one batched run (one driver start-up instead of one per family)"""

    def __init__(self, real, lines):
        lines = list(dict.fromkeys(lines))
        self.map = dict(zip(lines, real.run(lines)))

    def run(self, lines):
        return [self.map[l] for l in lines]


def correspond_all(ctx, families):
    real = ctx.driver
    ctx._driver = _Batched(real, [r for _, pairs, _ in families for r, _ in pairs])
    try:
        for fam, pairs, bk in families:
            ctx.correspond(fam, pairs, branch_key=bk)
    finally:
        ctx._driver = real


def correspondence(ctx):
    import dask_array as da
    import dask_array.io._from_array as FA
    from dask_array._core_utils import slices_from_chunks
    from dask_array.slicing import _basic as B
    from dask_array.slicing._utils import normalize_index

    rng = ctx.rng
    # slices_from_chunks / _compute_sliced_chunks
    pairs = []
    for _ in range(ctx.scale(400, 4000)):
        n = rng.choice([0, 1, 2, 5, 9, 17, 100])
        cks = gen.rand_chunks(rng, n, zeros=0.25, maxparts=8)
        sl = slices_from_chunks((cks,))
        pairs.append((f"io.slices_from_chunks {f_list(cks)}", "ok " + ";".join(f"{s[0].start}:{s[0].stop}" for s in sl)))
    fams = [("slices_from_chunks", pairs, None)]
    pairs = []
    for _ in range(ctx.scale(1500, 15000)):
        n = rng.choice([0, 1, 2, 5, 9, 17, 100])
        cks = gen.rand_chunks(rng, n, zeros=0.25, maxparts=8)
        s = rand_unit_slice(rng, n) if rng.random() < 0.8 else gen.rand_slice(rng, n)
        try:
            impl = "ok " + f_list(B._compute_sliced_chunks(tuple(cks), s, n))
        except Exception as e:  # noqa: BLE001
            impl = err_name(e)
        pairs.append((f"sl.sliced_chunks {f_list(cks)} {f_slice(s)} {n}", impl))
    fams.append(("_compute_sliced_chunks", pairs, None))

    # _accept_slice / _layer / _accept_rechunk along chains of real FromArray nodes
    acc, lay, rech = [], [], []
    default_limit = FA._NUMPY_SLICE_PUSHDOWN_NBYTES_LIMIT
    for _ in range(ctx.scale(350, 4000)):
        shape = rand_shape(rng, maxdim=12)
        kind = rng.choice(["numpy", "rec", "grid", "grid"])
        src, arr = make_source(rng, shape, kind)
        limit = rng.choice([default_limit, 0, 64, 400]) if kind == "numpy" else default_limit
        kw = {}
        if kind != "numpy" and rng.random() < 0.3:
            kw["lock"] = True
        if rng.random() < 0.2:
            kw["inline_array"] = True
        x = da.from_array(src, chunks=nd_chunks(rng, shape), **kw)
        fa = x.expr
        if not isinstance(fa, FA.FromArray):
            continue
        with np_limit(limit):
            for step in range(rng.randint(1, 4)):
                try:
                    fa.chunks  # noqa: B018
                except Exception:  # noqa: BLE001
                    break  # inconsistent node: already recorded as `err` by the accept that produced it
                lay.extend(layer_pairs(fa))
                reg = fa.operand("_region")
                ordered = reg is None or all(r.indices(d)[0] <= r.indices(d)[1] for r, d in zip(reg, fa.array.shape))
                # a reversed unit-step region (start > stop) only arises from un-normalized helper input
                # (Props/C24.lean `C24_region_ordered`); there _accept_rechunk yields a negative read chunk
                # that normalize_chunks then refuses - outside the precondition, not compared
                if ordered and rng.random() < 0.7:
                    rp = rechunk_pair(rng, fa)
                    rech.extend(rp if isinstance(rp, list) else [rp])
                cur = fa._effective_shape
                raw = rand_index(rng, cur)
                if rng.random() < 0.8:
                    try:
                        idx = normalize_index(raw, cur)
                    except Exception:  # noqa: BLE001
                        continue
                    idx = tuple(list(i) if isinstance(i, np.ndarray) else i for i in idx)
                else:
                    idx = raw
                if sum(i is not None for i in idx) > len(cur):
                    continue
                req = (
                    f"io.accept_slice {f_list(fa.array.shape)} {f_regions(fa.operand('_region'))} {f_ll(fa.chunks)} "
                    f"{f_index(idx)} {1 if kind == 'numpy' else 0} {fa.array.dtype.itemsize} {limit}"
                )
                try:
                    res = fa._accept_slice(SimpleNamespace(index=idx))
                    impl, new = canon_accept(res, fa)
                except Exception as e:  # noqa: BLE001
                    impl, new = err_name(e), None
                acc.append((req, impl))
                if new is None:
                    break
                fa = new
            else:
                try:
                    lay.extend(layer_pairs(fa))
                except Exception:  # noqa: BLE001
                    pass
    fams.append(("FromArray._accept_slice", acc, lambda req, m: (m.split(" ")[0], m[-12:], req.count("|"))))
    fams.append(("FromArray._layer", lay, lambda req, m: (req.split(" ")[2] == "N", m.count(";"), "?" in m)))
    fams.append(("FromArray._accept_rechunk", rech,
                 lambda req, m: (tuple(m.split(" ")[:2]), req.split(" ")[2] == "N", req.split(" ")[4] == "N")))

    # 1-d chains on a recording source: final region / chunks / emitted slices (real code) and
    # the positions NumPy selects
    pairs = []
    for _ in range(ctx.scale(500, 6000)):
        n = rng.choice([0, 1, 2, 3, 5, 8, 13, 30])
        cks = gen.rand_chunks(rng, n, maxparts=6)
        src = RecSource(np.arange(n, dtype=np.int64))
        fa = da.from_array(src, chunks=(cks,)).expr
        ref = np.arange(n)
        chain = []
        ok = True
        crashed = None
        for _ in range(rng.randint(1, ctx.scale(4, 8))):
            m = len(ref)
            r = rng.random()
            if r < 0.75 or m == 0:
                i = rand_unit_slice(rng, m)
                ref2 = ref[i]
            elif r < 0.93:
                i = rng.randint(0, m - 1)
                ref2 = ref[i:i + 1]
            else:
                i = gen.rand_slice(rng, m, steps=(2, -1, -2))
                ref2 = ref[i]
            chain.append(i)
            if not ok or crashed:
                continue
            try:
                res = fa._accept_slice(SimpleNamespace(index=(i,)))
                if res is not None:
                    nxt = res if isinstance(res, FA.FromArray) else res.array
                    nxt.chunks  # noqa: B018  (materialise: may raise on inconsistent chunks)
            except Exception as e:  # noqa: BLE001
                crashed = err_name(e)
                continue
            if res is None:
                ok = False
                continue
            fa = nxt
            ref = ref2
        req = f"io.accept_chain {n} {f_list(cks)} {f_index(tuple(chain))}"
        if crashed:
            pairs.append((req, crashed))
            continue
        if not ok:
            pairs.append((req, "decline"))
            continue
        try:
            per = layer_axis_slices(fa)[0]
            s_tok = ";".join(f"{a}:{b}" for a, b in per) if per else "_"
        except Exception as e:  # noqa: BLE001
            s_tok = "err-" + str(e)[:40].replace(" ", "_")
        pairs.append((req, f"ok R={f_regions(fa.operand('_region'))} C={f_list(fa.chunks[0])} S={s_tok} P={f_list(ref)}"))
    fams.append(("accept-chain(1-d):region/chunks/slices/NumPy positions", pairs,
                 lambda req, m: (m[:7], req.count("|"), m.count(";"))))
    correspond_all(ctx, fams)


# --------------------------------------------------------------------------- programs (search)

KW_LOCKS = ("none", "none", "true", "obj")
KW_GET = ("none", "none", "none", "g2", "g4", "d4", "d2")
DEC_OFFSET = 1000


def d4(a, b, asarray=True, lock=None):
    """custom getitem that DECODES the stored samples (offset + sign flip), full getter signature"""
    _GETLOG.append(b)
    if lock:
        lock.acquire()
    try:
        return DEC_OFFSET - np.asarray(a[b])
    finally:
        if lock:
            lock.release()


def d2(a, b):
    """decoding getitem(a, index)"""
    _GETLOG.append(b)
    return DEC_OFFSET - np.asarray(a[b])


def gen_case(ctx, maxchain):
    rng = ctx.rng
    shape = rand_shape(rng)
    kind = rng.choice(["numpy", "numpy", "rec", "grid", "grid"])
    case = {
        "shape": list(shape),
        "src": kind,
        "grid": None,
        "shards": False,
        "chunks": [list(c) for c in nd_chunks(rng, shape)],
        "lock": "none" if kind == "numpy" and rng.random() < 0.7 else rng.choice(KW_LOCKS),
        "getitem": "none" if kind == "numpy" else rng.choice(KW_GET),
        "asarray": rng.choice([None, None, True, False]),
        "fancy": rng.random() < 0.8,
        "inline_array": rng.random() < 0.2,
        "np_limit": rng.choice([None, None, 0, 64]) if kind == "numpy" else None,
        "optimize": rng.random() < 0.75,
        "steps": [],
    }
    if rng.random() < 0.1:
        case["chunks"] = rng.choice([-1, 2, 3])
    if kind == "grid":
        case["grid"] = list(rand_grid(rng, shape))
        case["shards"] = rng.random() < 0.15
    ref = np.zeros(shape, dtype=np.int8)
    for _ in range(rng.randint(1, maxchain)):
        if ref.ndim == 0:
            break
        r = rng.random()
        if r < 0.62:
            idx = rand_index(rng, ref.shape, unit_only=rng.random() < 0.5)
            try:
                ref2 = ref[tuple(np.asarray(i) if isinstance(i, list) else i for i in idx)]
            except IndexError:
                continue
            case["steps"].append({"op": "index", "idx": enc_index(idx)})
            ref = ref2
        elif r < 0.82:
            case["steps"].append({"op": "rechunk", "chunks": [list(c) for c in nd_chunks(rng, ref.shape, zeros=0.05)]})
        elif r < 0.91 and ref.ndim > 1:
            axes = list(range(ref.ndim))
            rng.shuffle(axes)
            case["steps"].append({"op": "transpose", "axes": axes})
            ref = ref.transpose(axes)
        else:
            case["steps"].append({"op": "add", "k": rng.randint(1, 9)})
    return case


def run_case(case):
    """Evaluate one program on the real code.  Returns (signature or None, details)."""
    import dask
    import dask_array as da

    shape = tuple(case["shape"])
    arr = (np.arange(int(np.prod(shape)), dtype=np.int64) * 3 + 7).reshape(shape)
    if case["src"] == "numpy":
        src = arr.copy()
    else:
        grid = tuple(case["grid"]) if case.get("grid") else None
        stored = DEC_OFFSET - arr if case["getitem"] in ("d4", "d2") else arr  # decoded on read by d4 / d2
        if grid is not None and case.get("shards"):
            src = RecSource(stored, grid=tuple(1 for _ in shape), shards=grid)
        else:
            src = RecSource(stored, grid=grid)
    kw = {}
    if case["lock"] == "true":
        kw["lock"] = True
    elif case["lock"] == "obj":
        kw["lock"] = threading.Lock()
    if case["getitem"] == "g2":
        kw["getitem"] = g2
    elif case["getitem"] == "g4":
        kw["getitem"] = g4
    elif case["getitem"] in ("d4", "d2") and case["src"] != "numpy":
        kw["getitem"] = d4 if case["getitem"] == "d4" else d2
    if case["asarray"] is not None:
        kw["asarray"] = case["asarray"]
    if not case["fancy"]:
        kw["fancy"] = False
    if case["inline_array"]:
        kw["inline_array"] = True
    chunks = case["chunks"]
    chunks = tuple(tuple(c) for c in chunks) if isinstance(chunks, list) else chunks
    ref = arr
    with np_limit(case.get("np_limit")), dask.config.set({"array.optimize-graph": bool(case["optimize"])}):
        try:
            y = da.from_array(src, chunks=chunks, **kw)
            for st in case["steps"]:
                if st["op"] == "index":
                    idx = dec_index(st["idx"])
                    ref = ref[tuple(np.asarray(i) if isinstance(i, list) else i for i in idx)]
                    y = y[idx]
                elif st["op"] == "rechunk":
                    y = y.rechunk(tuple(tuple(c) for c in st["chunks"]))
                elif st["op"] == "transpose":
                    ref = ref.transpose(st["axes"])
                    y = y.transpose(st["axes"])
                elif st["op"] == "add":
                    ref = ref + st["k"]
                    y = y + st["k"]
            meta_shape = tuple(y.shape)
            meta_chunks = y.chunks
            got = np.asarray(y.compute())
        except NotImplementedError as e:
            return None, {"refused": repr(e)}
        except Exception as e:  # noqa: BLE001
            sig = f"raises:{type(e).__name__}"
            if isinstance(e, TypeError) and case["getitem"] == "g2" and "positional argument" in str(e):
                # the documented `getitem(a, index)` signature called with (a, index, asarray, lock)
                sig = "getitem-2arg-called-with-4"
            return sig, {"error": repr(e)[:300]}
    bad = list(getattr(src, "bad", []))
    nreads = len(getattr(src, "log", []))
    if bad:
        return "read-out-of-bounds", {"requests": bad[:5], "reads": nreads}
    if got.shape != ref.shape or not np.array_equal(got, ref):
        return "values", {"got": got.tolist() if got.size <= 64 else str(got.shape), "want": ref.tolist() if ref.size <= 64 else str(ref.shape)}
    if meta_shape != ref.shape or tuple(sum(c) for c in meta_chunks) != ref.shape:
        return "advertised-shape", {"shape": meta_shape, "chunks": meta_chunks, "want": ref.shape}
    return None, {"reads": nreads}


def shrink(case, sig, budget=120):
    """greedy: drop steps, reset options, while the same signature still fails"""
    best = case
    tries = 0

    def still(c):
        nonlocal tries
        tries += 1
        try:
            s, _ = run_case(c)
        except Exception:  # noqa: BLE001
            return False
        return s == sig

    changed = True
    while changed and tries < budget:
        changed = False
        for i in range(len(best["steps"])):
            c = dict(best, steps=best["steps"][:i] + best["steps"][i + 1:])
            if still(c):
                best, changed = c, True
                break
        if changed:
            continue
        for k, v in (("lock", "none"), ("getitem", "none"), ("asarray", None), ("fancy", True), ("inline_array", False),
                     ("shards", False), ("np_limit", None)):
            if best.get(k) != v:
                c = dict(best, **{k: v})
                if still(c):
                    best, changed = c, True
                    break
        if changed:
            continue
        for i, st in enumerate(best["steps"]):
            if st["op"] == "index":
                for j, e in enumerate(st["idx"]):
                    if e != ["s", None, None, None] and e != "None":
                        idx2 = list(st["idx"])
                        if isinstance(e, list) and e[0] == "s":
                            idx2[j] = ["s", None, None, None]
                        else:
                            continue
                        c = dict(best, steps=best["steps"][:i] + [dict(st, idx=idx2)] + best["steps"][i + 1:])
                        if still(c):
                            best, changed = c, True
                            break
                if changed:
                    break
    return best


def search(ctx, no_locks=False):
    maxchain = ctx.scale(4, 8)
    n = ctx.scale(3000, 40000)
    budget = ctx.scale(35, 420)
    t0 = ctx.elapsed()
    done = 0
    shrunk = set()  # minimise the first failure of each signature only
    total_reads = 0
    for _ in range(n):
        if ctx.elapsed() - t0 > budget:
            break
        case = gen_case(ctx, maxchain)
        if no_locks:
            case["lock"] = "none"  # unbalanced acquire/release already reported: a real lock could block forever
        sig, det = run_case(case)
        done += 1
        total_reads += det.get("reads", 0) if isinstance(det, dict) else 0
        ops = tuple(sorted({s["op"] for s in case["steps"]}))
        ctx.count((case["src"], case["lock"], case["getitem"], case["optimize"], ops, len(case["shape"]), "refused" in det))
        if done % 97 == 0:
            ctx.sample({"program": case, "outcome": "ok" if sig is None else sig})
        if sig is not None:
            small = shrink(case, sig) if sig not in shrunk else case
            shrunk.add(sig)
            s2, d2 = run_case(small)
            if s2 != sig:
                small, d2 = case, det
            ctx.fail(f"from_array:{sig}", {"kind": "program", "program": small, "details": d2},
                     "from_array program differs from NumPy indexing of the source / read request out of bounds")
    ctx.notes["programs"] = done
    ctx.notes["logged_reads_checked"] = total_reads


# --------------------------------------------------------------------------- locked / lazy stores
#
# Stores over a NON-thread-safe backend (one shared seek+read cursor) read through
# from_array(..., lock=...).  The oracle for "the lock is honoured" is deterministic: inside
# every non-empty backend read the store looks at the very lock object that from_array was
# given (or created for lock=True) and records whether it is held (by the calling thread when
# the lock kind can tell).  Eager stores read inside __getitem__; lazy stores return a window
# object (shape/dtype/__array__, not array-like for dask) and read inside np.asarray, like
# xarray's lazy indexing adapters; matrix stores return np.matrix blocks.

class OwnerLock:
    """user lock object (acquire/release + context manager) that remembers the owning thread"""

    def __init__(self):
        self._l = threading.Lock()
        self.owner = None
        self.acquired = 0
        self.released = 0
        self.misuse = []

    def acquire(self, *a, **k):
        me = threading.get_ident()
        if self.owner == me:
            self.misuse.append("acquire by the thread that already holds the lock")
            raise RuntimeError("OwnerLock re-acquired by its owner")
        if a or k:
            r = self._l.acquire(*a, **k)
        else:
            r = self._l.acquire(timeout=20)  # never reached unless a holder forgot to release
            if not r:
                self.misuse.append("acquire blocked for 20 s: a previous holder never released")
                raise RuntimeError("OwnerLock never released by its previous holder")
        if r:
            self.owner = me
            self.acquired += 1
        return r

    def release(self):
        if self.owner != threading.get_ident():
            self.misuse.append("release by a thread that does not hold the lock")
            raise RuntimeError("OwnerLock released by a non-owner")
        self.owner = None
        self.released += 1
        self._l.release()

    def locked(self):
        return self._l.locked()

    def __enter__(self):
        self.acquire()
        return self

    def __exit__(self, *exc):
        self.release()


def lock_busy(lock):
    """is `lock` still held by anybody (asked from the main thread after the computation)?"""
    if isinstance(lock, OwnerLock):
        return lock.owner is not None or lock._l.locked()
    if hasattr(lock, "_is_owned"):
        return bool(lock._is_owned())
    return bool(lock.locked())


def lock_held(lock):
    """is `lock` held (by the calling thread, when the lock kind can tell)?"""
    if isinstance(lock, OwnerLock):
        return lock.owner == threading.get_ident()
    if hasattr(lock, "_is_owned"):  # threading.RLock
        return bool(lock._is_owned())
    return bool(lock.locked())


class CursorBackend:
    """Backend with ONE shared cursor: read = seek, then read from wherever the cursor points.
    Interleaved seek/read pairs of two threads return elements from the wrong position."""

    def __init__(self, a):
        self.a = a
        self.flat = a.reshape(-1)
        self.pos = np.arange(a.size, dtype=np.int64).reshape(a.shape)
        self.cursor = 0
        self.lock = None  # the lock that is supposed to protect this backend (set by the harness)
        self.guarded = False  # record lock state / use the shared cursor
        self.pause = 0.0
        self.reads = 0
        self.unlocked = []  # non-empty reads performed while the lock was not held
        self.overlaps = 0
        self._active = 0
        self._mx = threading.Lock()
        self.phase = "build"

    def read(self, key):
        want = np.asarray(self.pos[key])  # flat positions NumPy selects
        if want.size == 0 or not self.guarded:
            return np.asarray(self.flat[want])
        held = lock_held(self.lock) if self.lock is not None else False
        with self._mx:
            self.reads += 1
            self._active += 1
            if self._active > 1:
                self.overlaps += 1
            if not held:
                self.unlocked.append((repr(key), self.phase))
        first = int(want.reshape(-1)[0])
        self.cursor = first  # seek
        if self.pause:
            import time

            time.sleep(self.pause)
        out = np.asarray(self.flat[(want - first + self.cursor) % self.flat.size])  # read at the shared cursor
        with self._mx:
            self._active -= 1
        return out


class LazyWindow:
    """result of `store[key]` on a lazy store: nothing read yet; the read happens in __array__"""

    def __init__(self, store, key):
        self.store = store
        self.key = key
        self.shape = np.broadcast_to(np.int8(0), store.shape)[key].shape
        self.dtype = store.dtype
        self.ndim = len(self.shape)

    def __array__(self, dtype=None, copy=None):
        out = self.store.backend.read(self.key)
        return out if dtype is None else out.astype(dtype)

    def __getitem__(self, k):
        return np.asarray(self)[k]

    def __len__(self):
        if not self.shape:
            raise TypeError("len() of unsized object")
        return self.shape[0]


class CursorStore:
    """chunked-store look-alike over a CursorBackend; `mode`: eager | lazy | matrix"""

    def __init__(self, a, mode, grid=None):
        self.backend = CursorBackend(a)
        self.mode = mode
        self.shape = a.shape
        self.dtype = a.dtype
        self.ndim = a.ndim
        self.log = []
        self.bad = []
        if grid is not None:
            self.chunks = grid
        self._uid = next(_UID)

    def __dask_tokenize__(self):
        return ("verif-cursorstore", self._uid)

    def __getitem__(self, key):
        self.log.append(key)
        p = key_problem(key, self.shape)
        if p is not None:
            self.bad.append((repr(key), p))
        if self.mode == "lazy":
            return LazyWindow(self, key)
        out = self.backend.read(key)
        if self.mode == "matrix" and getattr(out, "ndim", 0) == 2:
            return np.matrix(out)
        return out


def g4c(a, b, asarray=True, lock=None):
    """custom getitem with the full getter signature: reads AND converts inside the lock it is handed"""
    _GETLOG.append(b)
    if lock:
        lock.acquire()
    try:
        c = a[b]
        if asarray:
            c = np.asarray(c)
        return c
    finally:
        if lock:
            lock.release()


LK_LOCKS = ("true", "serializable", "threading", "rlock", "owner")
LK_GET = ("none", "getter", "getter_nofancy", "getter_inline", "g4c", "g2")
LK_MODES = ("lazy", "eager", "matrix")
LK_SCHED = ("sync", "threads")


def make_lock(kind):
    from dask.utils import SerializableLock

    if kind == "true":
        return True
    if kind == "serializable":
        return SerializableLock()
    if kind == "threading":
        return threading.Lock()
    if kind == "rlock":
        return threading.RLock()
    if kind == "owner":
        return OwnerLock()
    return None


def lk_getitem(kind):
    import dask_array._core_utils as CU

    return {"none": None, "getter": CU.getter, "getter_nofancy": CU.getter_nofancy, "getter_inline": CU.getter_inline,
            "g4c": g4c, "g2": g2}[kind]


def apply_steps(y, ref, steps):
    for st in steps:
        if st["op"] == "index":
            idx = dec_index(st["idx"])
            ref = ref[tuple(np.asarray(i) if isinstance(i, list) else i for i in idx)]
            y = y[idx]
        elif st["op"] == "rechunk":
            y = y.rechunk(tuple(tuple(c) for c in st["chunks"]))
        elif st["op"] == "transpose":
            ref = ref.transpose(st["axes"])
            y = y.transpose(st["axes"])
        elif st["op"] == "add":
            ref = ref + st["k"]
            y = y + st["k"]
    return y, ref


def gen_locked_case(rng, mode, lock, getitem, asarray, sched, maxchain):
    if mode == "matrix":
        shape = (rng.randint(1, 9), rng.randint(1, 9))
    else:
        shape = tuple(rng.randint(1, 9) for _ in range(rng.choice([1, 2, 2, 3])))
    case = {
        "stream": "locked",
        "shape": list(shape),
        "mode": mode,
        "grid": list(rand_grid(rng, shape)) if rng.random() < 0.4 else None,
        "chunks": [list(c) for c in nd_chunks(rng, shape)],
        "lock": lock,
        "getitem": getitem,
        "asarray": asarray,
        "fancy": rng.random() < 0.75,
        "inline_array": rng.random() < 0.3,
        "optimize": rng.random() < 0.8,
        "scheduler": sched,
        "meta": "ndarray" if rng.random() < (0.5 if mode == "lazy" else 0.15) else None,
        "steps": [],
    }
    ref = np.zeros(shape, dtype=np.int8)
    for _ in range(rng.randint(0, maxchain)):
        if ref.ndim == 0 or ref.size == 0:
            break
        r = rng.random()
        if mode == "lazy" and case["meta"] is None and r >= 0.9:
            # without meta= the inferred meta of a lazy store is itself a window (store[0:0]); elemwise meta
            # inference on it is not this property's business
            r = rng.random() * 0.9
        if r < 0.6:
            unit = rng.random() < 0.7
            idx = rand_index(rng, ref.shape, unit_only=unit, allow_none=mode != "matrix", allow_fancy=mode != "matrix")
            if mode == "matrix" and any(isinstance(i, Integral) for i in idx):
                continue  # an integer would be pushed into a store whose blocks are np.matrix (always 2-d)
            try:
                ref2 = ref[tuple(np.asarray(i) if isinstance(i, list) else i for i in idx)]
            except IndexError:
                continue
            case["steps"].append({"op": "index", "idx": enc_index(idx)})
            ref = ref2
        elif r < 0.9:
            case["steps"].append({"op": "rechunk", "chunks": [list(c) for c in nd_chunks(rng, ref.shape, zeros=0.05)]})
        else:
            case["steps"].append({"op": "add", "k": rng.randint(1, 9)})
    return case


def run_locked_case(case):
    """from_array over a CursorStore with a lock; returns (signature or None, details).
    Oracles: NumPy indexing of the backing array; bounds of every request; every non-empty backend
    read happens while the lock is held; nothing overlaps; the lock is free afterwards."""
    import dask
    import dask_array as da

    shape = tuple(case["shape"])
    arr = (np.arange(int(np.prod(shape)), dtype=np.int64) * 3 + 7).reshape(shape)
    store = CursorStore(arr, case["mode"], grid=tuple(case["grid"]) if case.get("grid") else None)
    be = store.backend
    lock = make_lock(case["lock"])
    kw = {}
    if lock is not None:
        kw["lock"] = lock
    gi = lk_getitem(case["getitem"])
    if gi is not None:
        kw["getitem"] = gi
    if case["asarray"] is not None:
        kw["asarray"] = case["asarray"]
    if not case["fancy"]:
        kw["fancy"] = False
    if case["inline_array"]:
        kw["inline_array"] = True
    if case.get("meta") == "ndarray":
        kw["meta"] = np.ndarray
    # a getitem(a, index) callable is never handed the lock: the lock oracle does not apply there
    applicable = lock is not None and case["getitem"] != "g2"
    threads = case["scheduler"] == "threads"
    ref = arr
    det = {}
    with dask.config.set({"array.optimize-graph": bool(case["optimize"])}):
        try:
            x = da.from_array(store, chunks=tuple(tuple(c) for c in case["chunks"]), **kw)
            if lock is not None:
                held = x.expr.operand("lock")
                if lock is True:
                    if not held or held is True:
                        return "lock-dropped", {"operand": repr(held)}
                    be.lock = held
                else:
                    if held is not lock:
                        return "lock-dropped", {"operand": repr(held)}
                    be.lock = lock
            be.guarded = applicable
            be.pause = 0.0002 if (threads and applicable) else 0.0
            y, ref = apply_steps(x, ref, case["steps"])
            meta_shape = tuple(y.shape)
            be.phase = "compute"
            if threads:
                got = y.compute(scheduler="threads", num_workers=4)
            else:
                got = y.compute(scheduler="sync")
            be.phase = "done"
        except NotImplementedError as e:
            return None, {"refused": repr(e)}
        except Exception as e:  # noqa: BLE001
            return f"raises:{type(e).__name__}", {"error": repr(e)[:300]}
    det["reads"] = be.reads
    det["requests"] = len(store.log)
    if store.bad:
        return "read-out-of-bounds", dict(det, bad=store.bad[:5])
    if applicable:
        if be.unlocked:
            return "read-outside-lock", dict(det, unlocked=len(be.unlocked), first=be.unlocked[:3])
        if be.overlaps:
            return "reads-overlap", dict(det, overlaps=be.overlaps)
        if isinstance(be.lock, OwnerLock) and (be.lock.misuse or be.lock.acquired != be.lock.released):
            return "lock-misuse", dict(det, misuse=be.lock.misuse[:3], acquired=be.lock.acquired, released=be.lock.released)
        if lock_busy(be.lock):
            return "lock-left-held", det
    if isinstance(got, np.matrix) or isinstance(got, LazyWindow):
        return "block-type", dict(det, type=type(got).__name__)
    got = np.asarray(got)
    if got.shape != ref.shape or not np.array_equal(got, ref):
        return "values", dict(det, got=got.tolist() if got.size <= 64 else str(got.shape),
                              want=ref.tolist() if ref.size <= 64 else str(ref.shape))
    if meta_shape != ref.shape:
        return "advertised-shape", dict(det, shape=meta_shape, want=ref.shape)
    return None, det


def shrink_locked(case, sig, budget=60):
    best, tries = case, 0

    def still(c):
        nonlocal tries
        tries += 1
        try:
            return run_locked_case(c)[0] == sig
        except Exception:  # noqa: BLE001
            return False

    changed = True
    while changed and tries < budget:
        changed = False
        for i in range(len(best["steps"])):
            c = dict(best, steps=best["steps"][:i] + best["steps"][i + 1:])
            if still(c):
                best, changed = c, True
                break
        if changed:
            continue
        for k, v in (("scheduler", "sync"), ("grid", None), ("inline_array", False), ("fancy", True), ("optimize", True),
                     ("asarray", None), ("getitem", "none"), ("meta", None)):
            if best.get(k) != v:
                if k == "meta" and any(st["op"] == "add" for st in best["steps"]):
                    continue
                c = dict(best, **{k: v})
                if still(c):
                    best, changed = c, True
                    break
    return best


def lk_combos():
    """every (store mode, lock kind, getitem, asarray, scheduler) that is meaningful"""
    out = []
    for mode in LK_MODES:
        for lock in LK_LOCKS + ("none",):
            for gi in LK_GET:
                for asarray in (None, True, False):
                    if asarray is False and mode != "eager":
                        continue  # the user switched the conversion off: blocks stay windows / matrices by request
                    if mode == "matrix" and gi == "g2":
                        continue  # g2 converts itself; nothing matrix-specific left
                    for sched in LK_SCHED:
                        if lock == "none" and sched == "threads":
                            continue
                        out.append((mode, lock, gi, asarray, sched))
    return out


def locked_search(ctx, getter_unsafe=False):
    """every lock kind x getitem x asarray x store mode x scheduler, random shapes/chunks/programs"""
    rng = ctx.rng
    skipped = 0
    combos = lk_combos()
    rounds = ctx.scale(4, 16)
    maxchain = ctx.scale(3, 6)
    budget = ctx.scale(25, 240)
    t0 = ctx.elapsed()
    done = reads = 0
    shrunk = set()
    g2_locked = 0
    per_sig = {}
    unsafe = bool(getter_unsafe)  # acquire/release unbalanced: real (blocking) locks could hang the run
    for rd in range(rounds):
        order = list(combos)
        rng.shuffle(order)
        if rd == 0:
            # canary: the user lock object raises instead of blocking when it is acquired twice
            order.sort(key=lambda c: (c[1] != "owner", c[4] != "sync"))
        for mode, lock, gi, asarray, sched in order:
            if ctx.elapsed() - t0 > budget:
                break
            if unsafe and (lock not in ("owner", "none") or sched == "threads"):
                skipped += 1
                continue
            case = gen_locked_case(rng, mode, lock, gi, asarray, sched, 0 if rd == 0 and rng.random() < 0.5 else maxchain)
            sig, det = run_locked_case(case)
            done += 1
            reads += det.get("reads", 0)
            if gi == "g2" and lock != "none":
                g2_locked += 1
            ops = tuple(sorted({s["op"] for s in case["steps"]}))
            ctx.count(("locked", mode, lock, gi, asarray, sched, ops, "refused" in det))
            if done % 211 == 0:
                ctx.sample({"program": case, "outcome": "ok" if sig is None else sig})
            if sig is not None:
                if lock == "owner" and sig in ("lock-misuse", "lock-left-held", "raises:RuntimeError"):
                    unsafe = True
                per_sig[sig] = per_sig.get(sig, 0) + 1
                if per_sig[sig] > 6:
                    continue  # same class already reported with 6 concrete programs
                small = shrink_locked(case, sig) if sig not in shrunk else case
                shrunk.add(sig)
                s2, d2 = run_locked_case(small)
                if s2 != sig:
                    small, d2 = case, det
                ctx.fail(f"from_array-locked:{sig}", {"kind": "program", "program": small, "details": d2},
                         "locked store read through from_array: backend read outside the lock / wrong elements / "
                         "request out of bounds")
    ctx.notes["locked_programs"] = done
    ctx.notes["locked_backend_reads_checked"] = reads
    ctx.notes["locked_combos"] = len(combos)
    if per_sig:
        ctx.notes["locked_failures_by_signature"] = dict(per_sig)
    if skipped:
        ctx.notes["locked_skipped_blocking_locks"] = (
            f"{skipped} programs with blocking lock kinds skipped: acquire/release found unbalanced with the user lock object")
    return unsafe
    if g2_locked:
        ctx.notes["getitem_2arg_with_lock"] = (
            f"{g2_locked} programs pass lock= together with a getitem(a, index) callable: from_array never hands such a "
            "callable the lock (same as dask.array), so the lock oracle is not applied there (values/bounds only)")


# --------------------------------------------------------------------------- getter functions directly

GT_FUNCS = ("getter", "getter_nofancy", "getter_inline")


def run_getter_case(case):
    """one direct call of a getter function on a CursorStore (keys may contain None / integers)"""
    import dask_array._core_utils as CU

    shape = tuple(case["shape"])
    arr = (np.arange(int(np.prod(shape)), dtype=np.int64) * 3 + 7).reshape(shape)
    store = CursorStore(arr, case["mode"])
    be = store.backend
    lock = make_lock(case["lock"])
    if lock is True:
        from dask.utils import SerializableLock

        lock = SerializableLock()
    be.lock = lock
    be.guarded = lock is not None
    be.phase = "call"
    key = dec_index(case["key"])
    fn = getattr(CU, case["fn"])
    want = arr[key]
    try:
        if case["style"] == "kw":
            got = fn(store, key, asarray=case["asarray"], lock=lock)
        elif case["style"] == "pos":
            got = fn(store, key, case["asarray"], lock)
        else:
            got = fn(store, key, lock=lock) if lock is not None else fn(store, key)
    except Exception as e:  # noqa: BLE001
        return f"raises:{type(e).__name__}", {"error": repr(e)[:300]}
    det = {"reads": be.reads}
    if lock is not None:
        if be.unlocked:
            return "read-outside-lock", dict(det, unlocked=len(be.unlocked), first=be.unlocked[:3])
        if isinstance(lock, OwnerLock) and (lock.misuse or lock.acquired != lock.released):
            return "lock-misuse", dict(det, misuse=lock.misuse[:3], acquired=lock.acquired, released=lock.released)
        if lock_busy(lock):
            return "lock-left-held", det
    conv = case["asarray"] if case["style"] != "default" else True
    if conv and type(got) is not np.ndarray and not np.isscalar(got):
        return "block-type", dict(det, type=type(got).__name__)
    got = np.asarray(got)
    if got.shape != want.shape or not np.array_equal(got, want):
        return "values", dict(det, got=got.tolist() if got.size <= 64 else str(got.shape),
                              want=want.tolist() if want.size <= 64 else str(want.shape))
    return None, det


def getter_search(ctx):
    rng = ctx.rng
    done = 0
    per_sig = {}
    for _ in range(ctx.scale(4, 16)):
        for fn in GT_FUNCS:
            for mode in LK_MODES:
                for lock in LK_LOCKS + ("none",):
                    for asarray in (True, False):
                        for style in ("kw", "pos", "default"):
                            if style == "default" and not asarray:
                                continue
                            if not asarray and mode != "eager":
                                continue  # conversion switched off: the window is read later, by the caller
                            if mode == "matrix":
                                shape = (rng.randint(1, 7), rng.randint(1, 7))
                            else:
                                shape = tuple(rng.randint(1, 7) for _ in range(rng.choice([1, 2, 3])))
                            idx = rand_index(rng, shape, unit_only=rng.random() < 0.3, allow_none=False, allow_fancy=False)
                            idx = list(idx)
                            if mode == "matrix":
                                idx = [i for i in idx if not isinstance(i, Integral)]
                            elif rng.random() < 0.5:
                                for _n in range(rng.randint(1, 2)):
                                    idx.insert(rng.randint(0, len(idx)), None)
                            try:
                                np.zeros(shape, np.int8)[tuple(idx)]
                            except IndexError:
                                continue
                            case = {"stream": "getter", "fn": fn, "shape": list(shape), "mode": mode, "lock": lock,
                                    "asarray": asarray, "style": style, "key": enc_index(tuple(idx))}
                            sig, det = run_getter_case(case)
                            done += 1
                            ctx.count(("getter", fn, mode, lock, asarray, style, any(i is None for i in idx)))
                            if done % 307 == 0:
                                ctx.sample({"program": case, "outcome": "ok" if sig is None else sig})
                            if sig is not None:
                                per_sig[sig] = per_sig.get(sig, 0) + 1
                                if per_sig[sig] > 6:
                                    continue
                                ctx.fail(f"getter:{sig}", {"kind": "program", "program": case, "details": det},
                                         "getter(store, key, asarray, lock): backend read outside the lock / wrong elements")
    ctx.notes["getter_calls"] = done
    if per_sig:
        ctx.notes["getter_failures_by_signature"] = dict(per_sig)
    return any(k in ("lock-left-held", "lock-misuse", "raises:RuntimeError") for k in per_sig)


# --------------------------------------------------------------------------- targeted

def targeted(ctx):
    """lift model/implementation disagreements to API-level programs on a recording source"""
    import dask_array as da

    tried = 0
    for d in ctx.disagreements[:60]:
        t = d["request"].split()
        try:
            cases = []
            if t[0] == "io.accept_slice":
                dims = [int(v) for v in t[1].split(",")] if t[1] != "_" else []
                regions = None if t[2] == "N" else [p_slice(s) for s in t[2].split("|")]
                chunks = [[int(v) for v in c.split(",")] for c in t[3].split(";")]
                idx = []
                for tok in ([] if t[4] == "_" else t[4].split("|")):
                    if tok == "nx":
                        idx.append(None)
                    elif tok == "F":
                        idx = None
                        break
                    elif ":" in tok:
                        idx.append(p_slice(tok))
                    else:
                        idx.append(int(tok))
                if idx is None:
                    continue
                steps = []
                if regions is not None:
                    steps.append({"op": "index", "idx": enc_index(tuple(regions))})
                    steps.append({"op": "rechunk", "chunks": chunks})
                steps.append({"op": "index", "idx": enc_index(tuple(idx))})
                for kind in ("rec", "numpy"):
                    cases.append({"shape": dims, "src": kind, "grid": None, "shards": False,
                                  "chunks": chunks if regions is None else [[n] for n in dims], "lock": "none", "getitem": "none",
                                  "asarray": None, "fancy": True, "inline_array": False,
                                  "np_limit": 0 if kind == "numpy" else None, "optimize": True, "steps": steps})
            elif t[0] == "io.accept_rechunk":
                dims = [int(v) for v in t[1].split(",")] if t[1] != "_" else []
                regions = None if t[2] == "N" else [p_slice(s) for s in t[2].split("|")]
                grid = None if t[4] == "N" else [int(v) for v in t[4].split(",")]
                target = [[int(v) for v in c.split(",")] for c in t[5].split(";")]
                steps = []
                if regions is not None:
                    steps.append({"op": "index", "idx": enc_index(tuple(regions))})
                steps.append({"op": "rechunk", "chunks": target})
                cases.append({"shape": dims, "src": "grid" if grid else "rec", "grid": grid, "shards": False,
                              "chunks": [[n] for n in dims], "lock": "none", "getitem": "none", "asarray": None, "fancy": True,
                              "inline_array": False, "np_limit": None, "optimize": True, "steps": steps})
            elif t[0] in ("io.accept_chain", "io.layer"):
                if t[0] == "io.layer":
                    dim, chain = int(t[1]), ([] if t[2] == "N" else [p_slice(t[2])])
                    cks = [int(v) for v in t[3].split(",")] if t[3] != "_" else [0]
                    steps = [{"op": "index", "idx": enc_index((s,))} for s in chain] + [{"op": "rechunk", "chunks": [cks]}]
                    chunks0 = [[dim]] if chain else [cks]
                else:
                    dim = int(t[1])
                    chunks0 = [[int(v) for v in t[2].split(",")] if t[2] != "_" else [0]]
                    steps = []
                    for tok in t[3].split("|"):
                        steps.append({"op": "index", "idx": enc_index((p_slice(tok) if ":" in tok else int(tok),))})
                for kind in ("rec", "numpy"):
                    cases.append({"shape": [dim], "src": kind, "grid": None, "shards": False, "chunks": chunks0,
                                  "lock": "none", "getitem": "none", "asarray": None, "fancy": True, "inline_array": False,
                                  "np_limit": 0 if kind == "numpy" else None, "optimize": True, "steps": steps})
            for c in cases:
                tried += 1
                try:
                    sig, det = run_case(c)
                except IndexError:
                    continue  # the lifted program is not valid NumPy (raw, un-normalized helper input)
                if sig is not None:
                    ctx.fail(f"from_array:{sig}", {"kind": "program", "program": c, "details": det, "lifted_from": d["request"]},
                             "API-level lift of a model/implementation disagreement fails")
        except Exception as e:  # noqa: BLE001
            ctx.notes.setdefault("targeted_errors", []).append(repr(e)[:200])
    ctx.notes["targeted_search"] = f"{tried} API-level programs lifted from disagreeing helper inputs (recording + NumPy sources)"


# --------------------------------------------------------------------------- entry

def run(ctx, replay=None):
    ctx.rule = (
        "correspondence: seeded random FromArray nodes (rank 1-3, axis <= 12, NumPy / recording sources with and without "
        "storage grid, lock, inline_array; NumPy sources with the pushdown byte limit lowered to reach the region "
        "branches) walked along chains of real _accept_slice calls; at every node the real _layer slices and a real "
        "_accept_rechunk call are compared with the model; distinct by (family, outcome class, region present, block "
        "count). search: seeded random programs from_array(src, chunks, lock/getitem/asarray/fancy/inline_array) followed "
        "by <= 4 (quick) / 8 (thorough) steps of unit slices, ints, stepped/negative slices, None, rare integer lists, "
        "rechunks, transposes, elemwise adds, optimized and unoptimized; distinct by (source kind, lock, getitem, "
        "optimize, op set, rank). locked stores: the full product of store mode (eager read in __getitem__ / lazy window "
        "read in __array__ / np.matrix blocks) x lock kind (True, SerializableLock, threading.Lock, RLock, user object "
        "with acquire/release) x getitem (default, getter, getter_nofancy, getter_inline, custom 4-arg, custom 2-arg) x "
        "asarray x scheduler (sync, 4 threads) over a shared seek+read cursor backend, each with random shape / chunks / "
        "storage grid / <= 3 (quick) steps of slices, ints, rechunks, adds; the backend records inside every non-empty read "
        "whether the lock handed to from_array is held (by the calling thread for RLock / user lock) - deterministic, not "
        "timing based; distinct by (mode, lock, getitem, asarray, scheduler, op set). getter functions: direct calls "
        "fn(store, key, asarray, lock) with keys containing None / ints / stepped slices, all three calling styles. "
        "rebuilt reads (harness/props_ext/c24_rebuild.py): every rewrite that rebuilds the source node (rechunk of every spec kind "
        "incl. auto / balance / storage-grid multiples, slice, int, both orders, below elemwise / transpose, next to take, "
        "chains) x every read transform (getitem= callables that DECODE the stored samples: offset, scale, cast; 4- and "
        "2-argument; default getter) x lock / asarray / fancy / inline_array / meta / optimize values; oracles: NumPy on the "
        "decoded array, bounds, the asarray/lock handed to the getter, read options of the rebuilt source nodes. "
        "same-named sources (harness/props_ext/c24_named.py): 2-3 different sources (NumPy below / above the eager-copy limit, recording, "
        "storage grid, mixed; same or different shapes and chunks) wrapped with ONE user-supplied name=, one chain (1-3 unit slices, the "
        "first narrowing; then rechunks / slices in every order for sources without a storage grid; controls without pushdown) applied to "
        "each, as a grid over 10 histories (sequential with the first collection alive, both built first and computed in either order, "
        "optimized first, rebuilt, recomputed, three sources, first collection dropped) x source kinds; every compute is compared with "
        "NumPy on its own source; distinct by (family, kinds, history, op string, shapes differ, limit)"
    )
    ctx.assumptions = [
        "NumPy basic indexing / slice assignment is a per-axis product (the theorems are per axis)",
        "lowering _NUMPY_SLICE_PUSHDOWN_NBYTES_LIMIT emulates NumPy sources above 64 MiB",
        "integers reaching _accept_slice are in range (normalize_index; C12)",
        "a getitem(a, index) callable without asarray/lock keywords is never handed the lock (as in dask.array): the lock "
        "oracle is applied only when the default getters or a 4-argument getitem are in use",
        "with asarray=False on a lazy-window store the user defers the read on purpose: not generated",
        "zero-size probes (meta_from_array reads store[0:0,...] at graph construction) are not subject to the lock oracle",
        "same-named reads are computed one collection at a time (in one graph two reads with one name share their keys by construction); "
        "chains that leave an expression above a same-named read (rechunk of the bare read, integer index, op over a pushed slice) already "
        "return the first source's elements on the unchanged tree: evaluated and recorded in notes, not part of the reporting stream",
    ]
    if replay is not None:
        case = replay.get("case", replay)
        prog = case.get("program")
        if prog is not None and prog.get("stream") == "named":
            from harness.props_ext.c24_named import run_named_case

            sig, det = run_named_case(prog)
            if sig is not None:
                pre = "from_array-named:above-read" if str(prog.get("family", "")).startswith("probe:") else "from_array-named"
                ctx.fail(f"{pre}:{sig}", {"kind": "program", "program": prog, "details": det}, "replayed program still fails")
            ctx.count(("replay",))
            ctx.sample({"program": prog, "outcome": sig or "ok"})
        elif prog is not None and prog.get("stream") == "rebuild":
            from harness.props_ext.c24_rebuild import run_rebuild_case

            sig, det = run_rebuild_case(prog)
            if sig is not None:
                ctx.fail(f"from_array-rebuild:{sig}", {"kind": "program", "program": prog, "details": det}, "replayed program still fails")
            ctx.count(("replay",))
            ctx.sample({"program": prog, "outcome": sig or "ok"})
        elif prog is not None and prog.get("stream") in ("locked", "getter"):
            locked = prog["stream"] == "locked"
            sig, det = run_locked_case(prog) if locked else run_getter_case(prog)
            if sig is not None:
                ctx.fail(f"{'from_array-locked' if locked else 'getter'}:{sig}",
                         {"kind": "program", "program": prog, "details": det}, "replayed program still fails")
            ctx.count(("replay",))
            ctx.sample({"program": prog, "outcome": sig or "ok"})
        elif prog is not None:
            sig, det = run_case(prog)
            if sig is not None:
                ctx.fail(f"from_array:{sig}", {"kind": "program", "program": prog, "details": det}, "replayed program still fails")
            ctx.count(("replay",))
            ctx.sample({"program": prog, "outcome": sig or "ok"})
        return
    correspondence(ctx)
    # the direct getter calls go first: they cannot block, and tell whether acquire/release are balanced
    unsafe = getter_search(ctx)
    unsafe = locked_search(ctx, getter_unsafe=unsafe)
    from harness.props_ext.c24_rebuild import rebuild_search

    rebuild_search(ctx)
    from harness.props_ext.c24_named import named_search

    named_search(ctx)
    search(ctx, no_locks=unsafe)
    if ctx.disagreements or ctx.audit.get("broken"):
        targeted(ctx)
