"""C08 — optimization terminates and is idempotent; it never turns a computable program into
one that raises.

Theorems: Props/C08.lean (well-founded measure decreases on every modelled rule; idempotence).
Correspondence (harness/export.py, driver family ru.*): every fired rewrite whose two sides export to
the mini-language must be sound for the model (`ru.equiv`; a 0 is a model/implementation disagreement);
the model's termination measure is evaluated on both sides (`ru.measure`, evidence: `measure.decreased`
/ `measure.not_decreased` by rule — the real optimizer's own termination argument differs for rules the
model represents differently, so a non-decrease is never a verdict) and the instances of modelled,
proved rules are counted (`rule_instances_covered` / `_uncovered`).
Search: every program whose RAW form computes (rewrite-free: `lower_completely()` only, the graph run
directly, see harness/props_ext/rawfree.py — `x.compute()` under array.optimize-graph=False still runs
dask's generic `expr.optimize()`, i.e. simplify, over the lowered tree and is therefore not a rewrite-free
precondition) must simplify/lower/fuse without error under a watchdog, optimizing the optimized
expression must return the same name, and the optimized compute of a FRESHLY BUILT copy of the program
(a collection caches its first materialization, so re-computing the same object would re-run the raw
graph) must not raise and must give the raw form's array.
Streams: the random programs and broadcasting chains of the first rounds, plus directed chains over
(a) rank-4/5 sources under axis permutations spelled as transpose / moveaxis / rollaxis / swapaxes (cycles
preferred) followed by integer / mixed / explicit-bound indices and takes, (b) creation functions
(ones / zeros / full / empty / arange / linspace / eye / tri / *_like, from_array(name=)) with and without
name= / dtype=, chunks in every accepted form, alone and under elementwise ops, followed by every index
kind, (c) ufuncs with out= (where=True and where=<array>) followed by slices, integer indices and takes
that change the axis length.
Extension stream (harness/props_ext/c08_whereout.py): a GRID where= kind (absent / full-rank dask / LOWER-rank dask on
the trailing axes / length-1 axes / 0-d / NumPy array / Python bool) × consumer kind (.T / transpose / swapaxes /
moveaxis, every basic-slice kind, takes, rechunk, reductions, expand_dims / squeeze / None-indexing, broadcast_to,
concatenate / stack with a sibling, elementwise consumers, and pairs) walked completely in every run, with out= in
{None, same dtype, wider dtype}, operands broadcasting among themselves, square and non-square shapes, ragged chunks:
every rewrite that rebuilds an Elemwise must carry where= / out= along like the other operands, with broadcasting.
"""
from __future__ import annotations

import random
import signal
import warnings

import numpy as np

from harness import classify, export as X, progcheck as PC, programs as P, trace as T
from harness.props_ext.rawfree import raw_eval

KNOWN = ("swv-layout-drift", "take-through-broadcast", "swv-nested-wrong-values", "broadcast-axis-zero-width-chunk", "eye:offset:first-row-chunk-shorter")
WATCHDOG_S = 20


class Timeout(Exception):
    pass


def _alarm(signum, frame):
    raise Timeout()


def optimize_expr(e):
    from dask_array._materialize import _lower

    return _lower(e, optimize_graph=True).fuse()


def check_program(ctx, prog, want):
    import dask

    env, exc = PC.build(prog)
    if exc is not None:
        return
    x = env[prog[-1]["out"]]
    # precondition of the property: computable without optimization (no simplify, no fuse: lowering only)
    try:
        base = raw_eval(x.expr)
    except Exception:
        ctx.notes["not_computable_unoptimized"] = ctx.notes.get("not_computable_unoptimized", 0) + 1
        return
    T.clear_caches()
    old = signal.signal(signal.SIGALRM, _alarm)
    signal.alarm(WATCHDOG_S)
    try:
        with warnings.catch_warnings():
            warnings.simplefilter("ignore")
            with T.trace_objects() as recs:
                e1 = optimize_expr(x.expr)
            with T.trace_objects() as recs2:
                e2 = optimize_expr(e1)
            e3 = optimize_expr(e2) if e2._name != e1._name else e2
            s1 = x.expr.simplify()
            s2 = s1.simplify()
            l1 = s1.lower_completely()
            l2 = l1.lower_completely()
        signal.alarm(0)
    except Timeout:
        ctx.fail("optimize:watchdog-timeout", {"program": prog, "seconds": WATCHDOG_S}, "simplify/lower/fuse did not finish under the watchdog (candidate non-termination)")
        return
    except Exception as e:  # noqa: BLE001
        signal.alarm(0)
        sig = classify.classify(prog, ("exc", e))
        ctx.fail(sig if sig in KNOWN else "optimize-raises:" + type(e).__name__, {"program": prog, "outcome": repr(e)[:300]},
                 "optimization raises on a program that computes without optimization")
        return
    finally:
        signal.signal(signal.SIGALRM, old)
    ctx.count((tuple(sorted({r["rule"] for r in recs})), len(recs) > 0))
    ctx.notes["rewrites_fired"] = ctx.notes.get("rewrites_fired", 0) + len(recs)
    X.collect(ctx, prog, recs)  # model correspondence (driver consulted once, in run())
    if e2._name != e1._name:
        # which rules still fire on an already optimized tree?  (the signature names them, so a
        # different source of non-idempotence is a different finding)
        rules2 = "+".join(sorted({r["rule"] for r in recs2 if r["phase"] == "simplify"})) or "lower-only"
        sig = "optimize-not-idempotent:" + rules2 if e3._name == e2._name else "optimize-not-converging"
        ctx.fail(sig, {"program": prog, "first": e1._name, "second": e2._name, "rules_in_second_pass": rules2,
                       "third_pass_stable": e3._name == e2._name}, "optimizing an optimized expression changes its name")
    try:
        shp1, shp0 = tuple(e1.shape), tuple(x.shape)
    except Exception:  # noqa: BLE001  (metadata of the optimized tree is lazy; if reading it raises, so does the compute below)
        shp1 = shp0 = ()
    if shp1 != shp0 and not any(isinstance(d, float) and np.isnan(d) for d in shp1 + shp0):
        ctx.fail("optimize-changes-shape", {"program": prog, "advertised": [int(d) for d in shp0], "optimized": [int(d) for d in shp1]},
                 "the optimized expression has another shape than the collection advertises")
    if s2._name != s1._name:
        ctx.fail("simplify-not-idempotent", {"program": prog, "first": s1._name, "second": s2._name}, "simplify is not idempotent")
    if l2._name != l1._name:
        ctx.fail("lower-not-idempotent", {"program": prog, "first": l1._name, "second": l2._name}, "lower_completely is not idempotent")
    # a (rule, before) pair firing twice with different products within one pass would indicate flip-flopping
    # optimized compute must not raise and must agree: on a fresh build of the program, from cleared process-wide
    # memo state (what `build; compute()` does in a new session)
    T.clear_caches()
    env2, exc2 = PC.build(prog)
    if exc2 is not None:
        ctx.fail("rebuild-raises:" + type(exc2).__name__, {"program": prog, "outcome": repr(exc2)[:300]}, "building the same program a second time raises")
        return
    x2 = env2[prog[-1]["out"]]
    try:
        with warnings.catch_warnings():
            warnings.simplefilter("ignore")
            with dask.config.set({"array.optimize-graph": True}):
                got = np.asarray(x2.compute(scheduler="sync"))
    except Exception as e:  # noqa: BLE001
        sig = classify.classify(prog, ("exc", e))
        ctx.fail(sig if sig in KNOWN else "optimized-compute-raises:" + type(e).__name__, {"program": prog, "outcome": repr(e)[:300]},
                 "the optimized program raises although the unoptimized one computes")
        return
    if got.shape != base.shape or not np.array_equal(got, base):
        sig = classify.classify(prog, ("value", "opt-vs-unopt"))
        ctx.fail(sig if sig in KNOWN else "optimized-differs", {"program": prog}, "optimized and unoptimized results differ")


BCAST_PATTERNS = (
    ("binary_new", "getitem_explicit"), ("binary_new", "unary", "getitem_explicit"), ("binary_new", "transpose", "getitem_explicit"),
    ("binary_new", "getitem_explicit", "getitem_explicit"), ("expand_dims", "binary_new", "getitem_explicit"),
    ("binary_new", "reduce", "getitem_explicit"), ("binary_new", "binary_new", "getitem_explicit"),
    ("broadcast_to", "getitem_explicit"), ("binary_new", "rechunk", "getitem_explicit"),
    # several unit axes added at once, then the rewrites that have to renumber axes through them
    ("expand_dims_multi", "rechunk"), ("expand_dims_multi", "unary", "rechunk"), ("expand_dims_multi", "rechunk", "getitem_explicit"),
    ("expand_dims_multi", "getitem_explicit"), ("expand_dims_multi", "transpose", "rechunk"),
)


T6_PATTERNS = P.T6_PATTERNS  # third-round directed chains (families, generator kwargs, patterns): see harness/programs.py


def directed_t6_stream(ctx):
    # a child generator seeded from ctx.rng whose state is then restored (later streams draw what they drew before)
    st = ctx.rng.getstate()
    rng = random.Random(ctx.rng.getrandbits(64))
    ctx.rng.setstate(st)
    per = ctx.scale(10, 100)  # programs per pattern
    for fam, (kw, pats) in T6_PATTERNS.items():
        for pat, g in P.directed_programs_t6(rng, per * len(pats), pats, **kw):
            ctx.count(("directed-t6", fam, pat))
            check_program(ctx, g.prog, g.env[g.prog[-1]["out"]])


def run(ctx, replay=None):
    rng = ctx.rng
    ctx.rule = (
        "seeded random programs whose raw form computes rewrite-free (lower_completely only, graph run directly); each is "
        f"optimized under a {WATCHDOG_S}s watchdog, re-optimized (name must not change), simplify/lower idempotence, advertised shape "
        "kept, optimized compute of a fresh build (must not raise, must equal the raw form's array); directed chains: broadcasting "
        "operands under explicit-bound slices; rank-4/5 permutations under integer indices; creation functions (name= / dtype= / "
        "chunks forms) and ufunc(out=[, where=]) under every index kind; distinct = set of rewrite rules fired.  Plus "
        "(props_ext/c08_whereout) the grid where= kind x consumer kind of ufunc(where=, out=) calls (lower-rank / length-1 / 0-d / "
        "NumPy / Python masks; out= none / same / wider dtype; axis permutations, slices, takes, rechunk, reductions, expand_dims, "
        "squeeze, broadcast_to, concatenate, stack, elementwise consumers and pairs), same statement, undefined positions "
        "(where= without out=) excluded; distinct = (where kind, consumer kind, operand pattern, out kind, #consumers)"
    )
    if replay is not None and replay.get("case", {}).get("whereout"):  # harness/props_ext/c08_whereout.py
        from harness.props_ext import c08_whereout

        c08_whereout.check_case(ctx, replay["case"], "raw", do_shrink=False)
        return
    if replay is not None:
        prog = replay["case"]["program"]
        check_program(ctx, prog, None)
        X.flush(ctx)
        return
    PC.probe_known(ctx, KNOWN)
    # dedicated probe of the listed idempotence finding (prints KNOWN-FINDING while it reproduces)
    probe = [{"op": "src", "shape": [5], "chunks": [[1, 1, 1, 1, 1]], "mul": 1, "off": -2, "mod": 11, "out": "v1"},
             {"op": "roll", "args": ["v1"], "shift": 3, "axis": 0, "out": "v2"},
             {"op": "src", "shape": [5], "chunks": [[4, 1]], "mul": 7, "off": -2, "mod": 5, "out": "v5"},
             {"op": "stack", "args": ["v1", "v5"], "axis": 0, "out": "v6"},
             {"op": "sub", "args": ["v6", "v2"], "out": "v7"}]
    check_program(ctx, probe, None)
    N = ctx.scale(1200, 8000)
    mini = []
    for i in range(N):
        zero = 0.05 if rng.random() < 0.2 else 0.0
        prog, g = P.gen_program(rng, depth=rng.randint(2, ctx.scale(7, 11)), avoid=("swv-consumer",), zero_axes=zero,
                                ops=P.DEFAULT_OPS + ("self_transpose", "self_transpose", "map_blocks", "expand_dims", "rechunk"))
        check_program(ctx, prog, g.env[prog[-1]["out"]])
        if len(mini) < ctx.scale(150, 1500):
            mini.append((prog, g.env[prog[-1]["out"]]))
        if i < 3:
            ctx.sample({"program": prog})
    # directed chains: pushdown rules meet slices with explicit bounds and both step signs over broadcasting operands
    for pat, g in P.directed_programs(rng, ctx.scale(400, 4000), BCAST_PATTERNS):
        ctx.count(("directed", pat))
        check_program(ctx, g.prog, g.env[g.prog[-1]["out"]])
    directed_t6_stream(ctx)
    from harness.props_ext import c08_whereout  # ufunc(where=, out=) x every consumer the optimizer rewrites through an Elemwise

    c08_whereout.search(ctx, "raw")
    X.flush(ctx)
    # the model's own optimizer on the programs that lie inside the mini-language
    X.model_optimize_stream(ctx, mini)
